"""C35 — sensitive claim values never reach access logs.

(a) rx : for every sensitive claim name N of the property, every key that contains N in any
         (ASCII) letter case — for the bare OIDC claim ``name``: every key that *is* N in any case —
         is matched by ``_DEFAULT_CLAIM_REDACT_RE.search``; decided for all strings (unbounded
         length) as a regular-language inclusion on the live pattern object.
(b) xh : the real ``redact_claims`` / ``apply_claim_redaction`` / claims branch of
         ``_emit_access_log`` on claim trees:
         * ``top_level_sensitive_words_redacted`` / ``nested_sensitive_words_redacted`` — the live
           regex (no stubs), key = any sensitive word in lower/UPPER/Title case chosen by a
           symbolic index, at the top level / at every nested position kind;
         * ``tree_redaction_any_keys`` — regex replaced by the contract "search(k) is truthy iff k
           is a sensitive key" (justified by (a)); keys are arbitrary strings; tree = symbolic
           caterpillar tree of dict/list nodes, depth <= 3, 2 children per node;
         * ``failing_redactor_drops_claims`` — a redactor raising any Exception => no claims;
         * ``failing_redactor_history`` — one installation, 1..3 records, the redactor raises on any subset of
           them: every record it raised on carries no claims, the others no sensitive value.
         Asserted: no sentinel leaf below a sensitive key at any depth is reachable in what is
         handed to the access logger; the sensitive key itself is still present with REDACTED.
"""

from __future__ import annotations

import json
import logging
import re
from collections.abc import Mapping

from engine.api import REPO, cond, is_open, pick, task
from engine.reglob import reglobalize

from vgi_rpc import logging_utils as lu
from vgi_rpc.rpc import _common as common
from vgi_rpc.rpc import _server as srv
from vgi_rpc.rpc._common import AuthContext

PROPERTY = "C35"
ENCODED = [lu.redact_claims, lu.apply_claim_redaction, srv._emit_access_log]
BOUNDS = (
    "rx: all key strings over code points 0..0x2FFFF, unbounded length, all 19 names; "
    "xh words: 19 names x {lower, UPPER, Title} x {top level, 5 nested position kinds}; "
    "xh tree: caterpillar trees (every node has 2 children, at most one of them a container, container position "
    "symbolic) of dict/list nodes, depth <= %d, sensitive key = any string len<=2 at any dict level on the spine or "
    "on the sibling leaf; xh redactor history: one installation, 1..%d records, raising on any subset of them"
    % (pick(3, 4), pick(3, 4))
)
OUTSIDE = (
    "trees where both children of a node are containers; claim values that are not str/dict/list; keys that merely "
    "*contain* 'name' (the live pattern and this spec treat the bare OIDC claim `name` as a whole-key match); "
    "VgiAccessLogFormatter serialisation (the record's `claims` object is inspected before json.dumps); "
    "content-based detection (an e-mail address under a neutral key is by design not caught)"
)
ASSUMPTIONS = [
    "tree_redaction_any_keys replaces logging_utils._DEFAULT_CLAIM_REDACT_RE by the contract stub "
    "'search(k) truthy iff k is the designated sensitive key' — justified by item regex_covers_sensitive_names; its "
    "replay on un-stubbed code puts a key the LIVE pattern matches (the first listed name) in the designated place",
    "vgi_rpc.access logger := stub that reports INFO enabled (the worker disables real logging); records go to the "
    "deferred sink exactly as under the HTTP transport",
]

SIG_NESTED = "C35:nested-claims-not-redacted"

# Spec (property text): names whose values must never be logged.
SUBSTRING_NAMES = [
    "password", "token", "secret", "key", "authorization",
    "email", "phone", "address", "birthdate", "gender",
    "given_name", "family_name", "middle_name", "nickname", "preferred_username",
    "picture", "profile", "website",
]  # fmt: skip
EXACT_NAMES = ["name"]  # the bare OIDC claim `name`: whole key (as a substring it would be username/hostname/filename…)
ALL_NAMES = SUBSTRING_NAMES + EXACT_NAMES

_LIVE_RE = lu._DEFAULT_CLAIM_REDACT_RE


# ---------------------------------------------------------------------------
# (a) regular-language inclusion
# ---------------------------------------------------------------------------


def _tests_corpus() -> list[str]:
    import ast
    import glob

    out: set[str] = set()
    for path in glob.glob(REPO + "/tests/**/*.py", recursive=True):
        try:
            src = open(path).read()
        except OSError:
            continue
        if "redact" not in src and "claims" not in src:
            continue
        try:
            tree = ast.parse(src)
        except SyntaxError:
            continue
        for n in ast.walk(tree):
            if isinstance(n, ast.Constant) and isinstance(n.value, str) and 0 < len(n.value) <= 24 and "\n" not in n.value:
                out.add(n.value)
    return sorted(out)[:300]


def _replay_key(key: str) -> dict:
    """Real replay of an rx witness: the public redact_claims on a one-claim mapping."""
    secret = "S3CR3T-VALUE"
    out = lu.redact_claims({key: secret})
    leaked = any(secret in str(v) for v in out.values())
    if leaked:
        return {
            "verdict": "VIOLATION",
            "detail": f"redact_claims({{{key!r}: <secret>}}) returned the secret verbatim: the claim name is not matched by the live pattern",
            "signature": "C35:sensitive-name-not-matched",
            "replayed": True,
        }
    return {"verdict": "INCONCLUSIVE", "detail": f"solver witness {key!r} did not reproduce on redact_claims"}


def _alternative_languages():
    """z3 languages of the live pattern's top-level alternatives under ``search``.

    L_search(A1|...|An) = L_search(A1) ∪ ... ∪ L_search(An): a string contains a match of the
    alternation iff it contains a match of one alternative.  Deciding an inclusion against one
    alternative at a time keeps every query small (the 19-way union is beyond z3's budget).
    """
    import re._constants as _c
    import re._parser as _p

    from engine import rx

    tree = _p.parse(_LIVE_RE.pattern, _LIVE_RE.flags)
    flags = tree.state.flags | _LIVE_RE.flags
    if flags & re.MULTILINE:
        raise rx.Unsupported("MULTILINE")
    data = list(tree.data)
    alts = data[0][1][1] if len(data) == 1 and data[0][0] is _c.BRANCH else [data]
    return [rx._seq(list(a), flags, "search", True) for a in alts]


@task(q=60, t=180, encoded=[lu.redact_claims], bound="all strings (regular-language inclusion), 19 names", engine="rx")
def regex_covers_sensitive_names(budget: float, replay=None) -> dict:
    import z3

    from engine import rx

    if replay is not None:
        return _replay_key(replay["key"])
    try:
        langs = _alternative_languages()
        impl = rx.lang(_LIVE_RE, "search")
    except rx.Unsupported as e:
        return {"verdict": "INCONCLUSIVE", "detail": f"regex construct outside the translator: {e}", "queries": 0, "discharged": 0}
    union = z3.Union(*langs) if len(langs) > 1 else langs[0]
    q = rx.Query(timeout_s=min(20.0, budget / 4))

    def ci(word: str):
        parts = []
        for ch in word:
            lo, up = ch.lower(), ch.upper()
            parts.append(z3.Re(lo) if lo == up else z3.Union(z3.Re(lo), z3.Re(up)))
        return parts[0] if len(parts) == 1 else z3.Concat(*parts)

    corpus = (
        _tests_corpus()
        + ["name", "Name", "name\n", "username", "xnamex", "", "sub", "iss", "KEY", "monkey", "E-Mail", "e_mail", "tokens", "ſecret", "\u212aey", "Key"]
        + [w.upper() for w in ALL_NAMES]
        + ["x" + w + "y" for w in ALL_NAMES]
        + [w[:-1] for w in ALL_NAMES]
    )
    # both encodings (whole pattern, union of alternatives) against the live engine
    for enc in (impl, union):
        val = rx.validate_translation(_LIVE_RE, "search", enc, corpus)
        if val["n_disagree"]:
            return {"verdict": "ERROR", "detail": f"sre->z3 translator disagrees with the live engine: {val['disagreements']}"}
    res: dict = {"translator_validation": val}
    unknown = []
    covered_by: dict = {}
    for name in ALL_NAMES:
        exact = name in EXACT_NAMES
        spec = ci(name) if exact else z3.Concat(rx.SIGMA_STAR, ci(name), rx.SIGMA_STAR)
        label = ("ci(%s)" if exact else "Σ* ci(%s) Σ*") % name
        done = False
        for j, lang_j in enumerate(langs):
            r, _w = q.member_of_difference(spec, lang_j, f"{label} ⊆ L_search(alternative #{j})")
            if r == "unsat":
                covered_by[name] = j
                done = True
                break
            q.log.pop()  # keep only the deciding queries in the evidence
        if done:
            continue
        # not covered by a single alternative: look for a witness, cheapest shape first
        # (the bare name, the name in a small context, any string), against the whole pattern
        small = z3.Star(z3.Union(z3.Re("x"), z3.Re("_")))
        shapes = [(ci(name), f"ci({name})")]
        if not exact:
            shapes += [(z3.Concat(small, ci(name), small), f"[x_]* ci({name}) [x_]*"), (spec, label)]
        r, wit = "unsat", None
        for shape, shape_label in shapes:
            r, wit = q.member_of_difference(shape, union, f"{shape_label} ⊆ L_search(_DEFAULT_CLAIM_REDACT_RE)")
            if r != "unsat":
                break
        if r == "sat":
            res.update(queries=q.queries, discharged=q.discharged, solver_s=round(q.solver_s, 3), samples=q.log[-4:])
            res.update(_replay_key(wit))
            res["cex"] = {"key": wit}
            return res
        if r != "unsat":
            unknown.append(name)
    res.update(queries=q.queries, discharged=q.discharged, solver_s=round(q.solver_s, 3), samples=q.log, distinct=len(covered_by), covered_by_alternative=covered_by)
    if unknown:
        res.update(verdict="INCONCLUSIVE", detail=f"solver returned unknown for {unknown}")
    else:
        res["verdict"] = "CONFIRMED"
    return res


# ---------------------------------------------------------------------------
# environment: the access logger (real logging is disabled inside the worker)
# ---------------------------------------------------------------------------


class _StubAccessLogger:
    """vgi_rpc.access with INFO enabled, DEBUG off; direct emissions are recorded."""

    def __init__(self) -> None:
        self.direct: list = []

    def isEnabledFor(self, level: int) -> bool:  # noqa: N802
        return level >= logging.INFO

    def info(self, fmt: str, *a: object, extra: dict | None = None, **k: object) -> None:
        self.direct.append((a[0] if a else fmt, extra))

    def __getattr__(self, name: str) -> object:
        from engine.api import HarnessModelError

        raise HarnessModelError(f"access logger used through .{name}; the stub models isEnabledFor/info only")


_ACCESS = _StubAccessLogger()
_emit = reglobalize(srv._emit_access_log, _access_logger=_ACCESS)
_STUBS_LOGGER = ["_access_logger := stub logger (isEnabledFor(INFO)=True, DEBUG=False), records captured"]


def _logged_claims(claims: object) -> tuple[int, object]:
    """Run the real _emit_access_log with *claims* on the auth context; return (#records, extra['claims'] | None)."""
    sink: list = []
    del _ACCESS.direct[:]
    tok = common._current_access_sink.set(sink)
    try:
        auth = AuthContext(domain="jwt", authenticated=True, principal="alice", claims=claims)  # type: ignore[arg-type]
        _emit("Proto", "m", "unary", "srv1", auth, {}, 1.0, "ok")
    finally:
        common._current_access_sink.reset(tok)
    records = sink + _ACCESS.direct  # deferred (HTTP) or direct emission: either way it is what gets logged
    if len(records) != 1:
        return len(records), None
    _message, extra = records[0]
    if not isinstance(extra, Mapping):
        return 1, None
    return 1, extra.get("claims")


def _strings(obj: object, out: list) -> None:
    """Every key and every str leaf reachable in *obj* (anything else is rendered with str())."""
    if isinstance(obj, str):
        out.append(obj)
    elif isinstance(obj, Mapping):
        for k, v in obj.items():
            out.append(k)
            _strings(v, out)
    elif isinstance(obj, (list, tuple)):
        for v in obj:
            _strings(v, out)
    elif obj is None or isinstance(obj, (bool, int, float)):
        return
    else:
        out.append(str(obj))


def _leaks(obj: object, sentinels: list) -> bool:
    found: list = []
    _strings(obj, found)
    for s in found:
        for sent in sentinels:
            if sent in s:
                return True
    return False


# ---------------------------------------------------------------------------
# (b1) live regex, sensitive words in three case variants, every position kind
# ---------------------------------------------------------------------------

_VARIANTS: list[str] = []
for _w in ALL_NAMES:
    for _v in (_w, _w.upper(), _w.title()):
        if _v not in _VARIANTS:
            _VARIANTS.append(_v)
_NV = len(_VARIANTS)

_NEUTRAL = ["sub", "iss", "aud", "n1", "n2", "n3", "ctx"]
for _n in _NEUTRAL:
    if _LIVE_RE.search(_n):
        raise RuntimeError(f"harness neutral key {_n!r} is matched by the live redaction pattern")

_SECRET = "SENTINEL-S0"
_OTHER = "SENTINEL-N0"


def _place(position: int, key: str) -> tuple[dict, list]:
    """Concrete claims with {key: secret} at one of the position kinds; returns (claims, path to the dict holding key)."""
    inner = {key: _SECRET, "sub": _OTHER}
    if position == 0:
        return inner, []
    if position == 1:  # dict in dict
        return {"ctx": inner, "iss": "x"}, ["ctx"]
    if position == 2:  # dict in list in dict
        return {"n1": ["x", inner]}, ["n1", 1]
    if position == 3:  # dict in dict in dict
        return {"n1": {"n2": inner}}, ["n1", "n2"]
    if position == 4:  # dict in list in list in dict
        return {"n1": [[inner]]}, ["n1", 0, 0]
    # secret itself is a container under the sensitive key, two levels down
    return {"n1": {"n2": "x", key: {"n3": [_SECRET]}}}, ["n1"]


def _check_words(v: int, position: int) -> bool:
    key = _VARIANTS[v]
    claims, path = _place(position, key)
    n, out = _logged_claims(claims)
    if n != 1 or out is None:
        return False
    if _leaks(out, [_SECRET]):
        return False
    node = out
    for step in path:
        node = node[step]
    # the key stays visible, its value is the placeholder
    return key in node and node[key] == lu.REDACTED


def _real_sensitive_key(sk: str) -> str | None:
    """The tree item designates *sk* as "the sensitive key" through the contract stub.  On un-stubbed code the same
    role is played by a key the LIVE pattern matches: *sk* itself if it does, else the first listed name that does."""
    if _LIVE_RE.search(sk):
        return sk
    for w in ALL_NAMES:
        if _LIVE_RE.search(w):
            return w
    return None


def _claims_from_args(args: dict) -> tuple[object, list, list, str] | None:
    """(claims, hidden sentinels, path to the dict holding the sensitive key, sensitive key) on real code."""
    if "v" in args:
        key = _VARIANTS[args["v"]]
        claims, path = _place(args.get("position", 0), key)
        return claims, [_SECRET], path, key
    key = _real_sensitive_key(args["sk"])
    if key is None:
        return None
    tree, hidden, path, _key = _build_tree(
        args["depth"], args["k2"], args["k3"], args["p1"], args["p2"], args["p3"], args["sens_level"], args["on_sibling"], key
    )
    return _plain(tree), hidden, path, key


def _plain(obj: object) -> object:
    if isinstance(obj, Mapping):
        return {str(k): _plain(v) for k, v in obj.items()}
    if isinstance(obj, list):
        return [_plain(v) for v in obj]
    return obj


def _http_ping_history(claims: object, redactor: object = None, n_calls: int = 1, before_call: object = None) -> tuple[list, list[list[str]]]:
    """Un-stubbed: real HTTP app (falcon test client), an authenticator returning the claims, *n_calls* unary calls
    made one after the other under ONE installation of *redactor* (``before_call(i)`` runs before the i-th), the
    vgi_rpc.access records formatted by the real VgiAccessLogFormatter.  Returns (per call: result | exception,
    per call: the JSON lines of the ``ping`` records written during that call)."""
    import warnings
    from typing import Protocol

    from vgi_rpc.http import http_connect
    from vgi_rpc.http._testing import make_sync_client
    from vgi_rpc.rpc import RpcServer

    class P(Protocol):
        def ping(self, n: int) -> int: ...

    class Impl:
        def ping(self, n: int) -> int:
            return n

    lines: list[str] = []

    class H(logging.Handler):
        def emit(self, record: logging.LogRecord) -> None:
            lines.append(lu.VgiAccessLogFormatter().format(record))

    def authenticate(req: object) -> AuthContext:
        return AuthContext(domain="jwt", authenticated=True, principal="alice", claims=claims)  # type: ignore[arg-type]

    lg = logging.getLogger("vgi_rpc.access")
    h = H()
    old_level, old_disable = lg.level, logging.root.manager.disable
    logging.disable(logging.NOTSET)
    lg.addHandler(h)
    lg.setLevel(logging.INFO)
    saved_redactor = lu._claim_redactor
    results: list = []
    groups: list[list[str]] = []
    try:
        if redactor is not None:
            lu.set_claim_redactor(redactor)  # type: ignore[arg-type]
        with warnings.catch_warnings():
            warnings.simplefilter("ignore")
            client = make_sync_client(RpcServer(P, Impl()), authenticate=authenticate, token_key=b"k" * 32)
            for i in range(n_calls):
                start = len(lines)
                if before_call is not None:
                    before_call(i)  # type: ignore[operator]
                try:
                    with http_connect(P, client=client) as proxy:
                        results.append(proxy.ping(n=1))
                except Exception as e:  # noqa: BLE001
                    results.append(e)
                groups.append([ln for ln in lines[start:] if json.loads(ln).get("method") == "ping"])
    finally:
        lu.set_claim_redactor(saved_redactor)
        lg.removeHandler(h)
        lg.setLevel(old_level)
        logging.disable(old_disable)
    return results, groups


def _http_ping_lines(claims: object, redactor: object = None) -> tuple[object, list[str]]:
    """One call through :func:`_http_ping_history`: (call result | exception, the JSON lines of its ``ping`` records)."""
    results, groups = _http_ping_history(claims, redactor)
    return results[0], groups[0]


def _replay_http(args: dict) -> str | None:
    """Judge both halves of the property on the serialized record of the real HTTP app: no hidden sentinel anywhere
    in the JSON line, and the sensitive key still visible (present in the logged claims at its place)."""
    built = _claims_from_args(args)
    if built is None:
        return None
    claims, hidden, path, key = built
    _result, lines = _http_ping_lines(claims)
    for line in lines:
        rec = json.loads(line)
        for sent in hidden:
            if sent in line:
                return f"access-log line for ping contains {sent!r} (claims logged: {json.dumps(rec.get('claims'))[:300]})"
        node = rec.get("claims")
        where = "claims"
        try:
            for step in path:
                node = node[step]
                where += f"[{step!r}]"
            visible = isinstance(node, dict) and key in node
        except (KeyError, IndexError, TypeError):
            visible = False
        if not visible:
            return f"sensitive claim {key!r} is not visible in the access-log record (expected at {where}; claims logged: {json.dumps(rec.get('claims'))[:300]})"
    return None


@cond(q=60, t=120, stubs=_STUBS_LOGGER, encoded=[lu.redact_claims, lu.apply_claim_redaction, srv._emit_access_log],
      bound="19 names x {lower,UPPER,Title}, top-level key, live regex", replay=_replay_http,
      signature=lambda args, conc: "C35:top-level-claim-not-redacted")
def top_level_sensitive_words_redacted(v: int) -> bool:
    """
    pre: 0 <= v < _NV
    post: _
    """
    return _check_words(v, 0)


@cond(q=60, t=240, stubs=_STUBS_LOGGER, encoded=[lu.redact_claims, lu.apply_claim_redaction, srv._emit_access_log],
      bound="19 names x {lower,UPPER,Title} x 5 nested position kinds (dict in dict / in list / depth 3 / list of list / container value), live regex",
      replay=_replay_http, signature=lambda args, conc: SIG_NESTED)
def nested_sensitive_words_redacted(v: int, position: int) -> bool:
    """
    pre: 0 <= v < _NV and 1 <= position <= 5
    post: _
    """
    if is_open(SIG_NESTED):
        return True
    return _check_words(v, position)


# ---------------------------------------------------------------------------
# (b2) arbitrary keys, symbolic tree; regex := contract stub justified by (a)
# ---------------------------------------------------------------------------

_HOLD: dict = {"sk": None}


class _Hit:
    pass


class _SensitiveKeyOracle:
    """Contract of the redaction pattern: search(k) is truthy iff k is a sensitive claim name."""

    def search(self, k: str) -> object:
        return _Hit() if k == _HOLD["sk"] else None

    def __getattr__(self, name: str) -> object:
        from engine.api import HarnessModelError

        raise HarnessModelError(f"redaction pattern used through .{name}; the stub only models .search")


_ORACLE = _SensitiveKeyOracle()
_MAXD = pick(3, 4)
_SENT = ["SENTINEL-S0", "SENTINEL-L1", "SENTINEL-L2", "SENTINEL-L3", "SENTINEL-L4"]
_NK = [("", ""), ("a1", "b1"), ("a2", "b2"), ("a3", "b3"), ("a4", "b4")]  # neutral (spine key, sibling key) per level
for _a, _b in _NK[1:]:
    if _LIVE_RE.search(_a) or _LIVE_RE.search(_b):
        raise RuntimeError("harness neutral tree key is matched by the live redaction pattern")


def _build_tree(depth: int, k2: int, k3: int, p1: bool, p2: bool, p3: bool, sens_level: int, on_sibling: bool, sk: str):
    """Caterpillar tree, built bottom-up.  Level 1 is the claims mapping itself (a dict)."""
    kinds = [0, 0, k2, k3, 0]
    firsts = [False, p1, p2, p3, False]
    node: object = _SENT[0]
    for level in range(depth, 0, -1):
        spine_key, sib_key = _NK[level]
        if sens_level == level:
            if on_sibling:
                sib_key = sk
            else:
                spine_key = sk
        pairs = [(spine_key, node), (sib_key, _SENT[level])]
        if not firsts[level]:
            pairs.reverse()
        if kinds[level] == 0:
            node = {k: v for k, v in pairs}  # comprehension: stays a dict for isinstance(), symbolic keys allowed
        else:
            node = [v for _k, v in pairs]
    if on_sibling:
        hidden = [_SENT[sens_level]]
    else:
        hidden = [_SENT[0]] + [_SENT[lv] for lv in range(sens_level + 1, depth + 1)]
    # path from the root to the dict that holds the sensitive key
    path: list = []
    for level in range(1, sens_level):
        if kinds[level] == 0:
            path.append(_NK[level][0])
        else:
            path.append(0 if firsts[level] else 1)
    return node, hidden, path, sk


@cond(q=60, t=300, stubs=_STUBS_LOGGER + ["_DEFAULT_CLAIM_REDACT_RE := contract stub: search(k) truthy iff k is the sensitive key (see item regex_covers_sensitive_names)"],
      encoded=[lu.redact_claims, lu.apply_claim_redaction, srv._emit_access_log],
      bound="caterpillar trees depth<=%d, dict/list nodes, sensitive key any str len<=2 on spine or sibling at any dict level" % _MAXD,
      replay=_replay_http, signature=lambda args, conc: SIG_NESTED if args.get("sens_level", 1) > 1 else "C35:top-level-claim-not-redacted")
def tree_redaction_any_keys(depth: int, k2: int, k3: int, p1: bool, p2: bool, p3: bool, sens_level: int, on_sibling: bool, sk: str) -> bool:
    """
    pre: 1 <= depth <= _MAXD and 0 <= k2 <= 1 and 0 <= k3 <= 1 and 1 <= sens_level <= depth
    pre: len(sk) <= 2 and sk not in ("a1", "b1", "a2", "b2", "a3", "b3", "a4", "b4")
    pre: (sens_level == 1) or (sens_level == 2 and k2 == 0) or (sens_level == 3 and k3 == 0) or sens_level == 4
    post: _
    """
    if is_open(SIG_NESTED) and sens_level > 1:
        return True
    tree, hidden, path, key = _build_tree(depth, k2, k3, p1, p2, p3, sens_level, on_sibling, sk)
    _HOLD["sk"] = sk
    saved = lu._DEFAULT_CLAIM_REDACT_RE
    lu._DEFAULT_CLAIM_REDACT_RE = _ORACLE  # type: ignore[assignment]
    try:
        n, out = _logged_claims(tree)
    finally:
        lu._DEFAULT_CLAIM_REDACT_RE = saved
    if n != 1 or out is None:
        return False
    if _leaks(out, hidden):
        return False
    node = out
    for step in path:
        node = node[step]
    if not isinstance(node, Mapping):
        return False
    return key in node and node[key] == lu.REDACTED


# ---------------------------------------------------------------------------
# (b3) a failing custom redactor drops claims entirely
# ---------------------------------------------------------------------------

_EXC_TYPES = [ValueError, KeyError, RuntimeError, TypeError, AttributeError, RecursionError, Exception]
_CLAIMS_BY_SIZE = [{}, {"email": _SECRET}, {"email": _SECRET, "sub": _OTHER}]


def _make_boom(kind: int, reads_first: bool):
    seen: list = []

    def boom(c: Mapping) -> dict:
        if reads_first:
            for k in c:
                seen.append(c[k])
        for i, exc_type in enumerate(_EXC_TYPES):  # concrete class per path (a symbolic index would make the class symbolic)
            if i == kind:
                raise exc_type("redactor failed")
        raise Exception("redactor failed")

    return boom


def _replay_redactor(args: dict) -> str | None:
    """Un-stubbed: the raising redactor installed ONCE through the public set_claim_redactor, then as many calls
    through the real HTTP app as the harness scenario applied the redaction (two: the direct application and the
    logged record).  Every call must still succeed, and every access-log line must carry no claim (absent or empty
    object)."""
    claims = _CLAIMS_BY_SIZE[args["n_claims"]]
    results, groups = _http_ping_history(claims, redactor=_make_boom(args["kind"], args["reads_first"]), n_calls=2)
    for i, result in enumerate(results):
        if isinstance(result, Exception):
            return f"a raising claim redactor took request #{i + 1} down: {result!r}"
    for i, lines in enumerate(groups):
        for line in lines:
            rec = json.loads(line)
            if _SECRET in line or _OTHER in line or rec.get("claims"):
                return (
                    f"redactor raised on every call, yet the access-log record of call #{i + 1} under that installation "
                    f"carries claims: {json.dumps(rec.get('claims'))[:300]}"
                )
    return None


@cond(q=30, t=60, stubs=_STUBS_LOGGER, encoded=[lu.apply_claim_redaction, lu.set_claim_redactor, srv._emit_access_log],
      bound="redactor raising any of 7 Exception types, before or after reading the claims; claims with 0..2 entries",
      replay=_replay_redactor, signature=lambda args, conc: "C35:failing-redactor-claims-not-dropped")
def failing_redactor_drops_claims(kind: int, reads_first: bool, n_claims: int) -> bool:
    """
    pre: 0 <= kind < 7 and 0 <= n_claims <= 2
    post: _
    """
    claims = _CLAIMS_BY_SIZE[n_claims]
    boom = _make_boom(kind, reads_first)
    saved = lu._claim_redactor
    lu.set_claim_redactor(boom)
    try:
        direct = lu.apply_claim_redaction(claims)
        n, out = _logged_claims(claims)
    except Exception:  # noqa: BLE001
        return False  # "a redactor that raises must not take the request down with it"
    finally:
        lu.set_claim_redactor(saved)
    if direct:
        return False
    # the record is still written, and it carries no claims at all (key absent, or the empty object the spec's
    # truncation section uses for "claims dropped")
    return n == 1 and not out


# ---------------------------------------------------------------------------
# (b4) ... on EVERY record written while that redactor is installed (history of records)
# ---------------------------------------------------------------------------

_MAXR = pick(3, 4)
_HIST_CLAIMS = [{"email": _SECRET}, {"email": _SECRET, "sub": _OTHER}]


def _make_flaky(kind: int, state: dict):
    """A custom redactor (the default policy, applied by hand) that raises on the calls for which the driver set
    ``state['raise_now']`` and works on the others."""

    def flaky(c: Mapping) -> dict:
        if state["raise_now"]:
            for i, exc_type in enumerate(_EXC_TYPES):  # concrete class per path
                if i == kind:
                    raise exc_type("redactor failed")
            raise Exception("redactor failed")
        return lu.redact_claims(c)

    return flaky


def _replay_history(args: dict) -> str | None:
    """Un-stubbed: the flaky redactor installed ONCE through the public set_claim_redactor, n_records calls through
    the real HTTP app, each judged on its own serialized access-log lines."""
    fails = [bool(args.get(f"f{i}", False)) for i in range(4)]
    n_records = args["n_records"]
    state = {"raise_now": False}

    def before_call(i: int) -> None:
        state["raise_now"] = fails[i]

    claims = _HIST_CLAIMS[args["n_claims"] - 1]
    results, groups = _http_ping_history(claims, redactor=_make_flaky(args["kind"], state), n_calls=n_records, before_call=before_call)
    pattern = "".join("F" if f else "." for f in fails[:n_records])
    for i, result in enumerate(results):
        if isinstance(result, Exception):
            return f"request #{i + 1} of history {pattern} (F = redactor raises) was taken down: {result!r}"
    for i, lines in enumerate(groups):
        for line in lines:
            rec = json.loads(line)
            if _SECRET in line:
                return f"history {pattern}: the access-log record of call #{i + 1} contains the value of claim 'email': {json.dumps(rec.get('claims'))[:300]}"
            if fails[i] and (_OTHER in line or rec.get("claims")):
                return (
                    f"history {pattern} (F = the installed redactor raises): the redactor raised on call #{i + 1}, yet that "
                    f"call's access-log record carries claims: {json.dumps(rec.get('claims'))[:300]}"
                )
    return None


@cond(q=150, t=400, stubs=_STUBS_LOGGER, encoded=[lu.apply_claim_redaction, lu.set_claim_redactor, srv._emit_access_log],
      bound="one installation of a custom redactor, then 1..%d records; the redactor raises (any of 7 Exception types) on an "
            "arbitrary subset of them and applies the default policy on the others; claims with 1..2 entries" % _MAXR,
      replay=_replay_history, signature=lambda args, conc: "C35:failing-redactor-claims-not-dropped-on-later-record")
def failing_redactor_history(kind: int, n_claims: int, n_records: int, f0: bool, f1: bool, f2: bool, f3: bool) -> bool:
    """
    pre: 0 <= kind < 7 and 1 <= n_claims <= 2 and 1 <= n_records <= _MAXR
    post: _
    """
    claims = _HIST_CLAIMS[n_claims - 1]
    fails = [f0, f1, f2, f3]
    state = {"raise_now": False}
    saved = lu._claim_redactor
    lu.set_claim_redactor(_make_flaky(kind, state))
    try:
        for i in range(n_records):
            state["raise_now"] = fails[i]
            try:
                n, out = _logged_claims(claims)
            except Exception:  # noqa: BLE001
                return False  # "a redactor that raises must not take the request down with it"
            if n != 1:
                return False
            if state["raise_now"]:
                if out:  # the redactor raised for this record: no claims at all (absent or the empty object)
                    return False
            elif out is not None and _leaks(out, [_SECRET]):
                return False  # the redactor worked: whatever is logged, never the value of a sensitive claim
    finally:
        lu.set_claim_redactor(saved)
    return True
