"""C20 — authentication precedes every dispatch.

The `_AuthMiddleware` instance is taken out of a REAL `make_wsgi_app(...)` for each point of a
concrete configuration grid (prefix in {"", "/vgi", "/a/b"} x health endpoint on/off x OAuth-PKCE
browser flow on/off = 12 apps, built at import time, with an `authenticate` callback that records
that it ran and always rejects).  Its real `process_request` is executed on a duck-typed request
with a *symbolic* verb and a *symbolic* path  prefix + "/" + tail [+ "/init" | "/exchange"].

Decided: the rejecting callback is skipped  ==>  verb == "OPTIONS"  or  path under
"/.well-known/"  or  path == the health endpoint (exactly, and only when it is enabled)  or
(PKCE on and) path under the directory of the OAuth browser-flow routes; and whenever the callback
runs, the middleware stops the request with an HTTP error (nothing continues to the resource; the status
itself is not judged, nor is a refusal issued without consulting the callback).

A second item uses path = prefix + "/" + NAME + extra, NAME ranging over the first path segments
the live routers register (health, _oauth, __introspect_token__ ...) and ".well-known", so that
method names sharing a textual prefix with a framework endpoint are inside the bound whatever
their length.

The health route and the OAuth routes are read from the live Falcon router of the same app (the
uri templates whose responder classes are `_HealthResource` / come from `_oauth_pkce`), not
copied.
"""

from __future__ import annotations

import keyword
import types
import warnings
from typing import Protocol

import falcon
import falcon.testing

from engine.api import HarnessModelError, cond, is_open, pick

from vgi_rpc.http import OAuthResourceMetadata, make_wsgi_app
from vgi_rpc.http.server import _factory, _middleware
from vgi_rpc.rpc import RpcServer

PROPERTY = "C20"
ENCODED = [_middleware._AuthMiddleware.process_request, _middleware._AuthMiddleware.__init__, _factory.make_wsgi_app]
_LV = pick(7, 9)
_LT = pick(8, 12)
BOUNDS = (
    "12 concrete apps (prefix in '', '/vgi', '/a/b' x health on/off x PKCE on/off) from the real make_wsgi_app; "
    "verb = any string len<=%d; path = prefix + '/' + any string len<=%d (may contain '/') + one of the {method}-route suffixes of the live router ('' | '/exchange' | '/init')" % (_LV, _LT)
)
OUTSIDE = (
    "Falcon's guarantee that an exception raised by a middleware's process_request skips routing and the resource; "
    "sticky / compression / CORS middlewares; other prefixes than the three of the grid; the AuthUnavailable -> 503 branch; "
    "what the exempt endpoints themselves do"
)
ASSUMPTIONS = [
    "authenticate := stub that records the call and raises PermissionError (a rejection); the request is a duck-typed object "
    "with .method/.path/.remote_addr/.user_agent/.cookies/.context (the only attributes the middleware reads)",
    "RpcServer does not expose protocol members whose name starts with '_' (checked concretely at import), so a path under "
    "'<prefix>/_oauth/' can only reach the OAuth resources or a 404 (also checked end to end at import: a service that HAS a member "
    "'_oauth' is served by the real PKCE apps and POSTed '<prefix>/_oauth', '/_oauth/init', '/_oauth/exchange' — nothing runs)",
]

_CALLS = {"n": 0}


def _reject(req):  # the configured authenticator: rejects everybody
    _CALLS["n"] += 1
    raise PermissionError("rejected")


class _Svc(Protocol):
    def ping(self) -> str: ...

    def _oauth(self) -> str: ...


_RAN: list[str] = []  # service code of the grid apps that ran


class _Impl:
    def ping(self) -> str:
        _RAN.append("ping")
        return "pong"

    def _oauth(self) -> str:
        _RAN.append("_oauth")
        return "x"


def _routes(app) -> list[tuple[str, object]]:
    out: list[tuple[str, object]] = []

    def walk(nodes):  # type: ignore[no-untyped-def]
        for n in nodes:
            if n.resource is not None and n.uri_template:
                out.append((n.uri_template, n.resource))
            walk(n.children)

    walk(app._router._roots)
    return out


def _build(prefix: str, health: bool, pkce: bool):
    md = None
    if pkce:
        md = OAuthResourceMetadata(
            resource="http://localhost:8000" + (prefix or "/"),
            authorization_servers=("https://auth.example.com",),
            client_id="cid",
        )
    with warnings.catch_warnings():
        warnings.simplefilter("ignore")
        server = RpcServer(_Svc, _Impl())
        app = make_wsgi_app(
            server,
            prefix=prefix,
            token_key=b"k" * 32,
            authenticate=_reject,
            oauth_resource_metadata=md,
            enable_health_endpoint=health,
        )
    mws = [m for m in app._unprepared_middleware if isinstance(m, _middleware._AuthMiddleware)]
    if len(mws) != 1:
        raise RuntimeError("make_wsgi_app no longer installs exactly one _AuthMiddleware")
    routes = _routes(app)
    health_paths = [t for t, r in routes if type(r).__name__ == "_HealthResource"]
    oauth_paths = [t for t, r in routes if type(r).__module__.endswith("_oauth_pkce")]
    if health != bool(health_paths) or len(health_paths) > 1:
        raise RuntimeError(f"health route not as configured: {health_paths}")
    if pkce != bool(oauth_paths):
        raise RuntimeError(f"OAuth browser-flow routes not as configured: {oauth_paths}")
    oauth_dir = ""
    if oauth_paths:
        dirs = {t.rsplit("/", 1)[0] + "/" for t in oauth_paths}
        if len(dirs) != 1:
            raise RuntimeError(f"OAuth routes no longer share one directory: {oauth_paths}")
        oauth_dir = dirs.pop()
    return {
        "prefix": prefix,
        "health": health_paths[0] if health_paths else "",
        "pkce": pkce,
        "oauth_dir": oauth_dir,
        "mw": mws[0],
        "app": app,
    }


_PREFIXES = ("", "/vgi", "/a/b")
_GRID = [_build(p, h, k) for p in _PREFIXES for h in (True, False) for k in (False, True)]
_NCFG = len(_GRID)


def _method_suffixes(cfg: dict) -> tuple[str, ...]:
    """Route grammar of the live router: every uri template '<prefix>/{method}<suffix>'."""
    head = cfg["prefix"] + "/{method}"
    return tuple(sorted(t[len(head):] for t, _r in _routes(cfg["app"]) if t.startswith(head)))


_SUFFIX = _method_suffixes(_GRID[0])
if any(_method_suffixes(c) != _SUFFIX for c in _GRID) or "" not in _SUFFIX or len(_SUFFIX) < 3:
    raise RuntimeError(f"unexpected {{method}} route templates on the live router: {_SUFFIX}")
_NSUF = len(_SUFFIX)

# concrete fact used by ASSUMPTIONS[1]
with warnings.catch_warnings():
    warnings.simplefilter("ignore")
    _exposed = set(RpcServer(_Svc, _Impl()).methods)
if "ping" not in _exposed or any(m.startswith("_") and not m.startswith("__") for m in _exposed):
    raise RuntimeError("RpcServer now exposes underscore-prefixed protocol members; ASSUMPTIONS[1] is false")


def _check_oauth_subtree_runs_nothing() -> None:
    """ASSUMPTIONS[1], end to end on the real PKCE apps of the grid: the auth-exempt directory of the OAuth routes
    also matches '<prefix>/_oauth/init' etc., which the router resolves to the {method} routes with method '_oauth'.
    The service here HAS a member of that name: it must not run for the (rejected, never authenticated) caller."""
    import pyarrow as pa

    from vgi_rpc.wire import write_request

    body = write_request("_oauth", pa.schema([]), {})
    for c in _GRID:
        if not c["pkce"]:
            continue
        client = falcon.testing.TestClient(c["app"])
        for suffix in _SUFFIX:
            del _RAN[:]
            with warnings.catch_warnings():
                warnings.simplefilter("ignore")
                res = client.simulate_post(c["oauth_dir"].rstrip("/") + suffix, body=body, headers={"Content-Type": "application/vnd.apache.arrow.stream"})
            if _RAN or res.status_code == 200:
                raise RuntimeError(f"ASSUMPTIONS[1] is false: POST {c['oauth_dir'].rstrip('/') + suffix} ran {_RAN} / answered {res.status_code} without authentication")


_check_oauth_subtree_runs_nothing()


class _Req:
    """Duck-typed falcon.Request: exactly the attributes _AuthMiddleware reads."""

    def __init__(self, method: str, path: str) -> None:
        self.method = method
        self.path = path
        self.remote_addr = "127.0.0.1"
        self.user_agent = None
        self.cookies: dict = {}
        self.context = types.SimpleNamespace()

    def __getattr__(self, name: str) -> object:
        raise HarnessModelError(f"request stub has no {name}")


def _allowed(cfg: dict, verb: str, path: str) -> bool:
    if verb == "OPTIONS":
        return True
    if path.startswith("/.well-known/"):
        return True
    if cfg["health"] and path == cfg["health"]:
        return True
    if cfg["pkce"] and path.startswith(cfg["oauth_dir"]):
        return True
    return False


def _sig(cfg: dict, path: str, verb: str = "") -> str:
    prefix = cfg["prefix"]
    if path.startswith(prefix + "/health"):
        return "C20:path-prefix:health*"
    if path.startswith(prefix + "/_oauth"):
        return "C20:path-prefix:_oauth*"
    if path.startswith("/.well-known") or path.startswith(prefix + "/.well-known"):
        return "C20:path-prefix:.well-known*"
    if path == prefix or path == prefix + "/":
        return "C20:auth-skipped:landing-page"
    if verb != "OPTIONS" and verb.upper().strip() == "OPTIONS":
        return "C20:verb:options-lookalike"
    if verb not in falcon.constants.COMBINED_METHODS:
        return "C20:verb:non-standard"
    return "C20:auth-skipped:other"


def _replay(args: dict) -> str | None:
    """Real request through the real Falcon app of the same configuration (no fakes).

    When the path names a plain identifier, a service with a unary method of that name is
    served, so the replay also shows the method body running for the rejected caller.
    """
    import pyarrow as pa

    from vgi_rpc.wire import write_request

    base = _GRID[args["cfg"]]
    prefix = base["prefix"]
    path = prefix + "/" + args["tail"] + _SUFFIX[args["suffix"]]
    verb = args["verb"]
    ran: list[str] = []
    calls = {"n": 0}

    def reject(req):  # noqa: ANN001
        calls["n"] += 1
        raise PermissionError("rejected")

    name = args["tail"] if args["suffix"] == 0 else ""
    ns: dict = {}
    if name.isidentifier() and name.isascii() and not name.startswith("_") and not keyword.iskeyword(name) and not keyword.issoftkeyword(name):
        exec(  # dynamic protocol with one unary method named after the path segment
            f"from typing import Protocol\n"
            f"class S(Protocol):\n    def {name}(self) -> str: ...\n"
            f"class I:\n    def __init__(self, ran): self.ran = ran\n"
            f"    def {name}(self) -> str:\n        self.ran.append({name!r}); return 'ran'\n",
            ns,
        )
        proto, impl = ns["S"], ns["I"](ran)
    else:
        proto, impl = _Svc, _Impl()
    md = None
    if base["pkce"]:
        md = OAuthResourceMetadata(resource="http://localhost:8000" + (prefix or "/"), authorization_servers=("https://auth.example.com",), client_id="cid")
    with warnings.catch_warnings():
        warnings.simplefilter("ignore")
        app = make_wsgi_app(RpcServer(proto, impl), prefix=prefix, token_key=b"k" * 32, authenticate=reject, oauth_resource_metadata=md, enable_health_endpoint=bool(base["health"]))
    client = falcon.testing.TestClient(app)
    # the counterexample's own verb when a WSGI server could deliver it (an HTTP token), else the standard one
    sendable = verb.isascii() and verb != "" and all(ch.isalnum() or ch in "!#$%&'*+-.^_`|~" for ch in verb)
    http_verb = verb if sendable else "POST"
    if _allowed(base, http_verb, path):
        return None
    body = write_request(name or "ping", pa.schema([]), {})
    try:
        with warnings.catch_warnings():
            warnings.simplefilter("ignore")  # (wsgiref's validator warns about verbs it does not know)
            res = client.simulate_request(http_verb, path, body=body, headers={"Content-Type": "application/vnd.apache.arrow.stream"})
    except Exception:  # noqa: BLE001  the test client could not express this request
        return None
    if calls["n"] == 0 and res.status_code != 401:
        extra = f"; the service method {name!r} ran for the rejected caller" if ran else ""
        if not ran and _sig(base, path) == "C20:path-prefix:health*" and base["health"]:
            # same exemption, shown end to end on a plain method name sharing the prefix
            demo = dict(args, tail="health_report", suffix=_SUFFIX.index(""), verb="POST")
            if demo["tail"] != args["tail"]:
                d = _replay(demo)
                if d:
                    extra = " || same site, end to end: " + d
        return (
            f"{http_verb} {path!r} on make_wsgi_app(prefix={prefix!r}, health={bool(base['health'])}, pkce={base['pkce']}) with an authenticator that rejects everybody: "
            f"authenticate was never called, HTTP {res.status_code}{extra}"
        )
    return None


def _signature(args: dict, conc) -> str:  # noqa: ANN001
    cfg = _GRID[args["cfg"]]
    return _sig(cfg, cfg["prefix"] + "/" + args["tail"] + _SUFFIX[args["suffix"]], args["verb"])


def _decide(c: dict, verb: str, path: str) -> bool:
    req = _Req(verb, path)
    _CALLS["n"] = 0
    passed = False
    try:
        c["mw"].process_request(req, None)
        passed = True
    except falcon.HTTPError:
        pass  # Falcon skips routing and the resource (OUTSIDE): the request stops here, whatever the status
    except HarnessModelError:
        raise
    except Exception:  # noqa: BLE001
        return False
    finally:
        tok = getattr(req.context, "transport_token", None)
        if tok is not None:
            _middleware._current_transport.reset(tok)
    called = _CALLS["n"] > 0
    if called:
        # the authenticator rejects: the request must stop here
        return not passed
    if not passed:
        return True  # refused without consulting the authenticator: nothing is dispatched either
    if _allowed(c, verb, path):
        return True
    if is_open(_sig(c, path, verb)):
        return True
    return False


_STUBS = ["authenticate := records the call, raises PermissionError", "falcon.Request := duck-typed attribute bag"]


@cond(q=60, t=300, stubs=_STUBS, encoded=[_middleware._AuthMiddleware.process_request, _factory.make_wsgi_app], bound=BOUNDS, replay=_replay, signature=_signature)
def auth_skipped_only_for_exempt_requests(cfg: int, verb: str, tail: str, suffix: int) -> bool:
    """
    pre: 0 <= cfg < _NCFG and 0 <= suffix < _NSUF
    pre: len(verb) <= _LV and len(tail) <= _LT
    post: _
    """
    c = _GRID[cfg]
    return _decide(c, verb, c["prefix"] + "/" + tail + _SUFFIX[suffix])


def _framework_names() -> list[str]:
    """First path segment (below the prefix) of every route the live routers register, plus the
    well-known directory: the names an RPC method could share a textual prefix with."""
    names = {".well-known"}
    for c in _GRID:
        for t, _r in _routes(c["app"]):
            if t == (c["prefix"] or "/"):
                continue  # the landing page is the prefix itself
            rest = t[len(c["prefix"]):] if t.startswith(c["prefix"] + "/") else t
            seg = rest.lstrip("/").split("/", 1)[0]
            if seg and "{" not in seg:
                names.add(seg)
    return sorted(names)


_NAMES = _framework_names()
_NNAMES = len(_NAMES)
_LX = pick(3, 5)


def _replay_named(args: dict) -> str | None:
    return _replay({"cfg": args["cfg"], "verb": args["verb"], "tail": _NAMES[args["name"]] + args["extra"], "suffix": args["suffix"]})


@cond(q=60, t=300, stubs=_STUBS, encoded=[_middleware._AuthMiddleware.process_request, _factory.make_wsgi_app],
      bound="12 apps; verb any str len<=%d; path = prefix + '/' + <framework endpoint name from the live router | .well-known> + any str len<=%d + route suffix" % (_LV, _LX),
      replay=_replay_named,
      signature=lambda a, conc: _sig(_GRID[a["cfg"]], _GRID[a["cfg"]]["prefix"] + "/" + _NAMES[a["name"]] + a["extra"] + _SUFFIX[a["suffix"]], a["verb"]))
def names_sharing_a_prefix_with_framework_endpoints(cfg: int, verb: str, name: int, extra: str, suffix: int) -> bool:
    """
    pre: 0 <= cfg < _NCFG and 0 <= suffix < _NSUF and 0 <= name < _NNAMES
    pre: len(verb) <= _LV and len(extra) <= _LX
    post: _
    """
    c = _GRID[cfg]
    seg = ""
    for k in range(_NNAMES):
        if name == k:
            seg = _NAMES[k]
    return _decide(c, verb, c["prefix"] + "/" + seg + extra + _SUFFIX[suffix])
