"""C14 — the call-state cache never changes a request's outcome.

(a) xh  : the real `_CallStateCache` (get / put / _identity, real OrderedDict, integer clock) against
          a specification map over symbolic operation sequences: a `get` returns either None or
          exactly the value last `put` under that (call id, identity) and not yet expired; the
          cache never holds more than `max_entries`; capacity 0 never hits; a fresh put is visible.
(b) xh  : transparency, one inductive step — a worker whose cache holds an *arbitrary* state that
          satisfies the invariant I answers a continuation exactly like a cold worker (capacity 0):
          same served state / call, or the same 400.
          I = every entry (cid, ident) -> r is what opening the call token minted for (cid, ident)
          yields, and (ttl > 0) the entry does not outlive that call token.
(b') xh : ... and the step re-establishes I (the `put` on the miss path, the warm-up `put` of
          `_run_stream_init_sync`).
(c) smt : `_CallStateCache._identity` is *not* injective; decided: the only collisions between
          identities with NUL-free domains are anonymous vs authenticated ('', 'anonymous').
          Unreachable as a cross-identity hit because the call id is authenticated under the
          injective AAD first (C12 a, d) and call ids are never reused — recorded as an observation.
"""

from __future__ import annotations

from engine.api import cond, is_open, pick, task

from harness import _tokens_common as tc
from vgi_rpc.http.server import _app_stream as aps
from vgi_rpc.http.server import _state_token as st
from vgi_rpc.rpc import AuthContext

PROPERTY = "C14"
ENCODED = [st._CallStateCache.get, st._CallStateCache.put, st._CallStateCache._identity, aps._unpack_and_recover_state, aps._resolve_call_from_token, aps._run_stream_init_sync]
BOUNDS = (
    "(a) histories of <= %d operations over 3 keys (2 call ids x 2 identities), capacity 1..2, and one inductive step from ANY cache state (<= capacity entries, any LRU order, any expiry) "
    "with capacity 0..2; unbounded integer clock/ttl; (b) 2 streams opened at t=100 (stream 1 by 3 possible owners), cursor slot stream 1 / stream 2 (refreshed at any t1) / garbage, "
    "call slot = that stream's call token, arbitrary invariant-satisfying cache of capacity 2, any request time >= t1, ttl 0 or 50; (c) all identities, unbounded lengths" % pick(3, 4)
)
OUTSIDE = (
    "requests that do not echo a server-minted call token (absent / garbage / kind-swapped): on a hit the call token is not consulted at all, so such a request is served by a warm "
    "worker and rejected by a cold one - documented in _unpack_and_recover_state ('may be None when the cache is expected to hit; a miss then fails') and excluded from the transparency claim; "
    "float clocks (the cache stores float expiry times; integers here); concurrent access to the cache (its lock); more than two streams"
)
ASSUMPTIONS = [*tc.TOKEN_STUBS, *tc.DISPATCH_STUBS, "call ids are never reused (os.urandom(16) stub returns fresh values)"]


def _pick(sel: int, n: int) -> int:
    for k in range(n):
        if sel == k:
            return k
    raise AssertionError


# ---------------------------------------------------------------------------
# (a) cache vs specification map
# ---------------------------------------------------------------------------

_A = AuthContext(domain="d", authenticated=True, principal="p")
# three keys: same call id under two identities, and a second call id under one of them
_KEYS = ((b"call-id-00000001", None), (b"call-id-00000001", _A), (b"call-id-00000002", _A))
_NOPS = pick(3, 4)
_OP = tuple[bool, int, int]  # (is_put, key index, clock advance)
_OPS = tuple[(_OP,) * _NOPS]  # type: ignore[valid-type]


class _Val:
    """Stands for a _ResolvedCall (the cache never looks inside)."""

    def __init__(self, n: int) -> None:
        self.n = n


def _cache_kw(fn) -> dict:  # type: ignore[no-untyped-def]
    return {"method_name": "m"} if tc._takes(fn, "method_name") else {}


def _replay_cache(args: dict) -> str | None:
    """The un-stubbed class is what the condition already runs; replay = the same run outside CrossHair."""
    return None if _cache_run(args["cap"], args["ttl"], args["n"], args["ops"]) else "the real _CallStateCache diverged from the specification map (see the counterexample arguments)"


def _step(cache, spec: dict, cap: int, ttl: int, now: int, is_put: bool, ki: int, serial: int) -> bool:  # type: ignore[no-untyped-def]
    """One operation on the real cache and on the specification map; False = divergence."""
    cid, ident = _KEYS[ki]
    if is_put:
        v = _Val(serial)
        cache.put(cid, ident, v, now, **_cache_kw(cache.put))
        spec[ki] = (now + ttl, v)
        # a fresh entry is visible at once unless capacity or ttl forbid it
        got = cache.get(cid, ident, now, **_cache_kw(cache.get))
        if cap >= 1 and ttl > 0 and got is not v:
            return False
        if (cap <= 0 or ttl <= 0) and got is not None:
            return False
    else:
        got = cache.get(cid, ident, now, **_cache_kw(cache.get))
        if got is not None:
            want = spec.get(ki)
            if want is None or got is not want[1] or not (want[0] > now):
                return False
    return len(cache._entries) <= max(cap, 0)


def _cache_run(cap: int, ttl: int, n: int, ops) -> bool:  # type: ignore[no-untyped-def]
    cache = st._CallStateCache(max_entries=cap, ttl=ttl)
    spec: dict = {}
    now = 0
    for k in range(_NOPS):
        if k >= n:
            break
        is_put, ki, dt = ops[k]
        now = now + dt
        if not _step(cache, spec, cap, ttl, now, is_put, _pick(ki, 3), k + 1):
            return False
    return True


@cond(q=60, t=300, encoded=[st._CallStateCache.get, st._CallStateCache.put, st._CallStateCache._identity], bound="histories of <= %d operations over 3 keys (2 call ids, 2 identities), capacity 1..2 (0 in the inductive item), any integer ttl, clock advances >= 0" % _NOPS,
      replay=_replay_cache, signature=lambda a, c: "C14:cache:spec-map")
def cache_matches_specification_map(cap: int, ttl: int, n: int, ops: _OPS) -> bool:
    """
    pre: 1 <= cap <= 2 and 0 <= n <= _NOPS
    pre: all(0 <= o[1] <= 2 and o[2] >= 0 for o in ops)
    post: _
    """
    return _cache_run(cap, ttl, n, ops)


def _replay_cache_step(args: dict) -> str | None:
    ok = _cache_step_run(args["cap"], args["ttl"], args["shape"], args["e0"], args["e1"], args["now"], args["is_put"], args["ki"])
    return None if ok else "one operation on an invariant-satisfying _CallStateCache state broke the invariant / returned a wrong value"


_SHAPES = ((), (0,), (1,), (2,), (0, 1), (1, 0), (0, 2), (2, 0), (1, 2), (2, 1))  # LRU order, oldest first


def _cache_step_run(cap: int, ttl: int, shape: int, e0: int, e1: int, now: int, is_put: bool, ki: int) -> bool:
    """Inductive step: ANY state with <= cap entries that agrees with the specification map, one operation."""
    keys = _SHAPES[_pick(shape, len(_SHAPES))]
    if len(keys) > cap:
        return True  # not a reachable shape for this capacity
    cache = st._CallStateCache(max_entries=cap, ttl=ttl)
    spec: dict = {}
    kw = _cache_kw(cache.put)
    for j, kk in enumerate(keys):
        exp = (e0, e1)[j]
        v = _Val(100 + j)
        # expiry 'exp' = a put at time exp - ttl
        cache.put(_KEYS[kk][0], _KEYS[kk][1], v, exp - ttl, **kw)
        spec[kk] = (exp, v)
    if len(cache._entries) != len(keys):
        return False
    return _step(cache, spec, cap, ttl, now, is_put, _pick(ki, 3), 1)


@cond(q=60, t=300, encoded=[st._CallStateCache.get, st._CallStateCache.put, st._CallStateCache._identity], bound="any cache state (<= capacity entries among 3 keys, any LRU order, any integer expiry times) x one operation; capacity 0..2, any integer ttl/now",
      replay=_replay_cache_step, signature=lambda a, c: "C14:cache:inductive-step")
def cache_operation_preserves_agreement_with_map(cap: int, ttl: int, shape: int, e0: int, e1: int, now: int, is_put: bool, ki: int) -> bool:
    """
    pre: 0 <= cap <= 2 and 0 <= shape <= 9 and 0 <= ki <= 2
    post: _
    """
    return _cache_step_run(cap, ttl, shape, e0, e1, now, is_put, ki)


# ---------------------------------------------------------------------------
# (b) transparency: arbitrary invariant-satisfying cache vs cold worker, one request
# ---------------------------------------------------------------------------


class _CS(tc.CallStateBase):
    pass


class _SA(tc.StateBase):
    CALL_STATE_TYPE = _CS


class _Impl:
    n = 0

    def m(self):  # type: ignore[no-untyped-def]
        _Impl.n += 1
        k = _Impl.n
        return tc.StreamResult(_SA(b"\xffstate%d" % k), _CS(b"cs%d" % k), tc.FakeSchema(b"S:out%d" % k), tc.FakeSchema(b"S:in%d" % k))


_OWNERS = (None, _A, AuthContext(domain="", authenticated=True, principal="anonymous"))
_R = _A  # the requester
_KEY = b"server-key"
_T0 = 100
_GARBAGE = tc.RealWorld.GARBAGE
_CAP = pick(2, 2)


def _app(ttl: int, cap: int):  # type: ignore[no-untyped-def]
    srv = tc.FakeServer(_Impl(), {"m": tc.MethodInfo("m")})
    return tc.FakeApp(srv, {"m": _SA}, _KEY, ttl, cap)


def _mint(i1: int, ttl: int):  # type: ignore[no-untyped-def]
    """Both streams are opened at t=_T0 on a helper worker H whose warm-up entries are the genuine resolved calls."""
    tc.reset(now=_T0)
    _Impl.n = 0
    helper = _app(ttl, 8)
    md1 = tc.do_init(helper, "m", _OWNERS[i1])
    md2 = tc.do_init(helper, "m", _R)
    entries = list(helper._call_state_cache._entries.items())  # [(key, (expires, resolved))] in init order
    return helper, (md1, entries[0]), (md2, entries[1])


def _outcome(app, cursor, call, auth):  # type: ignore[no-untyped-def]
    try:
        state, resolved, cid, sb = tc.call_unpack(app, cursor, call, _SA, auth, "m")
    except Exception as e:  # noqa: BLE001
        info = tc.http_error_info(e)
        if info is None:
            raise
        return ("err", info[0], info[1])
    return ("ok", state.payload, resolved.stream_id, resolved.call_state.payload, resolved.output_schema.tag, cid)


def _invariant(app, streams, ttl: int) -> bool:  # type: ignore[no-untyped-def]
    """I over the real cache's entries: genuine resolved call under the minting identity, not outliving the call token."""
    for key, (exp, resolved) in app._call_state_cache._entries.items():
        ok = False
        for owner, (ckey, (_e, genuine)) in streams:
            if key == ckey:
                ok = resolved.stream_id == genuine.stream_id and resolved.call_state.payload == genuine.call_state.payload and resolved.output_schema == genuine.output_schema
                # call token minted at _T0 is valid while now - _T0 <= ttl; an entry is live while exp > now
                if ttl > 0 and not (exp <= _T0 + ttl + 1):
                    ok = False
        if not ok:
            return False
    return True


def _transparency(i1: int, long_ttl: bool, tok_sel: int, p1: bool, p2: bool, e1: int, e2: int, d1: int, dt: int, cap: int, check_invariant: bool) -> bool:
    i1, tok_sel = _pick(i1, 3), _pick(tok_sel, 3)
    ttl = 50 if long_ttl else 0
    helper, (md1, ent1), (md2, ent2) = _mint(i1, ttl)
    streams = ((_OWNERS[i1], ent1), (_R, ent2))
    if check_invariant and not _invariant(helper, streams, ttl):
        return False  # the warm-up put of _run_stream_init_sync must establish I
    # --- worker W: arbitrary cache state satisfying I
    warm = _app(ttl, cap)
    for present, exp, owner, (key, (_e, resolved)) in ((p1, e1, _OWNERS[i1], ent1), (p2, e2, _R, ent2)):
        if present:
            if ttl > 0 and not (exp <= _T0 + ttl + 1):
                return True  # not an invariant-satisfying state
            kw = {"method_name": "m"} if tc._takes(warm._call_state_cache.put, "method_name") else {}
            warm._call_state_cache.put(key[0], owner, resolved, exp - warm._call_state_cache._ttl, **kw)
    if not _invariant(warm, streams, ttl):
        return False  # harness construction error
    cold = _app(ttl, 0)
    # stream 2's cursor is the one refreshed by a regular turn at t = _T0 + d1 (the call token is never re-issued)
    tc.HOLD["now"] = _T0 + d1
    cur2, _sb = tc.mint_cursor_token(_SA(b"\xffstate2"), _SA, ent2[0][0], _KEY, _R)
    cursor = [md1[tc.STATE_KEY], cur2, _GARBAGE][tok_sel]
    # a conformant client echoes the call token of the stream its cursor belongs to
    call = (md1 if tok_sel == 0 else md2)[tc.CALL_STATE_KEY]
    tc.HOLD["now"] = _T0 + dt
    got_cold = _outcome(cold, cursor, call, _R)
    got_warm = _outcome(warm, cursor, call, _R)
    if check_invariant:
        return _invariant(warm, streams, ttl)
    return got_cold == got_warm


SIG_TTL = "C14:cache:entry-outlives-call-token"


def _replay_outlives(args: dict) -> str | None:
    """Real functions, real crypto, substituted clock: a stream opened at t=100 (ttl 50) on another node; worker W
    sees a continuation at t=100+dt (miss -> put) and another one after the call token has expired."""
    ttl = 50 if args["long_ttl"] else 0
    if ttl == 0:
        return None
    dt = args["dt"]
    if not (0 <= dt <= ttl):
        dt = 2
    t2 = _T0 + ttl + 1  # first second at which the call token is expired
    with tc.RealWorld({"m": tc.RealStateA}, _KEY, ttl, 8, now=_T0) as w, tc.RealWorld({"m": tc.RealStateA}, _KEY, ttl, 0, now=_T0) as cold:
        s = w.init("m", _R)
        w.app._call_state_cache.clear()  # the /init ran on another node: W starts without the entry
        w.clock.now = cold.clock.now = _T0 + dt
        first = w.unpack("m", _R, s["cursor"], s["call"])
        if first[0] != "ok":
            return None
        mkw = {"method_name": "m"} if tc._takes(st._mint_cursor_token, "method_name") else {}
        cursor2, _sb = st._mint_cursor_token(first[1], tc.RealStateA, s["call_id"], _KEY, _R, **mkw)  # the turn's refreshed cursor
        w.clock.now = cold.clock.now = t2
        on_w = w.unpack("m", _R, cursor2, s["call"])
        on_cold = cold.unpack("m", _R, cursor2, s["call"])
    if on_w[0] != on_cold[0]:
        return (
            f"stream opened at t={_T0} with token_ttl={ttl}; worker W resolved its call token at t={_T0 + dt} (cache miss) and cached it until t={_T0 + dt + ttl}; "
            f"the continuation at t={t2} is {'served' if on_w[0] == 'ok' else on_w[1:]} by W but answered {on_cold[1:]} by a cold worker (call token expired at t={_T0 + ttl + 1})"
        )
    return None


def _replay_transparency(args: dict) -> str | None:
    """The same step on the un-stubbed functions (real crypto, pyarrow schemas, substituted clock)."""
    ttl = 50 if args["long_ttl"] else 0
    i1, tok_sel = args["i1"], args["tok_sel"]
    types = {"m": tc.RealStateA}
    with tc.RealWorld(types, _KEY, ttl, 8, now=_T0) as helper, tc.RealWorld(types, _KEY, ttl, _CAP, now=_T0) as warm, tc.RealWorld(types, _KEY, ttl, 0, now=_T0) as cold:
        s1 = helper.init("m", _OWNERS[i1])
        s2 = helper.init("m", _R)
        ents = list(helper.app._call_state_cache._entries.items())
        for present, exp, owner, (key, (_e, resolved)) in ((args["p1"], args["e1"], _OWNERS[i1], ents[0]), (args["p2"], args["e2"], _R, ents[1])):
            if present:
                if ttl > 0 and not (exp <= _T0 + ttl + 1):
                    return None
                kw = {"method_name": "m"} if tc._takes(st._CallStateCache.put, "method_name") else {}
                warm.app._call_state_cache.put(key[0], owner, resolved, exp - warm.app._call_state_cache._ttl, **kw)
        warm.clock.now = cold.clock.now = helper.clock.now = _T0 + args["d1"]  # one module clock: the innermost world's
        mkw = {"method_name": "m"} if tc._takes(st._mint_cursor_token, "method_name") else {}
        cur2, _sb = st._mint_cursor_token(tc.RealStateA(who="m", n=1), tc.RealStateA, s2["call_id"], _KEY, _R, **mkw)
        cursor = [s1["cursor"], cur2, tc.RealWorld.GARBAGE][tok_sel]
        call = (s1 if tok_sel == 0 else s2)["call"]
        warm.clock.now = cold.clock.now = helper.clock.now = _T0 + args["dt"]
        on_cold, on_warm = cold.unpack("m", _R, cursor, call), warm.unpack("m", _R, cursor, call)

    def norm(o):  # type: ignore[no-untyped-def]
        return (o[0], o[1], o[2].stream_id) if o[0] == "ok" else o

    if norm(on_cold) != norm(on_warm):
        return f"the same continuation at t={_T0 + args['dt']} is answered {norm(on_warm)!r} by a worker with cache state {args!r} and {norm(on_cold)!r} by a cold worker"
    return None


_B_STUBS = [*tc.TOKEN_STUBS, *tc.DISPATCH_STUBS]
_B_BOUND = "2 streams opened at t=100 (stream 1 by anonymous / the requester / ('','anonymous'), stream 2 by the requester); cursor slot: stream 1 / stream 2 / garbage, call slot: that stream's call token; W's cache: capacity %d, each stream's entry present or not with any integer expiry allowed by I; stream 2's cursor refreshed at any t1 >= 100, request at any t >= t1; ttl 0 or 50" % _CAP


@cond(q=60, t=300, stubs=_B_STUBS, encoded=[aps._unpack_and_recover_state, aps._resolve_call_from_token, st._CallStateCache.get, st._CallStateCache.put], bound=_B_BOUND, replay=_replay_transparency, signature=lambda a, c: "C14:transparency:one-step")
def warm_worker_answers_like_cold_worker(i1: int, long_ttl: bool, tok_sel: int, p1: bool, p2: bool, e1: int, e2: int, d1: int, dt: int) -> bool:
    """
    pre: 0 <= i1 <= 2 and 0 <= tok_sel <= 2 and 0 <= d1 <= dt and d1 <= 1000000000
    post: _
    """
    return _transparency(i1, long_ttl, tok_sel, p1, p2, e1, e2, d1, dt, _CAP, False)


@cond(q=60, t=300, stubs=_B_STUBS, encoded=[aps._unpack_and_recover_state, aps._run_stream_init_sync, st._CallStateCache.put], bound=_B_BOUND, replay=_replay_outlives, signature=lambda a, c: SIG_TTL)
def request_reestablishes_cache_invariant(i1: int, long_ttl: bool, tok_sel: int, p1: bool, p2: bool, e1: int, e2: int, d1: int, dt: int) -> bool:
    """
    pre: 0 <= i1 <= 2 and 0 <= tok_sel <= 2 and 0 <= d1 <= dt and d1 <= 1000000000
    post: _
    """
    if long_ttl and is_open(SIG_TTL):
        return True  # listed open finding: the ttl>0 miss-path put is carved out
    return _transparency(i1, long_ttl, tok_sel, p1, p2, e1, e2, d1, dt, _CAP, True)


# ---------------------------------------------------------------------------
# (c) _identity is not injective — decided exactly which identities collide
# ---------------------------------------------------------------------------


def _bytes_of(x) -> bytes:  # type: ignore[no-untyped-def]
    return x.encode() if isinstance(x, str) else bytes(x)


@task(q=40, t=120, encoded=[st._CallStateCache._identity], bound="all identities with NUL-free domain, unbounded lengths (cvc5); z3 cross-check lengths<=10", engine="smt")
def cache_identity_collisions_are_only_anonymous_lookalikes(budget: float, replay=None) -> dict:
    import time

    fn = st._CallStateCache._identity
    res: dict = {"queries": 0, "discharged": 0, "solver_s": 0.0, "samples": []}
    if replay is not None:
        x, y = tc.auth_from_json(replay["x"]), tc.auth_from_json(replay["y"])
        return _replay_identity(x, y)
    try:
        val = tc.validate_identity_translation(fn, _bytes_of)
    except tc.Unsupported as e:
        return {**res, "verdict": "INCONCLUSIVE", "detail": f"construct outside the translator: {e}"}
    res["translator_validation"] = val
    if val["n_disagree"]:
        return {**res, "verdict": "ERROR", "detail": f"source->SMT translation disagrees with the live function: {val}"}
    out: dict = {}
    for sname, S, bound in tc.solvers():
        x, y = tc.SymAuth(S, "x"), tc.SymAuth(S, "y")
        ix, iy = tc.ident_terms(S, x), tc.ident_terms(S, y)

        def lookalike(a, b):  # type: ignore[no-untyped-def]
            # a anonymous, b authenticated with domain '' and principal 'anonymous'
            return S.And(S.Not(a[0]), b[0], b[1] == S.StringVal(""), b[2] == S.StringVal("anonymous"))

        base = [tc.encode_fn(fn, S, x) == tc.encode_fn(fn, S, y), tc.nul_free_domain(S, x), tc.nul_free_domain(S, y), S.Not(tc.same_identity(S, x, y))]
        for label, cs in (("collision-exists(expected sat)", base), ("collision-other-than-anonymous-lookalike", [*base, S.Not(S.Or(lookalike(ix, iy), lookalike(iy, ix)))])):
            s = S.Solver()
            if sname == "z3":
                s.set("timeout", int(min(30.0, budget / 3) * 1000))
                s.add(tc.bounded(S, x, bound + 2), tc.bounded(S, y, bound + 2))  # 'anonymous' has 9 characters
            else:
                s.set("tlimit-per", int(min(30.0, budget / 3) * 1000))
            s.add(*cs)
            t0 = time.monotonic()
            r = str(s.check())
            dt = time.monotonic() - t0
            res["queries"] += 1
            res["solver_s"] = round(res["solver_s"] + dt, 3)
            smp = {"solver": sname, "query": label, "result": r, "solver_s": round(dt, 3)}
            if r == "sat":
                try:
                    m = s.model()
                    smp["witness"] = {"x": tc.auth_to_json(tc.auth_from_model(S, m, x)), "y": tc.auth_to_json(tc.auth_from_model(S, m, y))}
                except tc.Unsupported as e:
                    smp["witness_error"] = str(e)
            if r == "unsat":
                res["discharged"] += 1
            res["samples"].append(smp)
            out[(sname, label)] = (r, smp)
    lab = "collision-other-than-anonymous-lookalike"
    for sname in ("cvc5", "z3"):
        r, smp = out[(sname, lab)]
        if r == "sat":
            if "witness" not in smp:
                return {**res, "verdict": "INCONCLUSIVE", "detail": f"sat but witness unusable: {smp.get('witness_error')}"}
            rp = _replay_identity(tc.auth_from_json(smp["witness"]["x"]), tc.auth_from_json(smp["witness"]["y"]))
            return {**res, **rp, "cex": smp["witness"]}
        if r != "unsat":
            return {**res, "verdict": "INCONCLUSIVE", "detail": f"{sname}: {r}"}
    if out[("cvc5", "collision-exists(expected sat)")][0] != "sat":
        return {**res, "verdict": "INCONCLUSIVE", "detail": "the known anonymous-lookalike collision was not found: encoding suspect"}
    res["verdict"] = "CONFIRMED"
    res["detail"] = (
        "OBSERVATION: _CallStateCache._identity maps anonymous and authenticated(domain='', principal='anonymous') to the same string "
        f"(witness {out[('cvc5', 'collision-exists(expected sat)')][1].get('witness')}); decided: no other collision between identities with NUL-free domains. "
        "Not reachable as a cross-identity hit: the call id used as the other half of the key is authenticated under the injective AAD first and is never reused."
    )
    return res


def _replay_identity(x, y) -> dict:  # type: ignore[no-untyped-def]
    fn = st._CallStateCache._identity
    ids = {tc.real_identity(x), tc.real_identity(y)}
    lookalike = ids == {(False, "", ""), (True, "", "anonymous")}
    if fn(x) == fn(y) and len(ids) == 2 and not lookalike and "\x00" not in (tc.real_identity(x)[1] + tc.real_identity(y)[1]):
        return {"verdict": "VIOLATION", "replayed": True, "signature": "C14:identity:collision", "detail": f"_identity({x!r}) == _identity({y!r}) == {fn(x)!r}"}
    return {"verdict": "INCONCLUSIVE", "detail": "solver witness did not reproduce on the real function"}
