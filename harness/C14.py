"""C14 — the call-state cache never changes a request's outcome.

(a) xh  : the real `_CallStateCache` (get / put / _identity, real OrderedDict, integer clock) against
          a specification map over symbolic operation sequences and from ANY cache state: a hit returns
          the value last `put` under exactly that (call id, identity) - never another identity's or
          another call's - and not later than put-time + ttl.  Safety side only: misses, admission,
          eviction and the number of entries are free (a cache that never hits satisfies C14).
          Replay: END TO END on real code (real crypto; a hit that is too old: warm vs empty-cache
          worker around the call token's expiry; a hit under the wrong key: cross-identity and
          two-streams presentations on a warm worker) - a divergence that changes no request's outcome
          stays inconclusive.
(b) xh  : transparency, one inductive step — a worker whose cache holds an *arbitrary* state that
          satisfies the invariant I answers a continuation exactly like a cold worker (capacity 0):
          same served state / call, or the same 400; requester and stream owner range over anonymous,
          an ordinary principal and the anonymous lookalike ('', 'anonymous').
          I = every entry (cid, ident) -> r is what opening the call token minted for (cid, ident)
          yields, and (ttl > 0) the entry does not outlive that call token.
(b') xh : ... and the step re-establishes I (the `put` on the miss path, the warm-up `put` of
          `_run_stream_init_sync`).  Replay: the worker that took the step keeps answering that
          stream's (and the other stream's) continuations like an empty-cache worker - served stream
          id and call state included - at the counterexample's time and around the token expiry.
(c) smt : no two distinct identities (NUL-free domains) share BOTH the cache key's identity half and
          the cursor AAD, so a hit never yields call state minted for another caller (witness replayed
          end to end).  That `_identity` alone is not injective (anonymous vs ('', 'anonymous')) is
          reported as an observation only: it changes no outcome and need not stay that way.
"""

from __future__ import annotations

from engine.api import HarnessModelError, cond, is_open, pick, task

from harness import _tokens_common as tc
from vgi_rpc.http.server import _app_stream as aps
from vgi_rpc.http.server import _state_token as st
from vgi_rpc.rpc import AuthContext

PROPERTY = "C14"
ENCODED = [st._CallStateCache.get, st._CallStateCache.put, st._CallStateCache._identity, aps._unpack_and_recover_state, aps._resolve_call_from_token, aps._run_stream_init_sync]
BOUNDS = (
    "(a) histories of <= %d operations over 3 keys (2 call ids x 2 identities), capacity 1..2, and one inductive step from ANY cache state (<= capacity entries, any LRU order, any expiry) "
    "with capacity 0..2; unbounded integer clock, any integer ttl > 0; (b) 2 streams opened at t=100 (3 possible owners x 3 possible requesters), cursor slot stream 1 / stream 2 (refreshed at any t1) / garbage, "
    "call slot = that stream's call token, arbitrary invariant-satisfying cache of capacity 2, any request time >= t1, ttl 0 or 50; (c) all identities, unbounded lengths" % pick(3, 4)
)
OUTSIDE = (
    "requests that do not echo a server-minted call token (absent / garbage / kind-swapped): on a hit the call token is not consulted at all, so such a request is served by a warm "
    "worker and rejected by a cold one - documented in _unpack_and_recover_state ('may be None when the cache is expected to hit; a miss then fails') and excluded from the transparency claim; "
    "float clocks (the cache stores float expiry times; integers here); concurrent access to the cache (its lock); more than two streams; a cache constructed with ttl <= 0 (never done: _HttpRpcApp falls back to 3600); "
    "how many entries the cache holds (memory bound, not an outcome)"
)
ASSUMPTIONS = [*tc.TOKEN_STUBS, *tc.DISPATCH_STUBS, "call ids are never reused (os.urandom(16) stub returns fresh values)"]


def _pick(sel: int, n: int) -> int:
    for k in range(n):
        if sel == k:
            return k
    raise AssertionError


# ---------------------------------------------------------------------------
# (a) cache vs specification map
# ---------------------------------------------------------------------------

_A = AuthContext(domain="d", authenticated=True, principal="p")
# three keys: same call id under two identities, and a second call id under one of them
_KEYS = ((b"call-id-00000001", None), (b"call-id-00000001", _A), (b"call-id-00000002", _A))
_NOPS = pick(3, 4)
_OP = tuple[bool, int, int]  # (is_put, key index, clock advance)
_OPS = tuple[(_OP,) * _NOPS]  # type: ignore[valid-type]


class _Val:
    """Stands for a _ResolvedCall (the cache never looks inside)."""

    def __init__(self, n: int) -> None:
        self.n = n


def _cache_kw(fn) -> dict:  # type: ignore[no-untyped-def]
    return {"method_name": "m"} if tc._takes(fn, "method_name") else {}


def _step(cache, spec: dict, cap: int, ttl: int, now: int, is_put: bool, ki: int, serial: int) -> str | None:  # type: ignore[no-untyped-def]
    """One operation on the real cache and on the specification map.  Returns why a HIT is wrong, None if fine.

    Only the safety side is judged - what the property needs from the cache: a hit returns the value last put under
    exactly that (call id, identity), and not after put-time + ttl (the bound that keeps an entry from outliving the
    call token it stands for, see (b')).  Misses are always fine (a cache that never hits satisfies C14); how many
    entries the cache holds is not the property's subject."""
    cid, ident = _KEYS[ki]
    if is_put:
        v = _Val(serial)
        cache.put(cid, ident, v, now, **_cache_kw(cache.put))
        spec[ki] = (now + ttl, v)
    got = cache.get(cid, ident, now, **_cache_kw(cache.get))
    if got is None:
        if is_put and cap >= 1 and ttl > 0:
            # not a violation (admission policies are legitimate) - but then this item does not exercise the hit paths
            raise HarnessModelError("a fresh put into a cache with capacity >= 1 and ttl > 0 is not visible: hit paths not exercised")
        return None
    want = spec.get(ki)
    if want is not None and got.n == want[1].n:
        return None if want[0] > now else "stale-hit"
    for kj, (_exp, vj) in spec.items():
        if kj != ki and vj.n == got.n:
            return "cross-identity-hit" if _KEYS[kj][0] == cid else "cross-call-hit"
    return "overwritten-value-hit"


def _cache_run(cap: int, ttl: int, n: int, ops) -> str | None:  # type: ignore[no-untyped-def]
    cache = st._CallStateCache(max_entries=cap, ttl=ttl)
    spec: dict = {}
    now = 0
    for k in range(_NOPS):
        if k >= n:
            break
        is_put, ki, dt = ops[k]
        now = now + dt
        why = _step(cache, spec, cap, ttl, now, is_put, _pick(ki, 3), k + 1)
        if why is not None:
            return why
    return None


def _norm(o):  # type: ignore[no-untyped-def]
    """What a client can tell apart: served stream / call state, or the rejection."""
    if o[0] == "ok":
        return ("ok", o[2].stream_id, None if o[2].call_state is None else o[2].call_state.tag)
    return tuple(o[:3])


_E2E_TTL = 50


def _e2e_entry_lifetime(clear_after_init: bool) -> str | None:
    """Real functions, real crypto, substituted clock (the hook the property allows): one stream opened at t0 with token
    ttl 50 on worker W (or, `clear_after_init`, on another node); W serves a continuation at t0+h (a hit, or a miss that
    re-creates the entry) and hands out a fresh cursor; the stream's next continuation is then sent, at several times
    around the call token's expiry, to W and to a worker with an empty cache.  Any difference is a C14 violation."""
    t0, ttl = _T0, _E2E_TTL
    who = AuthContext(domain="d", authenticated=True, principal="p")
    for h in (1, ttl // 2, ttl - 1, ttl):
        with tc.RealWorld({"m": tc.RealStateA}, _KEY, ttl, 8, now=t0) as w, tc.RealWorld({"m": tc.RealStateA}, _KEY, ttl, 0, now=t0) as cold:
            s = w.init("m", who)
            if clear_after_init:
                w.app._call_state_cache.clear()
            w.clock.now = cold.clock.now = t0 + h
            first = w.unpack("m", who, s["cursor"], s["call"])
            if first[0] != "ok":
                continue
            mkw = {"method_name": "m"} if tc._takes(st._mint_cursor_token, "method_name") else {}
            cursor2, _sb = st._mint_cursor_token(first[1], tc.RealStateA, s["call_id"], _KEY, who, **mkw)  # the turn's refreshed cursor
            for t in sorted({t0 + h, t0 + ttl, t0 + ttl + 1, t0 + h + ttl - 1, t0 + h + ttl, t0 + h + ttl + 1}):
                w.clock.now = cold.clock.now = t
                on_cold = cold.unpack("m", who, cursor2, s["call"])  # first: W's own answer may refresh its entry
                on_w = w.unpack("m", who, cursor2, s["call"])
                if _norm(on_w) != _norm(on_cold):
                    return (
                        f"stream opened at t={t0} with token_ttl={ttl}{' on another node' if clear_after_init else ''}; worker W served a continuation at t={t0 + h} and refreshed the cursor; "
                        f"the next continuation at t={t} is answered {_norm(on_w)!r} by W and {_norm(on_cold)!r} by a worker with an empty cache"
                    )
    return None


def _e2e_cross_hits() -> str | None:
    """Real functions, real crypto: can a warm worker's cache hand a requester something that is not its own stream's?
    (i) y presents x's cursor (x != y), without and with x's call token; (ii) one caller's two streams, each cursor
    presented without and with its own call token - what is served must be that very stream's."""
    ids = (None, AuthContext(domain="d", authenticated=True, principal="p"), AuthContext(domain="", authenticated=True, principal="anonymous"), AuthContext(domain="d", authenticated=True, principal="q"))
    for x in ids:
        for y in ids:
            if tc.real_identity(x) == tc.real_identity(y):
                continue
            for with_call in (False, True):
                with tc.RealWorld({"m": tc.RealStateA}, _KEY, _E2E_TTL, 8, now=_T0) as w:
                    s = w.init("m", x)
                    w.init("m", y)
                    got = w.unpack("m", y, s["cursor"], s["call"] if with_call else None)
                if got[0] == "ok":
                    return f"stream opened by {x!r} on a warm worker; requester {y!r} presenting its cursor{' and call token' if with_call else ''} is served {_norm(got)!r}"
    for who in ids[:2]:
        with tc.RealWorld({"m": tc.RealStateA}, _KEY, _E2E_TTL, 8, now=_T0) as w:
            ss = [w.init("m", who), w.init("m", who)]
            for s in ss:
                for call in (None, s["call"]):
                    got = w.unpack("m", who, s["cursor"], call)
                    if got[0] == "ok" and _norm(got) != ("ok", s["stream_id"], s["tag"]):
                        return f"caller {who!r} opened two streams on a warm worker; the cursor of {s['stream_id']} is served as {_norm(got)!r}"
    return None


def _replay_cache_reason(why: str | None, args: dict) -> str | None:
    """Independent, end-to-end judgement for a divergence the condition found on the cache class: it is a C14 violation
    only if some request's outcome changes.  (A key that separates less than the condition demands may still be harmless
    because the call id is authenticated under the requester's AAD before any lookup.)"""
    if why is None:
        return None
    return _e2e_entry_lifetime(False) or _e2e_entry_lifetime(True) or _e2e_cross_hits()


def _replay_cache(args: dict) -> str | None:
    return _replay_cache_reason(_cache_run(args["cap"], args["ttl"], args["n"], args["ops"]), args)


def _sig_cache(prefix: str, run):  # type: ignore[no-untyped-def]
    def sig(a: dict, c) -> str:  # type: ignore[no-untyped-def]
        try:
            return f"{prefix}:{run(a) or 'unclassified'}"
        except Exception:  # noqa: BLE001
            return f"{prefix}:unclassified"

    return sig


@cond(q=60, t=300, encoded=[st._CallStateCache.get, st._CallStateCache.put, st._CallStateCache._identity], bound="histories of <= %d operations over 3 keys (2 call ids, 2 identities), capacity 1..2 (0 in the inductive item), any integer ttl > 0, clock advances >= 0" % _NOPS,
      replay=_replay_cache, signature=_sig_cache("C14:cache:spec-map", lambda a: _cache_run(a["cap"], a["ttl"], a["n"], a["ops"])))
def cache_matches_specification_map(cap: int, ttl: int, n: int, ops: _OPS) -> bool:
    """
    pre: 1 <= cap <= 2 and 0 <= n <= _NOPS and ttl > 0
    pre: all(0 <= o[1] <= 2 and o[2] >= 0 for o in ops)
    post: _
    """
    return _cache_run(cap, ttl, n, ops) is None


_SHAPES = ((), (0,), (1,), (2,), (0, 1), (1, 0), (0, 2), (2, 0), (1, 2), (2, 1))  # LRU order, oldest first


def _cache_step_run(cap: int, ttl: int, shape: int, e0: int, e1: int, now: int, is_put: bool, ki: int) -> str | None:
    """Inductive step: ANY state with <= cap entries that agrees with the specification map, one operation."""
    keys = _SHAPES[_pick(shape, len(_SHAPES))]
    if len(keys) > cap:
        return None  # not a reachable shape for this capacity
    cache = st._CallStateCache(max_entries=cap, ttl=ttl)
    spec: dict = {}
    kw = _cache_kw(cache.put)
    for j, kk in enumerate(keys):
        exp = (e0, e1)[j]
        v = _Val(100 + j)
        # expiry 'exp' = a put at time exp - ttl
        cache.put(_KEYS[kk][0], _KEYS[kk][1], v, exp - ttl, **kw)
        spec[kk] = (exp, v)
    if len(cache._entries) != len(keys):
        # e.g. a put that purges expired entries: legitimate, but then this is not the state the step was meant to start from
        raise HarnessModelError("could not construct the intended cache state through put(): the cache dropped or merged entries")
    return _step(cache, spec, cap, ttl, now, is_put, _pick(ki, 3), 1)


def _replay_cache_step(args: dict) -> str | None:
    return _replay_cache_reason(_cache_step_run(args["cap"], args["ttl"], args["shape"], args["e0"], args["e1"], args["now"], args["is_put"], args["ki"]), args)


@cond(q=60, t=300, encoded=[st._CallStateCache.get, st._CallStateCache.put, st._CallStateCache._identity], bound="any cache state (<= capacity entries among 3 keys, any LRU order, any integer expiry times) x one operation; capacity 0..2, any integer ttl > 0, any now",
      replay=_replay_cache_step, signature=_sig_cache("C14:cache:inductive-step", lambda a: _cache_step_run(a["cap"], a["ttl"], a["shape"], a["e0"], a["e1"], a["now"], a["is_put"], a["ki"])))
def cache_operation_preserves_agreement_with_map(cap: int, ttl: int, shape: int, e0: int, e1: int, now: int, is_put: bool, ki: int) -> bool:
    """
    pre: 0 <= cap <= 2 and 0 <= shape <= 9 and 0 <= ki <= 2 and ttl > 0
    post: _
    """
    return _cache_step_run(cap, ttl, shape, e0, e1, now, is_put, ki) is None


# ---------------------------------------------------------------------------
# (b) transparency: arbitrary invariant-satisfying cache vs cold worker, one request
# ---------------------------------------------------------------------------


class _CS(tc.CallStateBase):
    pass


class _SA(tc.StateBase):
    CALL_STATE_TYPE = _CS


class _Impl:
    n = 0

    def m(self):  # type: ignore[no-untyped-def]
        _Impl.n += 1
        k = _Impl.n
        return tc.StreamResult(_SA(b"\xffstate%d" % k), _CS(b"cs%d" % k), tc.FakeSchema(b"S:out%d" % k), tc.FakeSchema(b"S:in%d" % k))


_OWNERS = (None, _A, AuthContext(domain="", authenticated=True, principal="anonymous"))
_KEY = b"server-key"
_T0 = 100
_GARBAGE = tc.RealWorld.GARBAGE
_CAP = pick(2, 2)


def _app(ttl: int, cap: int):  # type: ignore[no-untyped-def]
    srv = tc.FakeServer(_Impl(), {"m": tc.MethodInfo("m")})
    return tc.FakeApp(srv, {"m": _SA}, _KEY, ttl, cap)


def _mint(i1: int, r: int, ttl: int):  # type: ignore[no-untyped-def]
    """Both streams are opened at t=_T0 on a helper worker H whose warm-up entries are the genuine resolved calls."""
    tc.reset(now=_T0)
    _Impl.n = 0
    helper = _app(ttl, 8)
    md1 = tc.do_init(helper, "m", _OWNERS[i1])
    md2 = tc.do_init(helper, "m", _OWNERS[r])
    entries = list(helper._call_state_cache._entries.items())  # [(key, (expires, resolved))] in init order
    if len(entries) != 2:
        raise HarnessModelError("the two /init calls did not leave two warm-up entries: this item's construction of cache states does not apply")
    return helper, (md1, entries[0]), (md2, entries[1])


def _outcome(app, cursor, call, auth):  # type: ignore[no-untyped-def]
    try:
        state, resolved, cid, sb = tc.call_unpack(app, cursor, call, _SA, auth, "m")
    except Exception as e:  # noqa: BLE001
        info = tc.http_error_info(e)
        if info is None:
            raise
        return ("err", info[0], info[1])
    return ("ok", state.payload, resolved.stream_id, resolved.call_state.payload, resolved.output_schema.tag, cid)


def _invariant(app, streams, ttl: int) -> bool:  # type: ignore[no-untyped-def]
    """I over the real cache's entries: genuine resolved call under the minting identity, not outliving the call token."""
    for key, (exp, resolved) in app._call_state_cache._entries.items():
        ok = False
        for owner, (ckey, (_e, genuine)) in streams:
            if key == ckey:
                ok = resolved.stream_id == genuine.stream_id and resolved.call_state.payload == genuine.call_state.payload and resolved.output_schema == genuine.output_schema
                # call token minted at _T0 is valid while now - _T0 <= ttl; an entry is live while exp > now
                if ttl > 0 and not (exp <= _T0 + ttl + 1):
                    ok = False
        if not ok:
            return False
    return True


def _transparency(i1: int, r: int, long_ttl: bool, tok_sel: int, p1: bool, p2: bool, e1: int, e2: int, d1: int, dt: int, cap: int, check_invariant: bool) -> bool:
    i1, r, tok_sel = _pick(i1, 3), _pick(r, 3), _pick(tok_sel, 3)
    ttl = 50 if long_ttl else 0
    req = _OWNERS[r]  # the requester: anonymous, an ordinary principal, or the anonymous lookalike ('', 'anonymous')
    helper, (md1, ent1), (md2, ent2) = _mint(i1, r, ttl)
    streams = ((_OWNERS[i1], ent1), (req, ent2))
    if check_invariant and not _invariant(helper, streams, ttl):
        return False  # the warm-up put of _run_stream_init_sync must establish I
    # --- worker W: arbitrary cache state satisfying I
    warm = _app(ttl, cap)
    for present, exp, owner, (key, (_e, resolved)) in ((p1, e1, _OWNERS[i1], ent1), (p2, e2, req, ent2)):
        if present:
            if ttl > 0 and not (exp <= _T0 + ttl + 1):
                return True  # not an invariant-satisfying state
            kw = {"method_name": "m"} if tc._takes(warm._call_state_cache.put, "method_name") else {}
            warm._call_state_cache.put(key[0], owner, resolved, exp - warm._call_state_cache._ttl, **kw)
    if not _invariant(warm, streams, ttl):
        raise HarnessModelError("could not construct an invariant-satisfying cache state through put()")
    cold = _app(ttl, 0)
    # stream 2's cursor is the one refreshed by a regular turn at t = _T0 + d1 (the call token is never re-issued)
    tc.HOLD["now"] = _T0 + d1
    cur2, _sb = tc.mint_cursor_token(_SA(b"\xffstate2"), _SA, ent2[0][0], _KEY, req)
    cursor = [md1[tc.STATE_KEY], cur2, _GARBAGE][tok_sel]
    # a conformant client echoes the call token of the stream its cursor belongs to
    call = (md1 if tok_sel == 0 else md2)[tc.CALL_STATE_KEY]
    tc.HOLD["now"] = _T0 + dt
    got_cold = _outcome(cold, cursor, call, req)
    got_warm = _outcome(warm, cursor, call, req)
    if check_invariant:
        return _invariant(warm, streams, ttl)
    return got_cold == got_warm


SIG_TTL = "C14:cache:entry-outlives-call-token"


def _replay_outlives(args: dict) -> str | None:
    """What a broken invariant means for clients, on real functions (real crypto, pyarrow, substituted clock): a worker
    that served one continuation of a stream (miss -> put, or hit) must go on answering that stream's continuations
    exactly like a worker with an empty cache - same served stream id / call state, same rejection - at the
    counterexample's times and around the call token's expiry."""
    ttl = 50 if args["long_ttl"] else 0
    who, owner1 = _OWNERS[args["r"]], _OWNERS[args["i1"]]
    d = args["dt"] if 0 <= args["dt"] <= (ttl or 10**6) else 2
    for clear in (True, False):
        with tc.RealWorld({"m": tc.RealStateA}, _KEY, ttl, 8, now=_T0) as w, tc.RealWorld({"m": tc.RealStateA}, _KEY, ttl, 0, now=_T0) as cold:
            s1 = w.init("m", owner1)
            s = w.init("m", who)
            if clear:
                w.app._call_state_cache.clear()  # the /init calls ran on another node: W starts without the entries
            w.clock.now = cold.clock.now = _T0 + d
            first = w.unpack("m", who, s["cursor"], s["call"])
            if first[0] != "ok":
                continue
            mkw = {"method_name": "m"} if tc._takes(st._mint_cursor_token, "method_name") else {}
            cursor2, _sb = st._mint_cursor_token(first[1], tc.RealStateA, s["call_id"], _KEY, who, **mkw)  # the turn's refreshed cursor
            times = sorted({_T0 + d, _T0 + d + 1, _T0 + ttl, _T0 + ttl + 1, _T0 + d + ttl, _T0 + d + ttl + 1} if ttl else {_T0 + d, _T0 + d + 1, _T0 + d + 10**6})
            for t in times:
                w.clock.now = cold.clock.now = t
                for cur, call, label in ((cursor2, s["call"], "its own stream's"), (s1["cursor"], s1["call"], "stream 1's")):
                    on_cold = cold.unpack("m", who, cur, call)
                    on_w = w.unpack("m", who, cur, call)
                    if _norm(on_w) != _norm(on_cold):
                        return (
                            f"streams opened at t={_T0} (token_ttl={ttl}){' on another node' if clear else ''}; worker W served a continuation at t={_T0 + d}; "
                            f"requester {who!r} presenting {label} tokens at t={t} is answered {_norm(on_w)!r} by W and {_norm(on_cold)!r} by a worker with an empty cache"
                        )
    return None


def _replay_transparency(args: dict) -> str | None:
    """The same step on the un-stubbed functions (real crypto, pyarrow schemas, substituted clock)."""
    ttl = 50 if args["long_ttl"] else 0
    i1, tok_sel, req = args["i1"], args["tok_sel"], _OWNERS[args["r"]]
    types = {"m": tc.RealStateA}
    with tc.RealWorld(types, _KEY, ttl, 8, now=_T0) as helper, tc.RealWorld(types, _KEY, ttl, _CAP, now=_T0) as warm, tc.RealWorld(types, _KEY, ttl, 0, now=_T0) as cold:
        s1 = helper.init("m", _OWNERS[i1])
        s2 = helper.init("m", req)
        ents = list(helper.app._call_state_cache._entries.items())
        if len(ents) != 2:
            return None
        for present, exp, owner, (key, (_e, resolved)) in ((args["p1"], args["e1"], _OWNERS[i1], ents[0]), (args["p2"], args["e2"], req, ents[1])):
            if present:
                if ttl > 0 and not (exp <= _T0 + ttl + 1):
                    return None
                kw = {"method_name": "m"} if tc._takes(st._CallStateCache.put, "method_name") else {}
                warm.app._call_state_cache.put(key[0], owner, resolved, exp - warm.app._call_state_cache._ttl, **kw)
        warm.clock.now = cold.clock.now = helper.clock.now = _T0 + args["d1"]  # one module clock: the innermost world's
        mkw = {"method_name": "m"} if tc._takes(st._mint_cursor_token, "method_name") else {}
        cur2, _sb = st._mint_cursor_token(tc.RealStateA(who="m", n=1), tc.RealStateA, s2["call_id"], _KEY, req, **mkw)
        cursor = [s1["cursor"], cur2, tc.RealWorld.GARBAGE][tok_sel]
        call = (s1 if tok_sel == 0 else s2)["call"]
        warm.clock.now = cold.clock.now = helper.clock.now = _T0 + args["dt"]
        on_cold, on_warm = cold.unpack("m", req, cursor, call), warm.unpack("m", req, cursor, call)
    if _norm(on_cold) != _norm(on_warm):
        return f"the same continuation of requester {req!r} at t={_T0 + args['dt']} is answered {_norm(on_warm)!r} by a worker with cache state {args!r} and {_norm(on_cold)!r} by a cold worker"
    return None


_B_STUBS = [*tc.TOKEN_STUBS, *tc.DISPATCH_STUBS]
_B_BOUND = (
    "2 streams opened at t=100: stream 1 by anonymous / an ordinary principal / ('','anonymous'), stream 2 by the requester, who is any of the same three (all 9 owner x requester pairs, incl. the pair whose "
    "cache identities coincide); cursor slot: stream 1 / stream 2 / garbage, call slot: that stream's call token; W's cache: capacity %d, each stream's entry present or not with any integer expiry allowed by I; "
    "stream 2's cursor refreshed at any t1 >= 100, request at any t >= t1; ttl 0 or 50" % _CAP
)


@cond(q=90, t=400, stubs=_B_STUBS, encoded=[aps._unpack_and_recover_state, aps._resolve_call_from_token, st._CallStateCache.get, st._CallStateCache.put], bound=_B_BOUND, replay=_replay_transparency,
      signature=lambda a, c: "C14:transparency:one-step:" + ("own-stream", "other-stream", "garbage")[1 if a.get("tok_sel") == 0 else (0 if a.get("tok_sel") == 1 else 2)])
def warm_worker_answers_like_cold_worker(i1: int, r: int, long_ttl: bool, tok_sel: int, p1: bool, p2: bool, e1: int, e2: int, d1: int, dt: int) -> bool:
    """
    pre: 0 <= i1 <= 2 and 0 <= r <= 2 and 0 <= tok_sel <= 2 and 0 <= d1 <= dt and d1 <= 1000000000
    post: _
    """
    return _transparency(i1, r, long_ttl, tok_sel, p1, p2, e1, e2, d1, dt, _CAP, False)


@cond(q=90, t=400, stubs=_B_STUBS, encoded=[aps._unpack_and_recover_state, aps._run_stream_init_sync, st._CallStateCache.put], bound=_B_BOUND, replay=_replay_outlives, signature=lambda a, c: SIG_TTL)
def request_reestablishes_cache_invariant(i1: int, r: int, long_ttl: bool, tok_sel: int, p1: bool, p2: bool, e1: int, e2: int, d1: int, dt: int) -> bool:
    """
    pre: 0 <= i1 <= 2 and 0 <= r <= 2 and 0 <= tok_sel <= 2 and 0 <= d1 <= dt and d1 <= 1000000000
    post: _
    """
    if long_ttl and is_open(SIG_TTL):
        return True  # listed open finding: the ttl>0 miss-path put is carved out
    return _transparency(i1, r, long_ttl, tok_sel, p1, p2, e1, e2, d1, dt, _CAP, True)


# ---------------------------------------------------------------------------
# (c) a hit never crosses identities — the cache key's identity half together with the cursor AAD
# ---------------------------------------------------------------------------
# A lookup happens only after the cursor token opened under the requester's AAD, and its call id is never reused.  An
# entry put for identity x can therefore be hit by a requester y != x only if BOTH the cursor AADs and the cache
# identities of x and y coincide.  Decided (unbounded strings): no such pair exists among identities with NUL-free
# domains.  `_identity` alone is not injective (anonymous vs ('', 'anonymous')); that is recorded as an observation -
# it changes no request's outcome - and it is not required to stay that way.

SIG_XID = "C14:identity:cross-identity-hit"


def _bytes_of(x) -> bytes:  # type: ignore[no-untyped-def]
    return x.encode() if isinstance(x, str) else bytes(x)


def _replay_identity(x, y) -> dict:  # type: ignore[no-untyped-def]
    """End to end on real code: x opens a stream on a warm worker; y presents x's cursor (without, then with, x's call
    token).  Served = a hit handed y the call state minted for x."""
    none = {"verdict": "INCONCLUSIVE", "detail": "solver witness did not reproduce on the real functions"}
    if tc.real_identity(x) == tc.real_identity(y):
        return none
    for with_call in (False, True):
        with tc.RealWorld({"m": tc.RealStateA}, _KEY, 50, 8, now=_T0) as w:
            s = w.init("m", x)
            got = w.unpack("m", y, s["cursor"], s["call"] if with_call else None)
        if got[0] == "ok":
            return {
                "verdict": "VIOLATION",
                "replayed": True,
                "signature": SIG_XID,
                "detail": f"stream opened by {x!r}; requester {y!r} presenting its cursor{' and call token' if with_call else ' (no call token: answered from the cache)'} "
                f"is served call state {getattr(got[2].call_state, 'tag', None)!r} of stream {got[2].stream_id!r}",
            }
    return none


@task(q=40, t=120, encoded=[st._CallStateCache._identity, st._compute_aad], bound="all identities with NUL-free domain, unbounded lengths (cvc5); z3 cross-check lengths<=10", engine="smt")
def cache_key_and_cursor_aad_jointly_separate_identities(budget: float, replay=None) -> dict:
    import time

    fn = st._CallStateCache._identity
    res: dict = {"queries": 0, "discharged": 0, "solver_s": 0.0, "samples": []}
    if replay is not None:
        return _replay_identity(tc.auth_from_json(replay["x"]), tc.auth_from_json(replay["y"]))
    try:
        val = {"_identity": tc.validate_identity_translation(fn, _bytes_of), "_compute_aad": tc.validate_identity_translation(st._compute_aad, bytes)}
    except tc.Unsupported as e:
        return {**res, "verdict": "INCONCLUSIVE", "detail": f"construct outside the translator: {e}"}
    res["translator_validation"] = val
    if any(v["n_disagree"] for v in val.values()):
        return {**res, "verdict": "ERROR", "detail": f"source->SMT translation disagrees with the live functions: {str(val)[:600]}"}
    out: dict = {}
    JOINT, SANITY, INFO, INFO2 = "joint-collision(cache identity and cursor AAD)", "sanity:two-spellings-of-anonymous-share-a-cache-identity", "info:cache-identity-collision", "info:cache-identity-collision-other-than-anonymous-lookalike"
    for sname, S, bound in tc.solvers():
        x, y = tc.SymAuth(S, "x"), tc.SymAuth(S, "y")
        ix, iy = tc.ident_terms(S, x), tc.ident_terms(S, y)

        def lookalike(a, b):  # type: ignore[no-untyped-def]
            # a anonymous, b authenticated with domain '' and principal 'anonymous'
            return S.And(S.Not(a[0]), b[0], b[1] == S.StringVal(""), b[2] == S.StringVal("anonymous"))

        same_key = tc.encode_fn(fn, S, x) == tc.encode_fn(fn, S, y)
        differ = [tc.nul_free_domain(S, x), tc.nul_free_domain(S, y), S.Not(tc.same_identity(S, x, y))]
        queries = (
            (JOINT, [same_key, tc.encode_fn(st._compute_aad, S, x) == tc.encode_fn(st._compute_aad, S, y), *differ]),
            # non-vacuity (sat for ANY correct implementation): None and an unauthenticated context are the same caller
            (SANITY, [same_key, x.is_none, S.Not(y.is_none), S.Not(y.authd)]),
            (INFO, [same_key, *differ]),
            (INFO2, [same_key, *differ, S.Not(S.Or(lookalike(ix, iy), lookalike(iy, ix)))]),
        )
        for label, cs in queries:
            s = S.Solver()
            if sname == "z3":
                s.set("timeout", int(min(30.0, budget / 4) * 1000))
                s.add(tc.bounded(S, x, bound + 2), tc.bounded(S, y, bound + 2))  # 'anonymous' has 9 characters
            else:
                s.set("tlimit-per", int(min(30.0, budget / 4) * 1000))
            s.add(*cs)
            t0 = time.monotonic()
            r = str(s.check())
            dt = time.monotonic() - t0
            res["queries"] += 1
            res["solver_s"] = round(res["solver_s"] + dt, 3)
            smp = {"solver": sname, "query": label, "result": r, "solver_s": round(dt, 3)}
            if r == "sat":
                try:
                    m = s.model()
                    smp["witness"] = {"x": tc.auth_to_json(tc.auth_from_model(S, m, x)), "y": tc.auth_to_json(tc.auth_from_model(S, m, y))}
                except tc.Unsupported as e:
                    smp["witness_error"] = str(e)
            if r == "unsat":
                res["discharged"] += 1
            res["samples"].append(smp)
            out[(sname, label)] = (r, smp)
    for sname in ("cvc5", "z3"):
        r, smp = out[(sname, JOINT)]
        if r == "sat":
            if "witness" not in smp:
                return {**res, "verdict": "INCONCLUSIVE", "detail": f"sat but witness unusable: {smp.get('witness_error')}"}
            rp = _replay_identity(tc.auth_from_json(smp["witness"]["x"]), tc.auth_from_json(smp["witness"]["y"]))
            return {**res, **rp, "cex": smp["witness"]}
        if r != "unsat" and not (sname == "z3" and r == "unknown"):
            return {**res, "verdict": "INCONCLUSIVE", "detail": f"{sname}: {r}"}
        if r == "unknown":
            res.setdefault("notes", []).append("z3 cross-check unknown within its limit; verdict rests on cvc5")
    if out[("cvc5", SANITY)][0] != "sat":
        return {**res, "verdict": "INCONCLUSIVE", "detail": "sanity query (None and an unauthenticated context share a cache identity) was not satisfiable: encoding suspect"}
    res["verdict"] = "CONFIRMED"
    i1, i2 = out[("cvc5", INFO)], out[("cvc5", INFO2)]
    res["detail"] = (
        "no two distinct identities (NUL-free domains) share both the cache identity and the cursor AAD: a hit never yields call state minted for another caller. "
        + (
            f"OBSERVATION (not a finding, no outcome changes): _CallStateCache._identity alone is not injective (witness {i1[1].get('witness')}); "
            f"collisions other than anonymous vs ('', 'anonymous'): {i2[0]}{' ' + str(i2[1].get('witness')) if i2[0] == 'sat' else ''}."
            if i1[0] == "sat"
            else f"_CallStateCache._identity alone: collision query gave {i1[0]}."
        )
    )
    return res
