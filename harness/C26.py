"""C26 — sticky sessions are never used concurrently with, or after, close — for every schedule.

coop engine over the real source of _StickyMiddleware.process_request / _close_session /
process_response, _SessionRegistry.get / close / drain_expired / shutdown,
_SessionResource.on_delete (rewritten at import time; the registry lock and the per-session
RLock are taken where the source takes them).  Environment stubs: token opening, AAD,
identity, server id, error-response builder, clock.  Monitor = the session state object
(close()) plus dispatch begin/end marks the scenario places between process_request and
process_response.
"""

from __future__ import annotations

import types

from engine import coop
from engine.api import SEED, HarnessModelError, cond, harness_side, is_open, pick, task  # noqa: F401

from vgi_rpc.http.server import _sticky as st

PROPERTY = "C26"
LEVEL = "model_checking"
ENCODED = [
    st._StickyMiddleware.process_request,
    st._StickyMiddleware._close_session,
    st._StickyMiddleware.process_response,
    st._StickyMiddleware._principal_key,
    st._SessionRegistry.get,
    st._SessionRegistry.close,
    st._SessionRegistry.drain_expired,
    st._SessionRegistry.shutdown,
    st._SessionRegistry._close_state_suppressed,
    *([st._SessionRegistry._close_entry, st._SessionRegistry.is_live] if hasattr(st._SessionRegistry, "_close_entry") else []),
    st._SessionResource.on_delete,
]
BOUNDS = "quick: 13 pairs of threads out of {request, request closing in-method, DELETE, reaper tick, shutdown} on one session, symbolic start thread + 1 preemption at any statement (covers A|B|A), clock before/after the TTL per thread; thorough: the same pairs with 2 preemptions and three triples; statement granularity"
OUTSIDE = "token sealing/opening (C25), Falcon's middleware ordering, preemption inside a statement, more than one session"
ASSUMPTIONS = [
    "_open_session_token/_compute_aad/_get_auth_and_metadata/_expected_server_id := the presented token is valid for this worker and identity (C25 decides the rest)",
    "time.time := per-thread integer clock, before or after the session's expiry",
    "in-method ctx.close_session() := _StickyMiddleware._close_session(req) then sink.closed = True (what the sink's callback does)",
    "a request is 'dispatching' between the return of process_request (not completed) and the call of process_response",
]

PKEY = "\x00anonymous"


class _World:
    def __init__(self, me) -> None:  # type: ignore[no-untyped-def]
        self.me = me
        self.active: list[int] = []
        self.closes = 0
        self.bad: list[str] = []
        self.role: dict[int, str] = {}
        self.now: dict[int, int] = {}
        self.dispatched: list[int] = []
        self.sid: bytes = b""  # id the registry gave the session (set by _build)

    def begin(self, i: int) -> None:
        if self.closes > 0:
            self.bad.append("dispatch-after-close")
        if self.active:
            self.bad.append("concurrent-dispatch")
        self.active.append(i)
        self.dispatched.append(i)

    def end(self, i: int) -> None:
        if i in self.active:
            self.active.remove(i)

    def on_close(self) -> None:
        me = self.me()
        self.closes += 1
        if self.closes > 1:
            self.bad.append("closed-twice")
        others = [a for a in self.active if a != me]
        if others:
            self.bad.append("close-during-dispatch:closer=" + self.role.get(me, "?"))


class _State:
    def __init__(self, world: _World) -> None:
        self.world = world

    def close(self) -> None:
        self.world.on_close()


_WORLD: list[_World] = []


class _TimeShim(types.ModuleType):
    def time(self) -> int:
        w = _WORLD[-1]
        return w.now.get(w.me(), 0)

    def __getattr__(self, name: str):  # type: ignore[no-untyped-def]
        raise HarnessModelError(f"time.{name} is not modelled (only time.time, as a per-thread integer clock)")


class _Req:
    def __init__(self, token: str | None) -> None:
        self.path = "/vgi/method"
        self.headers = {st.SESSION_HEADER: token} if token else {}
        self.context = types.SimpleNamespace()

    def get_header(self, name, default=None):  # type: ignore[no-untyped-def]
        return self.headers.get(name, default)


class _Resp:
    def __init__(self) -> None:
        self.complete = False
        self.status = None
        self.headers: dict = {}

    def set_header(self, k, v) -> None:  # type: ignore[no-untyped-def]
        self.headers[k] = v


def _set_error_response(resp, exc, status_code=None, **kw) -> None:  # type: ignore[no-untyped-def]
    resp.status = status_code
    resp.error = type(exc).__name__


_STUBS = {
    "_get_auth_and_metadata": lambda *a, **k: (None, None),
    "_compute_aad": lambda *a, **k: b"aad",
    "_open_session_token": lambda *a, **k: ("srv", _WORLD[-1].sid, 0),
    "_expected_server_id": lambda *a, **k: "srv",
    "_set_error_response": _set_error_response,
    "time": _TimeShim("time"),
}
_CVARS = {name: coop.CoopContextVar(name, default=None) for name in ("_current_session_context", "_current_session_id", "_current_sticky_action", "_current_sticky_sink")}

UNIT = coop.Unit(ENCODED, globals_overrides={**_STUBS, **_CVARS})

EXPIRES = 50


def _put(obj, name: str, value) -> None:  # type: ignore[no-untyped-def]
    """Replace a private attribute the model needs to own (a lock, the reaper slot).  If the code no
    longer has it, the scenario cannot be set up: a harness-model problem, never a finding."""
    if not hasattr(obj, name):
        raise HarnessModelError(f"{type(obj).__name__}.{name} is gone: the scheduler cannot put its own lock/clock there")
    setattr(obj, name, value)


def _build(world: _World, reg_lock, entry_lock):  # type: ignore[no-untyped-def]
    """One live session, set up by the REAL constructors and the real registry.open(); only the two
    locks (so the scheduler owns them), the entry's expiry (integer clock) and the reaper slot (the
    reaper is a scenario thread) are replaced afterwards."""
    registry = st._SessionRegistry(100)
    sid, _exp = registry.open(_State(world), None, PKEY)
    world.sid = sid
    entry = registry.get(sid, PKEY)
    if entry is None:
        raise HarnessModelError("registry.get() does not return the session registry.open() just registered")
    _put(entry, "expires_at", EXPIRES)
    _put(entry, "lock", entry_lock)
    _put(registry, "_lock", reg_lock)
    mw = st._StickyMiddleware(registry, b"k" * 32)
    _put(mw, "_reaper", object())  # the reaper thread is a scenario thread here, not started by the middleware
    res = st._SessionResource(registry, b"k" * 32)
    return registry, entry, mw, res


def _live(registry, world: _World) -> bool:  # type: ignore[no-untyped-def]
    """Is the session still registered?  Asked through the public iteration API, after the run, with
    an ordinary lock in place of the scheduler's."""
    import threading

    _put(registry, "_lock", threading.Lock())
    return world.sid in set(registry)


def _untraced(fn, *a):  # type: ignore[no-untyped-def]
    """Scenario set-up is concrete: run it with CrossHair's tracing suspended (its time.time()
    would otherwise hand the real registry.open() a symbolic float)."""
    from crosshair.tracers import NoTracing, is_tracing

    if is_tracing():
        with NoTracing():
            return fn(*a)
    return fn(*a)


# ---- scenario threads (cooperative) ----------------------------------------


@coop._mark
def _t_request(world, mw, i, close_in_method):  # type: ignore[no-untyped-def]
    req, resp = _Req("tok"), _Resp()
    yield from coop._cc(mw.process_request, req, resp)
    if resp.complete:
        return "lost"
    world.begin(i)
    yield coop.HP
    if close_in_method:
        yield from coop._cc(mw._close_session, req)
        req.context.sticky_sink.closed = True
    yield coop.HP
    world.end(i)
    yield from coop._cc(mw.process_response, req, resp, None, True)
    return "served"


@coop._mark
def _t_delete(world, res, i):  # type: ignore[no-untyped-def]
    req, resp = _Req("tok"), _Resp()
    yield from coop._cc(res.on_delete, req, resp)
    return resp.status


@coop._mark
def _t_reaper(world, registry, i):  # type: ignore[no-untyped-def]
    yield from coop._cc(registry.drain_expired)
    return None


@coop._mark
def _t_shutdown(world, registry, i):  # type: ignore[no-untyped-def]
    yield from coop._cc(registry.shutdown)
    return None


ROLES = ("request", "request-closing", "delete", "reaper", "shutdown")


def _scenario(roles: list[int], past: list[bool], first: int, pre):  # type: ignore[no-untyped-def]
    s = coop.Scheduler(max_steps=500, untraced=True)
    past = [True if x else False for x in past]  # branch symbolic bools to concrete values
    world = _World(lambda: s.current)
    _WORLD.append(world)
    try:
        registry, entry, mw, res = _untraced(_build, world, s.Lock(), s.RLock())
        for i, r in enumerate(roles):
            world.role[i] = ROLES[r]
            world.now[i] = EXPIRES + 10 if past[i] else EXPIRES - 10
            if r == 0:
                s.spawn(_t_request, world, mw, i, False)
            elif r == 1:
                s.spawn(_t_request, world, mw, i, True)
            elif r == 2:
                s.spawn(_t_delete, world, res, i)
            elif r == 3:
                s.spawn(_t_reaper, world, registry, i)
            else:
                s.spawn(_t_shutdown, world, registry, i)
        s.run(first, pre)
        return s, world, registry, entry
    finally:
        s.close()
        _WORLD.pop()


def _problems(s, world, registry, entry, roles, past) -> list[str]:  # type: ignore[no-untyped-def]
    bad = list(world.bad)
    if s.deadlocked:
        bad.append("deadlock")
    for t in s.threads:
        if t.exc is not None:
            why = harness_side(t.exc)
            if why:
                raise HarnessModelError("scenario thread: " + why)
            bad.append("exception:" + type(t.exc).__name__)
    # the session ended (no longer registered) => its close hook ran exactly once
    live = _untraced(_live, registry, world)
    if not live and world.closes != 1:
        bad.append("ended-without-close" if world.closes == 0 else "closed-twice")
    if live and world.closes != 0:
        bad.append("closed-but-still-registered")
    # the per-session lock is free at the end
    if getattr(entry.lock, "owner", None) is not None:
        bad.append("session-lock-leaked")
    return bad


def _verdict(s, world, registry, entry, roles, past) -> bool:  # type: ignore[no-untyped-def]
    for b in _problems(s, world, registry, entry, roles, past):
        if not is_open("C26:" + b):
            return False
    return True


def _signature_for(roles: list[int], past: list[bool], first: int, pre) -> str:  # type: ignore[no-untyped-def]
    s, world, registry, entry = _scenario(roles, past, first, pre)
    bad = [b for b in _problems(s, world, registry, entry, roles, past) if not is_open("C26:" + b)]
    return "C26:" + (bad[0] if bad else "none")


# ---- real-thread replay -----------------------------------------------------


def _replay(roles: list[int], past: list[bool], first: int, pre) -> str | None:  # type: ignore[no-untyped-def]
    s, world, registry, entry = _scenario(roles, past, first, pre)
    model_bad = [b for b in _problems(s, world, registry, entry, roles, past) if not is_open("C26:" + b)]
    if not model_bad:
        return None
    return _run_real(roles, past, s)[0]


def _run_real(roles: list[int], past: list[bool], s):  # type: ignore[no-untyped-def]
    """Force the recorded schedule onto genuine threads running the unmodified functions.
    Returns (violation description | None, real world, replay result)."""
    import threading

    ident: dict[int, int] = {}
    rworld = _World(lambda: ident.get(threading.get_ident(), -1))
    for i, r in enumerate(roles):
        rworld.role[i] = ROLES[r]
        rworld.now[i] = EXPIRES + 10 if past[i] else EXPIRES - 10
    rreg, rentry, rmw, rres = _build(rworld, threading.Lock(), threading.RLock())
    saved = {k: getattr(st, k) for k in _STUBS}
    _WORLD.append(rworld)
    try:
        for k, v in _STUBS.items():
            setattr(st, k, v)

        def request(i: int, closing: bool):
            def run():  # type: ignore[no-untyped-def]
                ident[threading.get_ident()] = i
                req, resp = _Req("tok"), _Resp()
                rmw.process_request(req, resp)  # type: ignore[arg-type]
                if resp.complete:
                    return "lost"
                rworld.begin(i)
                coop.harness_point()
                if closing:
                    rmw._close_session(req)  # type: ignore[arg-type]
                    req.context.sticky_sink.closed = True
                coop.harness_point()
                rworld.end(i)
                rmw.process_response(req, resp, None, True)  # type: ignore[arg-type]
                return "served"

            return run

        def other(i: int, r: int):
            def run():  # type: ignore[no-untyped-def]
                ident[threading.get_ident()] = i
                if r == 2:
                    req, resp = _Req("tok"), _Resp()
                    rres.on_delete(req, resp)  # type: ignore[arg-type]
                    return resp.status
                if r == 3:
                    return rreg.drain_expired()
                return rreg.shutdown()

            return run

        bodies = [request(i, r == 1) if r in (0, 1) else other(i, r) for i, r in enumerate(roles)]
        res = coop.replay_real(UNIT, bodies, s.trace, s.seg_ends)
    finally:
        for k, v in saved.items():
            setattr(st, k, v)
        _WORLD.pop()
    if res["diverged"] or not res["completed"] or res.get("harness_side"):
        return None, rworld, res  # the schedule could not be imposed, or a fake gave up: says nothing

    class _S:
        deadlocked = False
        threads = [type("T", (), {"exc": None, "done": True})() for _ in roles]

    class _L:
        owner = None

    real_bad = [b for b in _problems(_S, rworld, rreg, types.SimpleNamespace(lock=_L), roles, past) if not is_open("C26:" + b)]
    if any(res["exceptions"]):
        real_bad.append("exception:" + str([e for e in res["exceptions"] if e]))
    if real_bad:
        return f"real threads ({res['segments']} segments), roles={[ROLES[r] for r in roles]} past_ttl={past}: {real_bad}; close hook ran {rworld.closes}x; dispatched={rworld.dispatched}", rworld, res
    return None, rworld, res


# ---- items: one per pair of roles (cells run in parallel) --------------------


def _pair(r0: int, r1: int, past0: bool, past1: bool, first: int, pre) -> bool:  # type: ignore[no-untyped-def]
    s, world, registry, entry = _scenario([r0, r1], [past0, past1], first, pre)
    return _verdict(s, world, registry, entry, [r0, r1], [past0, past1])


def _pre_of(a: dict):  # type: ignore[no-untyped-def]
    f = a["first"]
    return [(a["p1"], 1 - f)] + ([(a["p2"], f)] if "p2" in a else [])


def _pair_replay(r0: int, r1: int):  # type: ignore[no-untyped-def]
    return lambda a: _replay([r0, r1], [a["past0"], a["past1"]], a["first"], _pre_of(a))


def _pair_sig(r0: int, r1: int):  # type: ignore[no-untyped-def]
    return lambda a, conc: _signature_for([r0, r1], [a["past0"], a["past1"]], a["first"], _pre_of(a))


_PB = "threads: %s + %s on one live session; symbolic start thread + %d preemption(s) at any statement; each thread's clock before/after the TTL"


@cond(q=240, t=400, engine="coop", encoded=ENCODED, stubs=ASSUMPTIONS[:2], bound=_PB % ("request", "request", 1), replay=_pair_replay(0, 0), signature=_pair_sig(0, 0))
def request_vs_request_k1(past0: bool, past1: bool, first: int, p1: int) -> bool:
    """
    pre: 0 <= first <= 1 and 0 <= p1 <= 110
    post: _
    """
    return _pair(0, 0, past0, past1, first, [(p1, 1 - first)])


@cond(q=100, t=6000, tiers=("thorough",), engine="coop", encoded=ENCODED, stubs=ASSUMPTIONS[:2], bound=_PB % ("request", "request", 2), replay=_pair_replay(0, 0), signature=_pair_sig(0, 0))
def request_vs_request_k2(past0: bool, past1: bool, first: int, p1: int, p2: int) -> bool:
    """
    pre: 0 <= first <= 1 and 0 <= p1 < p2 <= 110
    post: _
    """
    return _pair(0, 0, past0, past1, first, [(p1, 1 - first), (p2, first)])


@cond(q=240, t=400, engine="coop", encoded=ENCODED, stubs=ASSUMPTIONS[:2], bound=_PB % ("request closing in-method", "request", 1), replay=_pair_replay(1, 0), signature=_pair_sig(1, 0))
def closing_request_vs_request_k1(past0: bool, past1: bool, first: int, p1: int) -> bool:
    """
    pre: 0 <= first <= 1 and 0 <= p1 <= 110
    post: _
    """
    return _pair(1, 0, past0, past1, first, [(p1, 1 - first)])


@cond(q=100, t=6000, tiers=("thorough",), engine="coop", encoded=ENCODED, stubs=ASSUMPTIONS[:2], bound=_PB % ("request closing in-method", "request", 2), replay=_pair_replay(1, 0), signature=_pair_sig(1, 0))
def closing_request_vs_request_k2(past0: bool, past1: bool, first: int, p1: int, p2: int) -> bool:
    """
    pre: 0 <= first <= 1 and 0 <= p1 < p2 <= 110
    post: _
    """
    return _pair(1, 0, past0, past1, first, [(p1, 1 - first), (p2, first)])


@cond(q=240, t=400, engine="coop", encoded=ENCODED, stubs=ASSUMPTIONS[:2], bound=_PB % ("request", "DELETE", 1), replay=_pair_replay(0, 2), signature=_pair_sig(0, 2))
def request_vs_delete_k1(past0: bool, past1: bool, first: int, p1: int) -> bool:
    """
    pre: 0 <= first <= 1 and 0 <= p1 <= 110
    post: _
    """
    return _pair(0, 2, past0, past1, first, [(p1, 1 - first)])


@cond(q=100, t=6000, tiers=("thorough",), engine="coop", encoded=ENCODED, stubs=ASSUMPTIONS[:2], bound=_PB % ("request", "DELETE", 2), replay=_pair_replay(0, 2), signature=_pair_sig(0, 2))
def request_vs_delete_k2(past0: bool, past1: bool, first: int, p1: int, p2: int) -> bool:
    """
    pre: 0 <= first <= 1 and 0 <= p1 < p2 <= 110
    post: _
    """
    return _pair(0, 2, past0, past1, first, [(p1, 1 - first), (p2, first)])


@cond(q=240, t=400, engine="coop", encoded=ENCODED, stubs=ASSUMPTIONS[:2], bound=_PB % ("request closing in-method", "DELETE", 1), replay=_pair_replay(1, 2), signature=_pair_sig(1, 2))
def closing_request_vs_delete_k1(past0: bool, past1: bool, first: int, p1: int) -> bool:
    """
    pre: 0 <= first <= 1 and 0 <= p1 <= 110
    post: _
    """
    return _pair(1, 2, past0, past1, first, [(p1, 1 - first)])


@cond(q=100, t=6000, tiers=("thorough",), engine="coop", encoded=ENCODED, stubs=ASSUMPTIONS[:2], bound=_PB % ("request closing in-method", "DELETE", 2), replay=_pair_replay(1, 2), signature=_pair_sig(1, 2))
def closing_request_vs_delete_k2(past0: bool, past1: bool, first: int, p1: int, p2: int) -> bool:
    """
    pre: 0 <= first <= 1 and 0 <= p1 < p2 <= 110
    post: _
    """
    return _pair(1, 2, past0, past1, first, [(p1, 1 - first), (p2, first)])


@cond(q=240, t=400, engine="coop", encoded=ENCODED, stubs=ASSUMPTIONS[:2], bound=_PB % ("request", "reaper tick", 1), replay=_pair_replay(0, 3), signature=_pair_sig(0, 3))
def request_vs_reaper_k1(past0: bool, past1: bool, first: int, p1: int) -> bool:
    """
    pre: 0 <= first <= 1 and 0 <= p1 <= 110
    post: _
    """
    return _pair(0, 3, past0, past1, first, [(p1, 1 - first)])


@cond(q=100, t=6000, tiers=("thorough",), engine="coop", encoded=ENCODED, stubs=ASSUMPTIONS[:2], bound=_PB % ("request", "reaper tick", 2), replay=_pair_replay(0, 3), signature=_pair_sig(0, 3))
def request_vs_reaper_k2(past0: bool, past1: bool, first: int, p1: int, p2: int) -> bool:
    """
    pre: 0 <= first <= 1 and 0 <= p1 < p2 <= 110
    post: _
    """
    return _pair(0, 3, past0, past1, first, [(p1, 1 - first), (p2, first)])


@cond(q=240, t=400, engine="coop", encoded=ENCODED, stubs=ASSUMPTIONS[:2], bound=_PB % ("request", "shutdown", 1), replay=_pair_replay(0, 4), signature=_pair_sig(0, 4))
def request_vs_shutdown_k1(past0: bool, past1: bool, first: int, p1: int) -> bool:
    """
    pre: 0 <= first <= 1 and 0 <= p1 <= 110
    post: _
    """
    return _pair(0, 4, past0, past1, first, [(p1, 1 - first)])


@cond(q=100, t=6000, tiers=("thorough",), engine="coop", encoded=ENCODED, stubs=ASSUMPTIONS[:2], bound=_PB % ("request", "shutdown", 2), replay=_pair_replay(0, 4), signature=_pair_sig(0, 4))
def request_vs_shutdown_k2(past0: bool, past1: bool, first: int, p1: int, p2: int) -> bool:
    """
    pre: 0 <= first <= 1 and 0 <= p1 < p2 <= 110
    post: _
    """
    return _pair(0, 4, past0, past1, first, [(p1, 1 - first), (p2, first)])


@cond(q=240, t=400, engine="coop", encoded=ENCODED, stubs=ASSUMPTIONS[:2], bound=_PB % ("DELETE", "reaper tick", 1), replay=_pair_replay(2, 3), signature=_pair_sig(2, 3))
def delete_vs_reaper_k1(past0: bool, past1: bool, first: int, p1: int) -> bool:
    """
    pre: 0 <= first <= 1 and 0 <= p1 <= 110
    post: _
    """
    return _pair(2, 3, past0, past1, first, [(p1, 1 - first)])


@cond(q=100, t=6000, tiers=("thorough",), engine="coop", encoded=ENCODED, stubs=ASSUMPTIONS[:2], bound=_PB % ("DELETE", "reaper tick", 2), replay=_pair_replay(2, 3), signature=_pair_sig(2, 3))
def delete_vs_reaper_k2(past0: bool, past1: bool, first: int, p1: int, p2: int) -> bool:
    """
    pre: 0 <= first <= 1 and 0 <= p1 < p2 <= 110
    post: _
    """
    return _pair(2, 3, past0, past1, first, [(p1, 1 - first), (p2, first)])


@cond(q=240, t=400, engine="coop", encoded=ENCODED, stubs=ASSUMPTIONS[:2], bound=_PB % ("DELETE", "DELETE", 1), replay=_pair_replay(2, 2), signature=_pair_sig(2, 2))
def delete_vs_delete_k1(past0: bool, past1: bool, first: int, p1: int) -> bool:
    """
    pre: 0 <= first <= 1 and 0 <= p1 <= 110
    post: _
    """
    return _pair(2, 2, past0, past1, first, [(p1, 1 - first)])


@cond(q=100, t=6000, tiers=("thorough",), engine="coop", encoded=ENCODED, stubs=ASSUMPTIONS[:2], bound=_PB % ("DELETE", "DELETE", 2), replay=_pair_replay(2, 2), signature=_pair_sig(2, 2))
def delete_vs_delete_k2(past0: bool, past1: bool, first: int, p1: int, p2: int) -> bool:
    """
    pre: 0 <= first <= 1 and 0 <= p1 < p2 <= 110
    post: _
    """
    return _pair(2, 2, past0, past1, first, [(p1, 1 - first), (p2, first)])


@cond(q=240, t=400, engine="coop", encoded=ENCODED, stubs=ASSUMPTIONS[:2], bound=_PB % ("request closing in-method", "request closing in-method", 1), replay=_pair_replay(1, 1), signature=_pair_sig(1, 1))
def closing_request_vs_closing_request_k1(past0: bool, past1: bool, first: int, p1: int) -> bool:
    """
    pre: 0 <= first <= 1 and 0 <= p1 <= 110
    post: _
    """
    return _pair(1, 1, past0, past1, first, [(p1, 1 - first)])


@cond(q=100, t=6000, tiers=("thorough",), engine="coop", encoded=ENCODED, stubs=ASSUMPTIONS[:2], bound=_PB % ("request closing in-method", "request closing in-method", 2), replay=_pair_replay(1, 1), signature=_pair_sig(1, 1))
def closing_request_vs_closing_request_k2(past0: bool, past1: bool, first: int, p1: int, p2: int) -> bool:
    """
    pre: 0 <= first <= 1 and 0 <= p1 < p2 <= 110
    post: _
    """
    return _pair(1, 1, past0, past1, first, [(p1, 1 - first), (p2, first)])


@cond(q=240, t=400, engine="coop", encoded=ENCODED, stubs=ASSUMPTIONS[:2], bound=_PB % ("request closing in-method", "reaper tick", 1), replay=_pair_replay(1, 3), signature=_pair_sig(1, 3))
def closing_request_vs_reaper_k1(past0: bool, past1: bool, first: int, p1: int) -> bool:
    """
    pre: 0 <= first <= 1 and 0 <= p1 <= 110
    post: _
    """
    return _pair(1, 3, past0, past1, first, [(p1, 1 - first)])


@cond(q=100, t=6000, tiers=("thorough",), engine="coop", encoded=ENCODED, stubs=ASSUMPTIONS[:2], bound=_PB % ("request closing in-method", "reaper tick", 2), replay=_pair_replay(1, 3), signature=_pair_sig(1, 3))
def closing_request_vs_reaper_k2(past0: bool, past1: bool, first: int, p1: int, p2: int) -> bool:
    """
    pre: 0 <= first <= 1 and 0 <= p1 < p2 <= 110
    post: _
    """
    return _pair(1, 3, past0, past1, first, [(p1, 1 - first), (p2, first)])


@cond(q=240, t=400, engine="coop", encoded=ENCODED, stubs=ASSUMPTIONS[:2], bound=_PB % ("request closing in-method", "shutdown", 1), replay=_pair_replay(1, 4), signature=_pair_sig(1, 4))
def closing_request_vs_shutdown_k1(past0: bool, past1: bool, first: int, p1: int) -> bool:
    """
    pre: 0 <= first <= 1 and 0 <= p1 <= 110
    post: _
    """
    return _pair(1, 4, past0, past1, first, [(p1, 1 - first)])


@cond(q=100, t=6000, tiers=("thorough",), engine="coop", encoded=ENCODED, stubs=ASSUMPTIONS[:2], bound=_PB % ("request closing in-method", "shutdown", 2), replay=_pair_replay(1, 4), signature=_pair_sig(1, 4))
def closing_request_vs_shutdown_k2(past0: bool, past1: bool, first: int, p1: int, p2: int) -> bool:
    """
    pre: 0 <= first <= 1 and 0 <= p1 < p2 <= 110
    post: _
    """
    return _pair(1, 4, past0, past1, first, [(p1, 1 - first), (p2, first)])


@cond(q=240, t=400, engine="coop", encoded=ENCODED, stubs=ASSUMPTIONS[:2], bound=_PB % ("DELETE", "shutdown", 1), replay=_pair_replay(2, 4), signature=_pair_sig(2, 4))
def delete_vs_shutdown_k1(past0: bool, past1: bool, first: int, p1: int) -> bool:
    """
    pre: 0 <= first <= 1 and 0 <= p1 <= 110
    post: _
    """
    return _pair(2, 4, past0, past1, first, [(p1, 1 - first)])


@cond(q=100, t=6000, tiers=("thorough",), engine="coop", encoded=ENCODED, stubs=ASSUMPTIONS[:2], bound=_PB % ("DELETE", "shutdown", 2), replay=_pair_replay(2, 4), signature=_pair_sig(2, 4))
def delete_vs_shutdown_k2(past0: bool, past1: bool, first: int, p1: int, p2: int) -> bool:
    """
    pre: 0 <= first <= 1 and 0 <= p1 < p2 <= 110
    post: _
    """
    return _pair(2, 4, past0, past1, first, [(p1, 1 - first), (p2, first)])


@cond(q=240, t=400, engine="coop", encoded=ENCODED, stubs=ASSUMPTIONS[:2], bound=_PB % ("reaper tick", "shutdown", 1), replay=_pair_replay(3, 4), signature=_pair_sig(3, 4))
def reaper_vs_shutdown_k1(past0: bool, past1: bool, first: int, p1: int) -> bool:
    """
    pre: 0 <= first <= 1 and 0 <= p1 <= 110
    post: _
    """
    return _pair(3, 4, past0, past1, first, [(p1, 1 - first)])


@cond(q=100, t=6000, tiers=("thorough",), engine="coop", encoded=ENCODED, stubs=ASSUMPTIONS[:2], bound=_PB % ("reaper tick", "shutdown", 2), replay=_pair_replay(3, 4), signature=_pair_sig(3, 4))
def reaper_vs_shutdown_k2(past0: bool, past1: bool, first: int, p1: int, p2: int) -> bool:
    """
    pre: 0 <= first <= 1 and 0 <= p1 < p2 <= 110
    post: _
    """
    return _pair(3, 4, past0, past1, first, [(p1, 1 - first), (p2, first)])



@task(q=90, t=200, engine="coop-validation", encoded=ENCODED, bound="model validation: concrete schedules forced onto genuine threads")
def model_matches_real_threads(budget: float, replay=None) -> dict:
    """Translator validation for the coop encoding (not the deciding step): concrete schedules are run
    on the rewritten generators and then forced onto real threads running the unmodified methods with
    real locks; which requests were dispatched and how often the close hook ran must agree."""
    import random

    rnd = random.Random(SEED)
    cases = []
    for roles in ([0, 0], [1, 0], [0, 2], [0, 3], [0, 4], [2, 3], [1, 2]):
        for _ in range(pick(2, 6)):
            cases.append((roles, [rnd.random() < 0.3, rnd.random() < 0.3], rnd.randint(0, 1), rnd.randint(1, 70)))
    agree, bad, samples = 0, [], []
    attempts: dict = {}
    for roles, past, first, p1 in cases:
        s, world, registry, entry = _scenario(roles, past, first, [(p1, 1 - first)])
        _v, rworld, res = _run_real(roles, past, s)
        forced = (not res["diverged"]) and res["completed"]  # was the recorded schedule really imposed?
        ok = forced and sorted(rworld.dispatched) == sorted(world.dispatched) and rworld.closes == world.closes and not any(res["exceptions"])
        if not forced and attempts.get(repr((roles, past, first, p1)), 0) >= 2:
            continue  # timing: the schedule could not be imposed on the threads; says nothing either way
        if ok:
            agree += 1
            coop.STATS["real_replays_agree"] += 1
        elif attempts.setdefault(repr((roles, past, first, p1)), 0) < 2:
            attempts[repr((roles, past, first, p1))] += 1
            cases.append((roles, past, first, p1))  # the replay is timing-sensitive: retry before calling it a disagreement
        else:
            bad.append({"roles": [ROLES[r] for r in roles], "past": past, "first": first, "p1": p1, "model": [world.dispatched, world.closes], "real": [rworld.dispatched, rworld.closes], "replay": {k: res[k] for k in ("diverged", "completed", "segments")}})
        if len(samples) < 3:
            samples.append({"roles": [ROLES[r] for r in roles], "schedule": {"first": first, "preempt_after_statement": p1}, "segments": res["segments"], "model": {"dispatched": world.dispatched, "closes": world.closes}, "real_threads": {"dispatched": rworld.dispatched, "closes": rworld.closes}})
    return {"verdict": "CONFIRMED" if not bad else "ERROR", "queries": len(cases), "discharged": agree, "solver_s": 0.0, "samples": samples, "detail": f"model/real-thread disagreement: {bad[:2]}" if bad else ""}


# ---- thorough: three threads on one session ------------------------------------------------------


def _triple(roles: list[int], past0: bool, past1: bool, past2: bool, first: int, pre) -> bool:  # type: ignore[no-untyped-def]
    s, world, registry, entry = _scenario(roles, [past0, past1, past2], first, pre)
    return _verdict(s, world, registry, entry, roles, [past0, past1, past2])


def _triple_replay(roles: list[int]):  # type: ignore[no-untyped-def]
    return lambda a: _replay(roles, [a["past0"], a["past1"], a["past2"]], a["first"], [(a["p1"], a["t1"])] + ([(a["p2"], a["t2"])] if "p2" in a else []))


def _triple_sig(roles: list[int]):  # type: ignore[no-untyped-def]
    return lambda a, conc: _signature_for(roles, [a["past0"], a["past1"], a["past2"]], a["first"], [(a["p1"], a["t1"])] + ([(a["p2"], a["t2"])] if "p2" in a else []))


_TB = "threads: %s on one live session; symbolic start thread + %d preemption(s) to any thread at any statement; each thread's clock before/after the TTL"


@cond(q=100, t=6000, tiers=("thorough",), engine="coop", encoded=ENCODED, stubs=ASSUMPTIONS[:2], bound=_TB % ("request + request closing in-method + DELETE", 1), replay=_triple_replay([0, 1, 2]), signature=_triple_sig([0, 1, 2]))
def request_closing_request_delete_k1(past0: bool, past1: bool, past2: bool, first: int, p1: int, t1: int) -> bool:
    """
    pre: 0 <= first <= 2 and 0 <= t1 <= 2 and 0 <= p1 <= 160
    post: _
    """
    return _triple([0, 1, 2], past0, past1, past2, first, [(p1, t1)])


@cond(q=100, t=6000, tiers=("thorough",), engine="coop", encoded=ENCODED, stubs=ASSUMPTIONS[:2], bound=_TB % ("request + DELETE + reaper tick", 1), replay=_triple_replay([0, 2, 3]), signature=_triple_sig([0, 2, 3]))
def request_delete_reaper_k1(past0: bool, past1: bool, past2: bool, first: int, p1: int, t1: int) -> bool:
    """
    pre: 0 <= first <= 2 and 0 <= t1 <= 2 and 0 <= p1 <= 160
    post: _
    """
    return _triple([0, 2, 3], past0, past1, past2, first, [(p1, t1)])


@cond(q=100, t=7500, tiers=("thorough",), engine="coop", encoded=ENCODED, stubs=ASSUMPTIONS[:2], bound=_TB % ("request + request + shutdown", 2), replay=_triple_replay([0, 0, 4]), signature=_triple_sig([0, 0, 4]))
def request_request_shutdown_k2(past0: bool, past1: bool, past2: bool, first: int, p1: int, t1: int, p2: int, t2: int) -> bool:
    """
    pre: 0 <= first <= 2 and 0 <= t1 <= 2 and 0 <= t2 <= 2 and 0 <= p1 < p2 <= 120 and not past0 and not past2
    post: _
    """
    return _triple([0, 0, 4], past0, past1, past2, first, [(p1, t1), (p2, t2)])
