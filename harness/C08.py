"""C08 — client log messages are delivered once, in order, robustly.

(a) xh : the real ``_ClientLogSink`` (``__call__`` / ``flush_contents`` / ``reset``), the real
         ``OutputCollector.emit_client_log_message`` + ``_flush_collector`` and, on the reading side,
         the real ``_dispatch_log_or_error`` under a *symbolic op script*
         {log, open writer, close writer, process turn}: every message reaches the callback exactly
         once, in emission order, before the data batch it precedes, level/text/extras preserved.
         Replayed with genuine Arrow IPC stream writers and the real client reader.
(a') xh: one message with symbolic level / text / extra key+value through
         ``OutputCollector.client_log`` -> ``Message.add_to_metadata`` -> ``_dispatch_log_or_error``
         (json = transparent JSON-value stub, metadata container = transparent mapping so the
         strings stay symbolic): delivered once with level, text and extras preserved.
(b) xh : ``_dispatch_log_or_error`` on ARBITRARY PEER METADATA (duck-typed metadata mapping with
         symbolic bytes; ``json.loads`` = contract stub returning a symbolic JSON value of any
         shape): the function returns, or raises ``RpcError`` and only for level EXCEPTION; no
         other exception type escapes.  One item per input dimension so each defect class gets its
         own counterexample; every counterexample is replayed through a real Arrow IPC stream with
         crafted custom metadata read by the real client reader.
"""

from __future__ import annotations

import json as _real_json
from io import BytesIO

import pyarrow as pa
from pyarrow import ipc

from engine.api import HarnessModelError, cond, pick
from engine.reglob import reglobalize

from vgi_rpc import metadata as md
from vgi_rpc.log import Level, Message
from vgi_rpc.rpc import _types as ty
from vgi_rpc.rpc import _wire as wire
from vgi_rpc.rpc._common import RpcError
from vgi_rpc.utils import IpcValidation, ValidatedReader, empty_batch

PROPERTY = "C08"
ENCODED = [
    wire._ClientLogSink.__call__,
    wire._ClientLogSink.flush_contents,
    wire._ClientLogSink.reset,
    wire._write_message_batch,
    ty.OutputCollector.emit_client_log_message,
    ty.OutputCollector.client_log,
    Message.add_to_metadata,
    wire._dispatch_log_or_error,
]

BOUNDS = (
    "sink/collector: every op script of length <= %d (quick 4 / thorough 5) over 4 ops with concrete messages (five levels, two extras); "
    "content round trip: text <= %d chars (any code point), one extra; "
    "peer metadata: level = the six names or any bytes <= 3, message / server_id / request_id / log_extra = any bytes <= %d (one field at a time), "
    "log_extra as a JSON value of six kinds, depth <= 2, <= 2 object entries, keys from a fixed 11-name alphabet that contains every name the reader or Message reserve."
) % (pick(4, 5), pick(2, 3), pick(2, 3))
OUTSIDE = (
    "Arrow transport of the metadata (only exercised concretely in (a) and in the replays); unary/stream dispatch sites that decide *when* the sink is flushed "
    "(the script models their protocol: flush on open, reset on close, data after flush); user extras named server_id/request_id, which the framework overwrites by design; "
    "text containing lone surrogates (not encodable: refused at emission); on_log callbacks that raise; JSON numbers other than small ints (floats, big ints); object keys outside the alphabet; "
    "fields the framework adds to a delivered message on its own (server_id, request_id, ...): 'extra fields preserved' is judged as every emitted field arriving unchanged; "
    "identity of the delivered batch object (batches are compared by content)."
)
ASSUMPTIONS = [
    "json.loads in (b) is a contract stub: returns the JSON value the harness chose, or raises JSONDecodeError / RecursionError / plain ValueError (int digit limit); the text is not parsed",
    "json in (a') is a transparent carrier (loads(dumps(x)) == x); real json is used in (a) and in every replay",
    "keys of the peer's extra object are drawn from a fixed alphabet by a symbolic index (a symbolic str cannot be a ** keyword under CrossHair)",
    "nested JSON containers carry concrete leaves (engine's symbolic repr model cannot serve str(container))",
]

_SCHEMA = pa.schema([pa.field("v", pa.int64())])
_BATCHES = tuple(pa.RecordBatch.from_pydict({"v": [100 + i]}, schema=_SCHEMA) for i in range(8))
_LEVELS = (Level.ERROR, Level.WARN, Level.INFO, Level.DEBUG, Level.TRACE)
_ALL_LEVELS = tuple(Level)

# ---------------------------------------------------------------------------
# (a) sink + collector under a symbolic op script
# ---------------------------------------------------------------------------

_LOG, _OPEN, _CLOSE, _TURN = 0, 1, 2, 3
_NA = pick(4, 5)


class _Wire:
    """Everything written, in wire order, across the successive IPC writers of one call."""

    def __init__(self) -> None:
        self.items: list = []  # (writer id, batch, custom_metadata)
        self.n_writers = 0

    def new_writer(self) -> "_RecWriter":
        self.n_writers += 1
        return _RecWriter(self, self.n_writers)


class _RecWriter:
    """Recording stand-in for ipc.RecordBatchStreamWriter (environment: the I/O sink)."""

    def __init__(self, wire_: _Wire, wid: int) -> None:
        self._wire = wire_
        self.wid = wid
        self.closed = False

    def write_batch(self, batch, custom_metadata=None, *a, **k):  # type: ignore[no-untyped-def]
        if self.closed:
            raise pa.ArrowInvalid("Destination already closed")  # what the real writer answers
        self._wire.items.append((self.wid, batch, custom_metadata))

    def close(self) -> None:
        self.closed = True

    def __getattr__(self, name: str):  # pragma: no cover
        raise HarnessModelError("ipc writer stub touched through " + name)


def _msg(i: int, via: str) -> Message:
    return Message(_LEVELS[i % 5], "m-%d" % i, k="v-%d" % i, via=via)


class _RealWire:
    """The same, with genuine Arrow IPC stream writers (one in-memory stream per writer): replay only."""

    def __init__(self) -> None:
        self.bufs: list = []

    def new_writer(self):  # type: ignore[no-untyped-def]
        buf = BytesIO()
        self.bufs.append(buf)
        return ipc.new_stream(buf, _SCHEMA)


def _repo_call(fn, *a, **k):  # type: ignore[no-untyped-def]
    """Call repository code from the script driver.  A call the repository's current signature does
    not even accept is the harness being out of date (no verdict), not a failing log delivery."""
    import inspect

    try:
        inspect.signature(fn).bind(*a, **k)
    except TypeError as e:
        raise HarnessModelError("script driver out of date for %s: %s" % (getattr(fn, "__qualname__", fn), e)) from None
    except ValueError:
        pass
    return fn(*a, **k)


def _direct_call(fn, *a, **k):  # type: ignore[no-untyped-def]
    return fn(*a, **k)


def _drive_script(n: int, ops: tuple, w, call=_direct_call) -> list:  # type: ignore[no-untyped-def]
    """Run the op script against the real sink / collector, writing through the writers of ``w``.
    Returns what was emitted: ("log", Message) | ("data", i), in emission order."""
    sink = wire._ClientLogSink(server_id="srv")
    cur = None
    expected: list = []
    for i in range(n):
        op = ops[i]
        if op == _LOG:
            m = _msg(i, "sink")
            expected.append(("log", m))
            call(sink, m)
        elif op == _OPEN:
            if cur is not None:
                cur.close()
                call(sink.reset)
            cur = w.new_writer()
            call(sink.flush_contents, cur, _SCHEMA)
        elif op == _CLOSE:
            if cur is not None:
                cur.close()
                cur = None
                call(sink.reset)
        else:
            # one process() turn: two logs through the collector, then the data batch, flushed
            if cur is None:
                cur = w.new_writer()
                call(sink.flush_contents, cur, _SCHEMA)
            out = call(ty.OutputCollector, _SCHEMA, server_id="srv")
            m = _msg(i, "collector")
            m2 = _msg(i, "collector-2")
            expected.append(("log", m))
            expected.append(("log", m2))
            expected.append(("data", i))
            call(out.emit_client_log_message, m)
            call(out.emit_client_log_message, m2)
            call(out.emit, _BATCHES[i])
            call(wire._flush_collector, cur, out, None, shm=None)
    # the main output stream is always opened before a call returns
    if cur is None:
        cur = w.new_writer()
        call(sink.flush_contents, cur, _SCHEMA)
    cur.close()
    return expected


def _judge_delivery(expected: list, seen: list) -> str | None:
    """C08 on one call: ``seen`` = what the client observed, ("log", Message) | ("data", batch), in order.

    Every emitted message exactly once and in emission order, level / text / extra fields preserved
    (the framework may add fields of its own, e.g. server_id), each before the batch it precedes."""
    want_logs = [m for kind, m in expected if kind == "log"]
    got_logs = [m for kind, m in seen if kind == "log"]
    if len(got_logs) != len(want_logs):
        return "%d log messages emitted, %d delivered" % (len(want_logs), len(got_logs))
    for want, got in zip(want_logs, got_logs):
        if got.level is not want.level or got.message != want.message:
            return "emitted %r, delivered in its place %r" % (want, got)
        gx = got.extra or {}
        for key, val in (want.extra or {}).items():
            if key not in gx or gx[key] != val:
                return "emitted %r, delivered with extra %r" % (want, gx)
    want_data = [i for kind, i in expected if kind == "data"]
    got_data = [b for kind, b in seen if kind == "data"]
    if len(got_data) != len(want_data):
        return "%d data batches emitted, %d delivered" % (len(want_data), len(got_data))
    for i, b in zip(want_data, got_data):
        if not b.equals(_BATCHES[i]):
            return "data batch %d changed on the way" % i
    # before the batch it precedes: the k-th log is seen with no more batches before it than at emission
    def _batches_before_each_log(seq: list) -> list:
        out, nb = [], 0
        for kind, _ in seq:
            if kind == "data":
                nb += 1
            else:
                out.append(nb)
        return out

    for j, (at_emission, at_delivery) in enumerate(zip(_batches_before_each_log(expected), _batches_before_each_log(seen))):
        if at_delivery > at_emission:
            return "log message #%d (%r) was delivered after a batch it precedes" % (j, want_logs[j].message)
    return None


def _sink_script(n: int, ops: tuple) -> bool:
    w = _Wire()
    try:
        expected = _drive_script(n, ops, w)
    except Exception:  # noqa: BLE001
        return False
    # ---- the client side: real classification of every batch, in wire order ----
    seen: list = []
    try:
        for _wid, batch, cm in w.items:
            if not wire._dispatch_log_or_error(batch, cm, lambda m: seen.append(("log", m))):
                seen.append(("data", batch))
    except Exception:  # noqa: BLE001
        return False
    return _judge_delivery(expected, seen) is None


def _replay_sink_script(args: dict) -> str | None:
    """Un-stubbed: the same script with genuine Arrow IPC stream writers; every stream is read back by
    the real client reader (``_read_batch_with_log_check`` with an on_log callback)."""
    ops = (args["o0"], args["o1"], args["o2"], args["o3"], args["o4"])
    w = _RealWire()
    names = {_LOG: "log", _OPEN: "open", _CLOSE: "close", _TURN: "turn"}
    shown = [names[o] for o in ops[: args["n"]]]
    try:
        expected = _drive_script(args["n"], ops, w, call=_repo_call)
    except HarnessModelError:
        raise
    except Exception as e:  # noqa: BLE001
        return "script %s: emitting / flushing the client log messages failed with %r" % (shown, e)
    seen: list = []
    for buf in w.bufs:
        rd = ValidatedReader(ipc.open_stream(BytesIO(buf.getvalue())), IpcValidation.FULL)
        while True:
            try:
                ab = wire._read_batch_with_log_check(rd, lambda m: seen.append(("log", m)))
            except StopIteration:
                break
            except Exception as e:  # noqa: BLE001
                return "script %s: the client failed reading the call's output: %r" % (shown, e)
            seen.append(("data", ab.batch))
    problem = _judge_delivery(expected, seen)
    return None if problem is None else "script %s: %s" % (shown, problem)


@cond(q=150, t=400, encoded=ENCODED, bound="op scripts of length <= %d over {log, open writer, close writer+reset, process turn}" % _NA,
      stubs=["ipc writer := recording list shared by the successive writers of a call (write after close raises ArrowInvalid, as the real writer does)"],
      replay=_replay_sink_script, signature=lambda a, c: "C08:sink-script:log-lost-duplicated-or-reordered")
def sink_script(n: int, o0: int, o1: int, o2: int, o3: int, o4: int) -> bool:
    """
    pre: 0 <= n <= _NA
    pre: 0 <= o0 <= 3 and 0 <= o1 <= 3 and 0 <= o2 <= 3 and 0 <= o3 <= 3 and 0 <= o4 <= 3
    post: _
    """
    return _sink_script(n, (o0, o1, o2, o3, o4))


# ---------------------------------------------------------------------------
# shared stubs: metadata container and json
# ---------------------------------------------------------------------------


class _MD:
    """Duck-typed ``pa.KeyValueMetadata``: concrete bytes keys, values = (symbolic) bytes."""

    def __init__(self, pairs: tuple) -> None:
        self._pairs = pairs

    def get(self, key, default=None):  # type: ignore[no-untyped-def]
        for k, v in self._pairs:
            if k == key:
                return v
        return default

    def items(self):  # type: ignore[no-untyped-def]
        return list(self._pairs)

    # the other read accessors of a mapping: md[key] / key in md / iteration are the same model
    def __getitem__(self, key):  # type: ignore[no-untyped-def]
        for k, v in self._pairs:
            if k == key:
                return v
        raise KeyError(key)

    def __contains__(self, key) -> bool:  # type: ignore[no-untyped-def]
        return any(k == key for k, _ in self._pairs)

    def keys(self):  # type: ignore[no-untyped-def]
        return [k for k, _ in self._pairs]

    def __iter__(self):  # type: ignore[no-untyped-def]
        return iter(self.keys())

    def __len__(self) -> int:
        return len(self._pairs)

    def __getattr__(self, name: str):  # pragma: no cover
        raise HarnessModelError("metadata stub touched through " + name)


class _ZeroRowBatch:
    num_rows = 0

    def __len__(self) -> int:
        return 0

    def __getattr__(self, name: str):  # pragma: no cover
        raise HarnessModelError("batch stub touched through " + name)


_J: dict = {"mode": 0, "value": None, "token": None}
_J_VALUE, _J_DECODE_ERROR, _J_RECURSION, _J_VALUE_ERROR = 0, 1, 2, 3


class _PeerJson:
    """``json`` as seen by the reader: ``loads`` yields *some* JSON value, or fails the way the
    real decoder can (JSONDecodeError; RecursionError on deeply nested input; a plain ValueError
    for an integer literal over the int/str conversion limit)."""

    JSONDecodeError = _real_json.JSONDecodeError

    def loads(self, text, *a, **k):  # type: ignore[no-untyped-def]
        if _J["mode"] == _J_DECODE_ERROR:
            raise _real_json.JSONDecodeError("not json", "", 0)
        if _J["mode"] == _J_RECURSION:
            raise RecursionError("maximum recursion depth exceeded while decoding a JSON array")
        if _J["mode"] == _J_VALUE_ERROR:
            # syntactically valid JSON the decoder still refuses with a plain ValueError (not a JSONDecodeError):
            # an integer literal beyond the interpreter's int<->str conversion limit (sys.get_int_max_str_digits())
            raise ValueError("Exceeds the limit (4300 digits) for integer string conversion: value has 5000 digits")
        return _J["value"]

    def __getattr__(self, name: str):  # pragma: no cover
        raise HarnessModelError("json stub touched through " + name)


_dispatch_peer = reglobalize(wire._dispatch_log_or_error, json=_PeerJson())
_JSON_STUB = "json.loads := returns the symbolic JSON value chosen by the harness | JSONDecodeError | RecursionError | plain ValueError (text ignored)"
_MD_STUB = "pa.KeyValueMetadata := mapping with .get over concrete keys and symbolic bytes values; batch := object with num_rows == 0"

_LEVEL_BYTES = tuple(lv.value.encode() for lv in _ALL_LEVELS)
_EXC = Level.EXCEPTION.value.encode()
# extra keys a peer may use; the first four collide with names the reader/Message use itself
_KEYS_RESERVED = ("level", "message", "self", "server_id", "request_id")
_KEYS_FREE = ("x", "exception_type", "traceback", "error_kind", "frames", "")
_KEYS_ALL = _KEYS_RESERVED + _KEYS_FREE


def _run_peer(pairs: tuple) -> tuple:
    """(outcome, n delivered): outcome in {'consumed', 'data', 'rpcerror', 'other:<Type>'}."""
    logs: list = []
    try:
        r = _dispatch_peer(_ZeroRowBatch(), _MD(pairs), logs.append)
    except RpcError:
        return "rpcerror", len(logs)
    except Exception as e:  # noqa: BLE001
        return "other:" + type(e).__name__, len(logs)
    return ("consumed" if r else "data"), len(logs)


def _ok(outcome: str, delivered: int, is_exception_level: bool) -> bool:
    """The property: delivered or ignored; RpcError only (and always) for level EXCEPTION."""
    if is_exception_level:
        return outcome == "rpcerror" and delivered == 0
    return outcome in ("consumed", "data") and delivered <= 1


# --- real replay: a genuine Arrow IPC stream with crafted custom metadata, real reader --------


def _real_read(kv: dict) -> str:
    b = BytesIO()
    with ipc.new_stream(b, _SCHEMA) as w:
        w.write_batch(empty_batch(_SCHEMA), custom_metadata=pa.KeyValueMetadata(kv))
        w.write_batch(_BATCHES[0])
    rd = ValidatedReader(ipc.open_stream(BytesIO(b.getvalue())), IpcValidation.FULL)
    logs: list = []
    try:
        ab = wire._read_batch_with_log_check(rd, logs.append)
    except RpcError:
        return "rpcerror"
    except Exception as e:  # noqa: BLE001
        return "other:%s: %s" % (type(e).__name__, str(e)[:120])
    return "data" if ab.batch.equals(_BATCHES[0]) else "other:wrong batch"


def _real_verdict(kv: dict) -> str | None:
    got = _real_read(kv)
    is_exc = kv.get(md.LOG_LEVEL_KEY) == _EXC
    if got == ("rpcerror" if is_exc else "data"):
        return None
    shown = {k.decode(): (v if len(v) <= 40 else v[:40] + b"...") for k, v in kv.items()}
    return "reading a log batch with custom metadata %r failed the call with %s" % (shown, got[6:] if got.startswith("other:") else got)


# ---------------------------------------------------------------------------
# (b1) log_extra is a JSON value of any shape (keys do not collide with reserved names)
# ---------------------------------------------------------------------------


def _leaf(kind: int, b: bool, n: int, s: str):  # type: ignore[no-untyped-def]
    if kind == 0:
        return None
    if kind == 1:
        return b
    if kind == 2:
        return n
    if kind == 3:
        return s
    # nested containers carry concrete leaves: str(container) of a symbolic str/int goes through
    # the C-level repr, which the engine's symbolic-repr model cannot serve (TypeError artefact)
    if kind == 4:
        return ["t", 7]
    return {"x": "t"}


def _lvl(exc: bool) -> bytes:
    return _EXC if exc else b"INFO"


def _json_value(k: int, ek: int, b: bool, n: int, s: str, nk: int, k1: int):  # type: ignore[no-untyped-def]
    if k <= 3:
        return _leaf(k, b, n, s)
    if k == 4:
        return [_leaf(ek, b, n, s)] if nk else []
    d = {}
    if nk >= 1:
        d[_KEYS_FREE[k1]] = _leaf(ek, b, n, s)
    if nk >= 2:
        d["y"] = s
    return d


def _replay_any_json(args: dict) -> str | None:
    v = _json_value(args["k"], args["ek"], args["b"], args["n"], args["s"], args["nk"], args["k1"])
    return _real_verdict({md.LOG_LEVEL_KEY: _LEVEL_BYTES[args["li"]], md.LOG_MESSAGE_KEY: b"msg", md.LOG_EXTRA_KEY: _real_json.dumps(v).encode()})


@cond(q=60, t=120, encoded=[wire._dispatch_log_or_error], stubs=[_JSON_STUB, _MD_STUB], replay=_replay_any_json,
      signature=lambda a, c: "C08:peer-extra:non-object-json" if a["k"] <= 4 else "C08:peer-extra:object-with-any-json-values",
      bound="all six levels; log_extra = null | bool | int(-9..99) | str(len<=2) | list(<=1 element) | object(<=2 entries, non-reserved keys), elements/values of the same six kinds (nested containers concrete)")
def peer_extra_any_json_value(li: int, k: int, ek: int, b: bool, n: int, s: str, nk: int, k1: int) -> bool:
    """
    pre: 0 <= li <= 5 and 0 <= k <= 5 and 0 <= ek <= 5 and 0 <= nk <= 2 and len(s) <= 2 and 0 <= k1 <= 5
    pre: -9 <= n <= 99
    post: _
    """
    _J["mode"] = _J_VALUE
    _J["value"] = _json_value(k, ek, b, n, s, nk, k1)
    lvl = _LEVEL_BYTES[li]
    outcome, delivered = _run_peer(((md.LOG_LEVEL_KEY, lvl), (md.LOG_MESSAGE_KEY, b"msg"), (md.LOG_EXTRA_KEY, b"J")))
    return _ok(outcome, delivered, lvl == _EXC)


# ---------------------------------------------------------------------------
# (b2) log_extra is an object whose keys may be 'level', 'message', 'self', 'server_id', ...
# ---------------------------------------------------------------------------


_KEYS_SECOND = _KEYS_RESERVED


def _obj(nk: int, k1: int, k2: int, v1sym: bool, v1: str) -> dict:
    d: dict = {}
    if nk >= 1:
        d[_KEYS_ALL[k1]] = v1 if v1sym else ["t", 7]
    if nk >= 2:
        d[_KEYS_SECOND[k2]] = "w"
    return d


def _replay_reserved(args: dict) -> str | None:
    d = _obj(args["nk"], args["k1"], args["k2"], args["v1sym"], args["v1"])
    kv = {md.LOG_LEVEL_KEY: _lvl(args["exc"]), md.LOG_MESSAGE_KEY: b"msg", md.LOG_EXTRA_KEY: _real_json.dumps(d).encode()}
    if args["ids"]:
        kv[md.SERVER_ID_KEY] = b"srv"
        kv[md.REQUEST_ID_KEY] = b"req"
    return _real_verdict(kv)


@cond(q=60, t=180, encoded=[wire._dispatch_log_or_error, Message.__init__], stubs=[_JSON_STUB, _MD_STUB], replay=_replay_reserved,
      signature=lambda a, c: "C08:peer-extra:reserved-key",
      bound="level EXCEPTION or INFO; log_extra = object with <= 2 entries: first key any of %r (value str len<=2 | list), second key any of %r; server_id+request_id metadata present or absent" % (_KEYS_ALL, _KEYS_SECOND))
def peer_extra_object_any_keys(exc: bool, nk: int, k1: int, k2: int, v1sym: bool, v1: str, ids: bool) -> bool:
    """
    pre: 0 <= nk <= 2 and 0 <= k1 <= 10 and 0 <= k2 <= 4 and len(v1) <= 2
    post: _
    """
    _J["mode"] = _J_VALUE
    _J["value"] = _obj(nk, k1, k2, v1sym, v1)
    pairs = [(md.LOG_LEVEL_KEY, _lvl(exc)), (md.LOG_MESSAGE_KEY, b"msg"), (md.LOG_EXTRA_KEY, b"J")]
    if ids:
        pairs.append((md.SERVER_ID_KEY, b"srv"))
        pairs.append((md.REQUEST_ID_KEY, b"req"))
    outcome, delivered = _run_peer(tuple(pairs))
    return _ok(outcome, delivered, exc)


# ---------------------------------------------------------------------------
# (b3) a level outside the six names
# ---------------------------------------------------------------------------


def _replay_level(args: dict) -> str | None:
    return _real_verdict({md.LOG_LEVEL_KEY: args["level"], md.LOG_MESSAGE_KEY: args["message"]})


@cond(q=40, t=120, encoded=[wire._dispatch_log_or_error], stubs=[_MD_STUB], replay=_replay_level,
      signature=lambda a, c: "C08:peer-level:unknown",
      bound="level = any UTF-8 decodable bytes of length <= 3 (none of the six level names is that short), message any decodable bytes <= 3")
def peer_unknown_level(level: bytes, message: bytes) -> bool:
    """
    pre: len(level) <= 3 and len(message) <= 3
    post: _
    """
    try:
        level.decode()
        message.decode()
    except UnicodeDecodeError:
        return True  # undecodable bytes are the subject of peer_undecodable_bytes
    outcome, delivered = _run_peer(((md.LOG_LEVEL_KEY, level), (md.LOG_MESSAGE_KEY, message)))
    return _ok(outcome, delivered, False)


# ---------------------------------------------------------------------------
# (b4) bytes that are not UTF-8 in any of the values the reader decodes
# ---------------------------------------------------------------------------


_F_LEVEL, _F_MESSAGE, _F_SERVER_ID, _F_REQUEST_ID, _F_EXTRA = 0, 1, 2, 3, 4


def _bytes_pairs(exc: bool, which: int, raw: bytes, others: bool) -> list:
    lvl = raw if which == _F_LEVEL else _lvl(exc)
    pairs = [(md.LOG_LEVEL_KEY, lvl), (md.LOG_MESSAGE_KEY, raw if which == _F_MESSAGE else b"msg")]
    if which == _F_SERVER_ID or others:
        pairs.append((md.SERVER_ID_KEY, raw if which == _F_SERVER_ID else b"srv"))
    if which == _F_REQUEST_ID or others:
        pairs.append((md.REQUEST_ID_KEY, raw if which == _F_REQUEST_ID else b"req"))
    if which == _F_EXTRA or others:
        pairs.append((md.LOG_EXTRA_KEY, raw if which == _F_EXTRA else b"{}"))
    return pairs


def _replay_bytes(args: dict) -> str | None:
    return _real_verdict(dict(_bytes_pairs(args["exc"], args["which"], args["raw"], args["others"])))


@cond(q=100, t=180, encoded=[wire._dispatch_log_or_error], stubs=[_JSON_STUB + " (here: {} or JSONDecodeError)", _MD_STUB], replay=_replay_bytes,
      signature=lambda a, c: "C08:peer-bytes:not-utf8",
      bound="one of level / message / server_id / request_id / log_extra carries ANY bytes of length <= %d, the other values are well-formed (present or absent); level EXCEPTION or INFO" % pick(2, 3))
def peer_undecodable_bytes(exc: bool, which: int, raw: bytes, others: bool, extra_is_json: bool) -> bool:
    """
    pre: 0 <= which <= 4 and len(raw) <= _NB
    post: _
    """
    _J["mode"] = _J_VALUE if extra_is_json else _J_DECODE_ERROR
    _J["value"] = {}
    pairs = _bytes_pairs(exc, which, raw, others)
    outcome, delivered = _run_peer(tuple(pairs))
    return _ok(outcome, delivered, pairs[0][1] == _EXC)


_NB = pick(2, 3)


# ---------------------------------------------------------------------------
# (b5) the ways the JSON decoder itself can fail
# ---------------------------------------------------------------------------


def _replay_decoder(args: dict) -> str | None:
    import sys

    digits = b"9" * (max(sys.get_int_max_str_digits(), 640) + 700)  # over the limit whatever it is set to (0 = unlimited: then no failure to replay)
    text = {_J_VALUE: b"{}", _J_DECODE_ERROR: b"{not json", _J_RECURSION: b"[" * 200000, _J_VALUE_ERROR: b'{"rows": ' + digits + b', "t": [' + digits + b"]}"}[args["jm"]]
    return _real_verdict({md.LOG_LEVEL_KEY: _LEVEL_BYTES[args["li"]], md.LOG_MESSAGE_KEY: b"msg", md.LOG_EXTRA_KEY: text})


@cond(q=20, t=60, encoded=[wire._dispatch_log_or_error], stubs=[_JSON_STUB, _MD_STUB], replay=_replay_decoder,
      signature=lambda a, c: "C08:peer-extra:" + ("decoder-recursion", "decoder-recursion", "decoder-recursion", "decoder-plain-valueerror")[a["jm"]],
      bound="all six levels x json.loads outcome in {object, JSONDecodeError, RecursionError, plain ValueError (integer literal over the int/str digit limit)}")
def peer_extra_decoder_failure(li: int, jm: int) -> bool:
    """
    pre: 0 <= li <= 5 and 0 <= jm <= 3
    post: _
    """
    _J["mode"] = jm
    _J["value"] = {}
    lvl = _LEVEL_BYTES[li]
    outcome, delivered = _run_peer(((md.LOG_LEVEL_KEY, lvl), (md.LOG_MESSAGE_KEY, b"msg"), (md.LOG_EXTRA_KEY, b"J")))
    return _ok(outcome, delivered, lvl == _EXC)


# ---------------------------------------------------------------------------
# (a') content preservation: one symbolic message, server side -> wire metadata -> client side
# ---------------------------------------------------------------------------

_T: dict = {"obj": None}


class _TransparentJson:
    """``json`` as a transparent value carrier: loads(dumps(x)) == x (x: dict with str keys and
    JSON-representable values); the text itself is an opaque token."""

    JSONDecodeError = _real_json.JSONDecodeError

    def dumps(self, obj, *a, **k):  # type: ignore[no-untyped-def]
        # (formatting options such as default= / separators= do not change the value carried)
        _T["obj"] = obj
        return "J"

    def loads(self, text, *a, **k):  # type: ignore[no-untyped-def]
        if isinstance(text, (bytes, bytearray)):  # json.loads takes the UTF-8 bytes as well
            text = bytes(text).decode()
        if text != "J" or _T["obj"] is None:
            raise _real_json.JSONDecodeError("not the token", "", 0)
        return dict(_T["obj"])

    def __getattr__(self, name: str):  # pragma: no cover
        raise HarnessModelError("json stub touched through " + name)


_TJ = _TransparentJson()


def _encode_md(metadata: dict) -> _MD:
    """``encode_metadata`` without the Arrow container: same key/value encoding, kept symbolic."""
    return _MD(tuple((k.encode(), v.encode()) for k, v in metadata.items()))


class _Msg(Message):
    add_to_metadata = reglobalize(Message.add_to_metadata, json=_TJ)


class _Collector(ty.OutputCollector):
    client_log = reglobalize(ty.OutputCollector.client_log, Message=_Msg)
    emit_client_log_message = reglobalize(ty.OutputCollector.emit_client_log_message, encode_metadata=_encode_md)


_write_message_batch_rt = reglobalize(wire._write_message_batch, encode_metadata=_encode_md)
_dispatch_rt = reglobalize(wire._dispatch_log_or_error, json=_TJ)
_RT_STUBS = [
    "json := transparent carrier, loads(dumps(x)) == x",
    "encode_metadata / pa.KeyValueMetadata := same str->bytes encoding into a mapping with .get (Arrow container not involved)",
]


def _replay_roundtrip(args: dict) -> str | None:
    """Un-stubbed: real OutputCollector / sink, real Arrow IPC bytes, real reader."""
    lvl = _LEVELS[args["li"]]
    extra = {_KEYS_FREE[args["ki"]]: args["val"]} if args["has_extra"] else {}
    try:
        m = Message(lvl, args["text"], **extra)
        buf = BytesIO()
        with ipc.new_stream(buf, _SCHEMA) as w:
            if args["via_sink"]:
                sink = wire._ClientLogSink(server_id="srv" if args["has_sid"] else None)
                sink(m)
                sink.flush_contents(w, _SCHEMA)
            else:
                out = ty.OutputCollector(_SCHEMA, server_id="srv" if args["has_sid"] else None)
                out.client_log(lvl, args["text"], **extra)
                out.emit(_BATCHES[0])
                wire._flush_collector(w, out, None, shm=None)
            if args["via_sink"]:
                w.write_batch(_BATCHES[0])
    except UnicodeEncodeError:
        return None  # not Unicode text: refused at emission
    rd = ValidatedReader(ipc.open_stream(BytesIO(buf.getvalue())), IpcValidation.FULL)
    logs: list = []
    try:
        wire._read_batch_with_log_check(rd, logs.append)
    except Exception as e:  # noqa: BLE001
        return "reading back a log emitted by the Python server failed: %r" % e
    want = dict(extra)
    # "extra fields preserved": every emitted field arrives unchanged (the framework may add its own, e.g. server_id)
    if len(logs) != 1 or logs[0].level is not lvl or logs[0].message != args["text"] or not _extras_preserved(want, logs[0].extra):
        return "emitted %r, client callback saw %r" % (m, logs)
    return None


def _extras_preserved(want: dict, got) -> bool:  # type: ignore[no-untyped-def]
    got = got or {}
    for k, v in want.items():
        if k not in got or got[k] != v:
            return False
    return True


_RT_ENCODED = [ty.OutputCollector.client_log, ty.OutputCollector.emit_client_log_message, wire._write_message_batch, Message.add_to_metadata, wire._dispatch_log_or_error]


def _roundtrip(via_sink: bool, li: int, text: str, has_extra: bool, ki: int, val: str, has_sid: bool) -> bool:
    lvl = _LEVELS[li]
    sid = "srv" if has_sid else None
    _T["obj"] = None
    extra = {}
    if has_extra:
        extra[_KEYS_FREE[ki]] = val
    try:
        if via_sink:
            w = _Wire().new_writer()
            _write_message_batch_rt(w, _SCHEMA, _Msg(lvl, text, **extra), server_id=sid)
            batch, cm = w._wire.items[0][1], w._wire.items[0][2]
        else:
            out = _Collector(_SCHEMA, server_id=sid)
            out.client_log(lvl, text, **extra)
            ab = out.batches[0]
            batch, cm = ab.batch, ab.custom_metadata
    except UnicodeEncodeError:
        return True  # lone surrogates are not Unicode text; refused at emission, nothing to deliver
    except Exception:  # noqa: BLE001
        return False
    logs: list = []
    try:
        consumed = _dispatch_rt(batch, cm, logs.append)
    except Exception:  # noqa: BLE001
        return False
    if not consumed or len(logs) != 1:
        return False
    got = logs[0]
    if got.level is not lvl or got.message != text:
        return False
    return _extras_preserved(extra, got.extra)


def _replay_rt_text(args: dict) -> str | None:
    return _replay_roundtrip(dict(args, li=2, ki=0))


def _replay_rt_level(args: dict) -> str | None:
    return _replay_roundtrip(dict(args, text="text", val="v", has_extra=args["ki"] < 6))


_NT = pick(2, 3)


@cond(q=60, t=240, encoded=_RT_ENCODED, stubs=_RT_STUBS, replay=_replay_rt_text, signature=lambda a, c: "C08:roundtrip:text-changed",
      bound="one INFO message: text any str len<=%d, zero or one extra 'x' with value any str len<=1, server_id set or not; through the collector or the sink" % _NT)
def log_text_roundtrip(via_sink: bool, text: str, has_extra: bool, val: str, has_sid: bool) -> bool:
    """
    pre: len(text) <= _NT and len(val) <= 1
    post: _
    """
    return _roundtrip(via_sink, 2, text, has_extra, 0, val, has_sid)


@cond(q=30, t=60, encoded=_RT_ENCODED, stubs=_RT_STUBS, replay=_replay_rt_level, signature=lambda a, c: "C08:roundtrip:level-or-key-changed",
      bound="one message with fixed text: every non-EXCEPTION level x (no extra | one extra with any key of %r), server_id set or not; collector or sink" % (_KEYS_FREE,))
def log_level_key_roundtrip(via_sink: bool, li: int, ki: int, has_sid: bool) -> bool:
    """
    pre: 0 <= li <= 4 and 0 <= ki <= 6
    post: _
    """
    return _roundtrip(via_sink, li, "text", ki < 6, ki if ki < 6 else 0, "v", has_sid)


# ---------------------------------------------------------------------------
# (c) HTTP producer turns: logs emitted through ctx or through the collector, on any produce()
#     call of any turn (including a tick that finishes without emitting data), reach the client
#     once, in order, before the batch they precede
# ---------------------------------------------------------------------------
# The real _run_http_producer_turn (several produce() calls may share one HTTP turn, depending on
# max_response_bytes), real pyarrow; the step script, the log route of every step and the cap are
# symbolic.  The client side follows continuation tokens the way HttpStreamSession.__iter__ does.

from dataclasses import dataclass  # noqa: E402

from vgi_rpc.http.server import _app_stream as aps  # noqa: E402
from typing import Protocol  # noqa: E402

from vgi_rpc.rpc import ProducerState, Stream  # noqa: E402
from vgi_rpc.rpc._common import _EMPTY_SCHEMA, AuthContext  # noqa: E402

_P: dict = {"script": (0, 0, 0), "n": 0, "i": 0, "fr": 0, "nr": 3}
_ROUTE_NONE, _ROUTE_CTX, _ROUTE_OUT, _ROUTE_OUT_CTX, _ROUTE_CTX_OUT = 0, 1, 2, 3, 4  # the last two: both handles in one tick
_CAPS = (None, 1, 1_000_000)  # one produce() per turn (no cap / tiny cap) or all of them in one turn


def _route_handles(route: int) -> str:
    """The handles a tick logs through, in emission order: 'c' = ctx.client_log, 'o' = out.client_log."""
    return ("", "c", "o", "oc", "co")[route]


def _log_names(route: int, i: int) -> list:
    return ["m-%d%s" % (i, "ab"[j]) if j else "m-%d" % i for j in range(len(_route_handles(route)))]


def _emit_log(route: int, i: int, out, ctx) -> None:  # type: ignore[no-untyped-def]
    for h, name in zip(_route_handles(route), _log_names(route, i)):
        (ctx if h == "c" else out).client_log(Level.INFO, name)


@dataclass
class _LoggingProducer(ProducerState):
    """Step k (nr = number of log routes in play): log route k % nr, then k // nr = emit | emit + finish |
    finish without data.  After the script: a finishing tick without data that logs through route ``fr``."""

    def produce(self, out, ctx) -> None:  # type: ignore[no-untyped-def]
        i = _P["i"]
        _P["i"] = i + 1
        if i >= _P["n"]:
            _emit_log(_P["fr"], i, out, ctx)
            out.finish()
            return
        nr = _P["nr"]
        k = _P["script"][i]
        _emit_log(k % nr, i, out, ctx)
        if k < 2 * nr:
            out.emit(_BATCHES[i])
        if k >= nr:
            out.finish()


class _TurnServer:
    server_id = "srv"
    protocol_name = "P"
    external_config = None
    transport_kind = None
    implementation = None

    def __getattr__(self, name: str):  # pragma: no cover
        raise HarnessModelError("server stub touched through " + name)


class _TurnApp:
    _server = _TurnServer()
    _max_externalized_response_bytes = None
    _token_key = b"k" * 32
    _state_types = {"gen": _LoggingProducer}

    def __init__(self, cap) -> None:  # type: ignore[no-untyped-def]
        self._max_response_bytes = cap

    def __getattr__(self, name: str):  # pragma: no cover
        raise HarnessModelError("HTTP app stub touched through " + name)


def _stub_mint_cursor(*a, **k):  # type: ignore[no-untyped-def]
    """Ideal AEAD: an opaque token that (on the next turn) opens to the same state."""
    return b"CURSOR", b"state"


_producer_turn_rg = reglobalize(aps._run_http_producer_turn, _mint_cursor_token=_stub_mint_cursor)


def _expected_sequence(n: int, script: tuple, fr: int, nr: int = 3, init_log: bool = False) -> list:
    want: list = [("log", "init")] if init_log else []
    for i in range(n):
        k = script[i]
        want.extend(("log", name) for name in _log_names(k % nr, i))
        if k < 2 * nr:
            want.append(("data", i))
        if k >= nr:
            return want
    want.extend(("log", name) for name in _log_names(fr, n))  # emitted in the finishing tick, after the last batch
    return want


def _drive_producer_turns(cap, n: int, script: tuple, fr: int, nr: int = 3, init_turn: bool = False):  # type: ignore[no-untyped-def]
    """``init_turn``: the first turn is the one folded into /init -- it is handed the call's _ClientLogSink,
    already holding the init method's own log, as _run_http_stream_init does; later turns get no sink."""
    _P["script"] = script
    _P["fr"] = fr
    _P["nr"] = nr
    _P["n"] = n
    _P["i"] = 0
    app = _TurnApp(cap)
    seen: list = []
    logs: list = []
    for _turn in range(8):
        kw = {}
        if init_turn and _turn == 0:
            sink = wire._ClientLogSink(server_id="srv")
            sink(Message(Level.INFO, "init"))
            kw["sink"] = sink
        body = _producer_turn_rg(
            app, schema=_SCHEMA, state=_LoggingProducer(), input_schema=_EMPTY_SCHEMA, method_name="gen", stream_id="sid", call_id=b"c",
            auth=AuthContext.anonymous(), transport_metadata={}, outcome=aps._DispatchOutcome(), **kw,
        )
        rd = ValidatedReader(ipc.open_stream(body), IpcValidation.FULL)
        token = None
        while True:
            try:
                batch, cm = rd.read_next_batch_with_custom_metadata()
            except StopIteration:
                break
            if batch.num_rows == 0 and cm is not None and cm.get(md.STATE_KEY) is not None:
                token = cm.get(md.STATE_KEY)
                continue
            before = len(logs)
            if wire._dispatch_log_or_error(batch, cm, logs.append):
                if len(logs) != before + 1:
                    return None
                seen.append(("log", logs[-1].message))
            else:
                seen.append(("data", batch))
        if token is None:
            return seen
    return None  # never finished


class _LogProto(Protocol):
    def gen(self) -> Stream[ProducerState]: ...


class _LogImpl:
    def gen(self, ctx) -> Stream[_LoggingProducer]:  # type: ignore[no-untyped-def]
        if _P.get("init_log"):
            ctx.client_log(Level.INFO, "init")
        return Stream(output_schema=_SCHEMA, state=_LoggingProducer())


def _replay_http_producer(args: dict, nr: int = 3, init_log: bool = False) -> str | None:
    """Un-stubbed: the real HTTP stack (falcon WSGI app, real tokens) and the real client session with on_log."""
    from vgi_rpc.http import http_connect, make_sync_client
    from vgi_rpc.rpc import RpcServer

    P, Impl = _LogProto, _LogImpl
    script = (args["s0"], args["s1"], args.get("s2", 0))
    _P.update(script=script, n=args["n"], i=0, fr=args["fr"], nr=nr, init_log=init_log)
    seen: list = []
    client = make_sync_client(RpcServer(P, Impl(), server_id="srv"), token_key=b"k" * 32, max_response_bytes=_CAPS[args["cap"]])
    try:
        with http_connect(P, client=client, on_log=lambda m: seen.append(("log", m.message))) as proxy:
            for ab in proxy.gen():
                seen.append(("data", ab.batch.column(0)[0].as_py() - 100))
    finally:
        _P["init_log"] = False
    want = _expected_sequence(args["n"], script, args["fr"], nr, init_log)
    # the session pre-loads a whole turn, so callbacks may run ahead of the yields: compare what the
    # property states (each log once, in order, before the batch it precedes; data in order)
    ok = [x for x in seen if x[0] == "log"] == [x for x in want if x[0] == "log"] and [x for x in seen if x[0] == "data"] == [x for x in want if x[0] == "data"]
    if ok:
        nxt = None  # the first data batch after want[j]
        for item in reversed(want):
            if item[0] == "data":
                nxt = item
            elif nxt is not None and seen.index(item) > seen.index(nxt):
                ok = False
    if not ok:
        return "HTTP producer (max_response_bytes=%r) emitted %r; the client saw %r" % (_CAPS[args["cap"]], want, seen)
    return None


def _judge_producer(seen, want: list) -> bool:  # type: ignore[no-untyped-def]
    if seen is None or len(seen) != len(want):
        return False
    for j in range(len(want)):
        kind, v = want[j]
        gkind, g = seen[j]
        if kind != gkind:
            return False
        if kind == "log":
            if g != v:
                return False
        elif not g.equals(_BATCHES[v]):
            return False
    return True


_NH = pick(2, 3)


def _replay_http_init_turn(args: dict) -> str | None:
    return _replay_http_producer(args, nr=5, init_log=True)


@cond(q=150, t=600, encoded=[aps._run_http_producer_turn, wire._ClientLogSink.__call__, wire._ClientLogSink.flush_contents, ty.OutputCollector.emit_client_log_message, wire._flush_collector, wire._dispatch_log_or_error],
      stubs=["_mint_cursor_token := opaque token that opens to the same state (ideal AEAD)", "_HttpRpcApp := object with the attributes the turn reads"],
      replay=_replay_http_init_turn, signature=lambda a, c: "C08:http-producer:init-turn-or-mixed-handles",
      bound="the producer's first turn is the init turn (it receives the call's log sink holding the init method's own log); scripts of <= %d steps, each step logging through "
            "ctx | the collector | collector then ctx | ctx then collector | not at all, then emitting | emitting and finishing | finishing without data; "
            "the trailing finishing tick logs through any of the five routes; max_response_bytes in {None, 1, 1e6}" % _NH)
def http_producer_init_turn_both_handles(cap: int, n: int, s0: int, s1: int, s2: int, fr: int) -> bool:
    """
    pre: 0 <= cap <= 2 and 0 <= n <= _NH and 0 <= fr <= 4
    pre: 0 <= s0 <= 14 and 0 <= s1 <= 14 and 0 <= s2 <= 14
    post: _
    """
    try:
        seen = _drive_producer_turns(_CAPS[cap], n, (s0, s1, s2), fr, nr=5, init_turn=True)
    except Exception:  # noqa: BLE001
        return False
    return _judge_producer(seen, _expected_sequence(n, (s0, s1, s2), fr, 5, True))


@cond(q=150, t=400, encoded=[aps._run_http_producer_turn, ty.OutputCollector.emit_client_log_message, wire._flush_collector, wire._dispatch_log_or_error],
      stubs=["_mint_cursor_token := opaque token that opens to the same state (ideal AEAD)", "_HttpRpcApp := object with the attributes the turn reads"],
      replay=_replay_http_producer, signature=lambda a, c: "C08:http-producer:log-lost-or-reordered",
      bound="producer scripts of <= 3 steps, each step logging through ctx / through the collector / not at all, then emitting | emitting and finishing | finishing without data; "
            "a script that did not finish ends with a finishing tick without data that logs through either route or not at all; "
            "max_response_bytes in {None, 1, 1e6} (one produce() per HTTP turn, or all in one turn)")
def http_producer_logs_delivered(cap: int, n: int, s0: int, s1: int, s2: int, fr: int) -> bool:
    """
    pre: 0 <= cap <= 2 and 0 <= n <= 3 and 0 <= fr <= 2
    pre: 0 <= s0 <= 8 and 0 <= s1 <= 8 and 0 <= s2 <= 8
    post: _
    """
    try:
        seen = _drive_producer_turns(_CAPS[cap], n, (s0, s1, s2), fr)
    except Exception:  # noqa: BLE001
        return False
    if seen is None:
        return False
    want = _expected_sequence(n, (s0, s1, s2), fr)
    if len(seen) != len(want):
        return False
    for j in range(len(want)):
        kind, v = want[j]
        gkind, g = seen[j]
        if kind != gkind:
            return False
        if kind == "log":
            if g != v:
                return False
        elif not g.equals(_BATCHES[v]):
            return False
    return True
