"""Shared contract stubs and re-globalised token functions for C12, C13, C14, C25.

Everything under test is the repository's *own bytecode* (``engine.reglob.reglobalize``); only the
environment is replaced, each replacement being a stated contract:

* ``AEAD``   ideal AEAD for ``vgi_rpc.crypto.seal_bytes/open_bytes``: ``seal`` returns an opaque
             :class:`Box` remembering ``(payload, key, aad, version)``; ``open`` returns the payload
             iff the presented object is a Box and key, aad and version are equal, otherwise raises
             the module's real ``SealError``.  (XChaCha20-Poly1305 INT-CTXT + confidentiality;
             ``normalize_key`` is assumed collision free.)
* ``B64``    base64 is a lossless transport wrapper: ``decode(encode(x)) is x``; decoding any
             attacker-made byte string yields either ``binascii.Error`` or some bytes (chosen by the
             harness) — never a Box.
* ``ZSTD``   ``compress(x)`` returns an opaque byte string whose length is shorter than, or not
             shorter than, ``x`` (harness-chosen) and which ``decompress`` maps back to exactly
             ``x``; ``decompress`` of anything else raises ``ZstdError`` or returns harness-chosen bytes.
* ``TIME``   integer clock read from ``HOLD['now']``.
* ``OSRAND`` ``os.urandom(n)`` returns a fresh, never repeated n-byte string (counter).
* ``SECRETS`` ``compare_digest(a, b) == (a == b)``.

``LOG`` receives one event per environment call so that *order* can be asserted.
"""

from __future__ import annotations

import binascii
from typing import Any

from engine.api import HarnessModelError
from engine.reglob import reglobalize

import zstandard as _real_zstd
from vgi_rpc import crypto as real_crypto
from vgi_rpc.http.server import _state_token as st

LOG: list = []
HOLD: dict = {
    "now": 0,  # integer clock
    "zstd_pays": False,  # does compression shorten the payload?
    "b64_ok": False,  # does a garbage token survive base64 decoding?
    "b64_raw": b"",  # ... and to which bytes
    "unzstd_ok": False,  # does a foreign zstd body decompress?
    "unzstd_raw": b"",  # ... and to which bytes
    "rand": 0,  # urandom counter
}


def reset(now: int = 0) -> None:
    del LOG[:]
    HOLD["now"] = now
    HOLD["zstd_pays"] = False
    HOLD["b64_ok"] = False
    HOLD["b64_raw"] = b""
    HOLD["unzstd_ok"] = False
    HOLD["unzstd_raw"] = b""
    HOLD["rand"] = 0
    del _ZTAB[:]


class _Strict:
    """Namespace stub: any attribute that is not modelled makes the run inconclusive."""

    _name = "stub"

    def __getattr__(self, name: str) -> Any:
        raise HarnessModelError(f"{self._name}.{name} is outside the contract stub")


# ---------------------------------------------------------------------------
# ideal AEAD
# ---------------------------------------------------------------------------


class Box:
    """An opaque sealed envelope (confidential: nothing but identity is observable)."""

    __slots__ = ("aad", "key", "payload", "version")

    def __init__(self, payload: Any, key: Any, aad: Any, version: Any) -> None:
        self.payload = payload
        self.key = key
        self.aad = aad
        self.version = version

    def __len__(self) -> int:
        raise HarnessModelError("length of a sealed box observed")

    def __iter__(self):  # type: ignore[no-untyped-def]
        raise HarnessModelError("bytes of a sealed box observed")

    def __getitem__(self, i: Any) -> Any:
        raise HarnessModelError("bytes of a sealed box observed")


class _IdealAead(_Strict):
    _name = "crypto"
    SealError = real_crypto.SealError

    def seal_bytes(self, payload: Any, key: Any, *, aad: Any, version: int = 1) -> Box:
        if not 0 <= version <= 255:
            raise ValueError("version must fit in one byte")
        LOG.append(("seal", version, aad))
        return Box(payload, key, aad, version)

    def open_bytes(self, token: Any, key: Any, *, aad: Any, version: int = 1) -> Any:
        ok = isinstance(token, Box) and token.version == version and token.key == key and token.aad == aad
        LOG.append(("open", version, aad, bool(ok)))
        if not ok:
            raise real_crypto.SealError("token verification failed")
        return token.payload


AEAD = _IdealAead()


# ---------------------------------------------------------------------------
# base64 (standard alphabet, used by the stream tokens)
# ---------------------------------------------------------------------------


class _B64(_Strict):
    _name = "base64"

    def b64encode(self, raw: Any) -> Any:
        if not isinstance(raw, Box):
            raise HarnessModelError("b64encode of something that is not a sealed box")
        return raw

    def b64decode(self, token: Any, validate: bool = False) -> Any:
        if isinstance(token, Box):
            return token
        if not validate:
            raise HarnessModelError("b64decode without validate=True is not modelled")
        if HOLD["b64_ok"]:
            return HOLD["b64_raw"]
        raise binascii.Error("Incorrect padding")


B64 = _B64()


# ---------------------------------------------------------------------------
# zstd
# ---------------------------------------------------------------------------


_ZTAB: list = []  # (image, preimage) of every compressor output of this run


class _Compressor:
    def compress(self, data: Any) -> Any:
        LOG.append(("zstd.compress",))
        serial = len(_ZTAB)
        if HOLD["zstd_pays"] and len(data) > 3:
            img = b"\xfdZ" + bytes([serial])  # 3-byte opaque image, shorter than the input
        else:
            img = b"\xfdN" + bytes([serial]) + data  # an image that is longer than the input
        _ZTAB.append((img, data))
        return img


class _Decompressor:
    def decompress(self, body: Any, max_output_size: int = 0) -> Any:
        LOG.append(("zstd.decompress",))
        for img, pre in _ZTAB:
            if body == img:
                return pre
        if HOLD["unzstd_ok"]:
            return HOLD["unzstd_raw"]
        raise _real_zstd.ZstdError("not a zstd frame")


class _ZstdNs(_Strict):
    _name = "zstandard"
    ZstdError = _real_zstd.ZstdError


ZSTD = _ZstdNs()
_COMP = _Compressor()
_DECOMP = _Decompressor()


class _Time(_Strict):
    _name = "time"

    def time(self) -> Any:
        return HOLD["now"]


TIME = _Time()


class _OsRand(_Strict):
    _name = "os"

    def urandom(self, n: int) -> bytes:
        HOLD["rand"] += 1
        return int(HOLD["rand"]).to_bytes(n, "big")


OSRAND = _OsRand()


class _Secrets(_Strict):
    _name = "secrets"

    def compare_digest(self, a: Any, b: Any) -> bool:
        return bool(a == b)


SECRETS = _Secrets()

# ---------------------------------------------------------------------------
# the repository's token functions, same bytecode, stubbed environment
# ---------------------------------------------------------------------------

pack_plaintext = reglobalize(st._pack_plaintext, _compressor=lambda: _COMP)
unpack_plaintext = reglobalize(st._unpack_plaintext, _decompressor=lambda: _DECOMP, zstandard=ZSTD)

seal_cursor_token = reglobalize(st._seal_cursor_token, crypto=AEAD, base64=B64, _pack_plaintext=pack_plaintext)
open_cursor_token = reglobalize(st._open_cursor_token, crypto=AEAD, base64=B64, _unpack_plaintext=unpack_plaintext, time=TIME)
seal_call_token = reglobalize(st._seal_call_token, crypto=AEAD, base64=B64, _pack_plaintext=pack_plaintext)
open_call_token = reglobalize(st._open_call_token, crypto=AEAD, base64=B64, _unpack_plaintext=unpack_plaintext, time=TIME)

TOKEN_FUNCS = [
    st._pack_plaintext,
    st._unpack_plaintext,
    st._read_segment,
    st._seal_cursor_token,
    st._open_cursor_token,
    st._seal_call_token,
    st._open_call_token,
]

TOKEN_STUBS = [
    "crypto.seal_bytes/open_bytes := ideal AEAD (opaque box; opens iff same key, aad, version; else the real SealError)",
    "base64 := lossless wrapper (decode(encode(x)) is x; garbage decodes to harness-chosen bytes or binascii.Error)",
    "zstandard := compress returns an opaque string shorter / not shorter than the input (harness-chosen) that decompress inverts exactly; foreign bodies raise ZstdError or yield harness-chosen bytes",
    "time.time := integer clock",
]


def http_error_info(exc: BaseException) -> tuple[int, str] | None:
    """(status, message) of a ``_RpcHttpError`` whose cause is a RuntimeError, else None."""
    from vgi_rpc.http._common import _RpcHttpError

    if not isinstance(exc, _RpcHttpError):
        return None
    cause = exc.cause
    if type(cause) is not RuntimeError or len(cause.args) != 1:
        return None
    return int(exc.status_code), cause.args[0]
