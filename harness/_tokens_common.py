"""Shared contract stubs and re-globalised token functions for C12, C13, C14, C25.

Everything under test is the repository's *own bytecode* (``engine.reglob.reglobalize``); only the
environment is replaced, each replacement being a stated contract:

* ``AEAD``   ideal AEAD for ``vgi_rpc.crypto.seal_bytes/open_bytes``: ``seal`` returns an opaque
             :class:`Box` remembering ``(payload, key, aad, version)``; ``open`` returns the payload
             iff the presented object is a Box and key, aad and version are equal, otherwise raises
             the module's real ``SealError``.  (XChaCha20-Poly1305 INT-CTXT + confidentiality;
             ``normalize_key`` is assumed collision free.)
* ``B64``    base64 is a lossless transport wrapper: ``decode(encode(x)) is x``; decoding any
             attacker-made byte string yields either ``binascii.Error`` or some bytes (chosen by the
             harness) — never a Box.
* ``ZSTD``   ``compress(x)`` returns an opaque byte string whose length is shorter than, or not
             shorter than, ``x`` (harness-chosen) and which ``decompress`` maps back to exactly
             ``x``; ``decompress`` of anything else raises ``ZstdError`` or returns harness-chosen bytes.
* ``TIME``   integer clock read from ``HOLD['now']``.
* ``OSRAND`` ``os.urandom(n)`` returns a fresh, never repeated n-byte string (counter).
* ``SECRETS`` ``compare_digest(a, b) == (a == b)``.

``LOG`` receives one event per environment call so that *order* can be asserted.
"""

from __future__ import annotations

import binascii
from typing import Any

from engine.api import HarnessModelError
from engine.reglob import reglobalize

import zstandard as _real_zstd
from vgi_rpc import crypto as real_crypto
from vgi_rpc.http.server import _state_token as st

LOG: list = []
HOLD: dict = {
    "now": 0,  # integer clock
    "zstd_pays": False,  # does compression shorten the payload?
    "b64_ok": False,  # does a garbage token survive base64 decoding?
    "b64_raw": b"",  # ... and to which bytes
    "unzstd_ok": False,  # does a foreign zstd body decompress?
    "unzstd_raw": b"",  # ... and to which bytes
    "rand": 0,  # urandom counter
}


def reset(now: int = 0) -> None:
    del LOG[:]
    HOLD["now"] = now
    HOLD["zstd_pays"] = False
    HOLD["b64_ok"] = False
    HOLD["b64_raw"] = b""
    HOLD["unzstd_ok"] = False
    HOLD["unzstd_raw"] = b""
    HOLD["rand"] = 0
    HOLD["uuid"] = 0
    HOLD["auth"] = None
    HOLD["init_method"] = ""
    HOLD["responses"] = []
    HOLD["request_md"] = None
    del _ZTAB[:]


class _Strict:
    """Namespace stub: any attribute that is not modelled makes the run inconclusive."""

    _name = "stub"

    def __getattr__(self, name: str) -> Any:
        raise HarnessModelError(f"{self._name}.{name} is outside the contract stub")


# ---------------------------------------------------------------------------
# ideal AEAD
# ---------------------------------------------------------------------------


class Box:
    """An opaque sealed envelope (confidential: nothing but identity is observable)."""

    __slots__ = ("aad", "key", "payload", "version")

    def __init__(self, payload: Any, key: Any, aad: Any, version: Any) -> None:
        self.payload = payload
        self.key = key
        self.aad = aad
        self.version = version

    def __len__(self) -> int:
        raise HarnessModelError("length of a sealed box observed")

    def __iter__(self):  # type: ignore[no-untyped-def]
        raise HarnessModelError("bytes of a sealed box observed")

    def __getitem__(self, i: Any) -> Any:
        raise HarnessModelError("bytes of a sealed box observed")


class _IdealAead(_Strict):
    _name = "crypto"
    SealError = real_crypto.SealError

    def seal_bytes(self, payload: Any, key: Any, *, aad: Any, version: int = 1) -> Box:
        if not 0 <= version <= 255:
            raise ValueError("version must fit in one byte")
        LOG.append(("seal", version, aad))
        return Box(payload, key, aad, version)

    def open_bytes(self, token: Any, key: Any, *, aad: Any, version: int = 1) -> Any:
        ok = isinstance(token, Box) and token.version == version and token.key == key and token.aad == aad
        LOG.append(("open", version, aad, bool(ok)))
        if not ok:
            raise real_crypto.SealError("token verification failed")
        return token.payload


AEAD = _IdealAead()


# ---------------------------------------------------------------------------
# base64 (standard alphabet, used by the stream tokens)
# ---------------------------------------------------------------------------


class _B64(_Strict):
    _name = "base64"

    def b64encode(self, raw: Any) -> Any:
        if not isinstance(raw, Box):
            raise HarnessModelError("b64encode of something that is not a sealed box")
        return raw

    def b64decode(self, token: Any, validate: bool = False) -> Any:
        if isinstance(token, Box):
            return token
        if not validate:
            raise HarnessModelError("b64decode without validate=True is not modelled")
        if HOLD["b64_ok"]:
            return HOLD["b64_raw"]
        raise binascii.Error("Incorrect padding")


B64 = _B64()


# ---------------------------------------------------------------------------
# zstd
# ---------------------------------------------------------------------------


_ZTAB: list = []  # (image, preimage) of every compressor output of this run


class _Compressor:
    def compress(self, data: Any) -> Any:
        LOG.append(("zstd.compress",))
        serial = len(_ZTAB)
        if HOLD["zstd_pays"] and len(data) > 3:
            img = b"\xfdZ" + bytes([serial])  # 3-byte opaque image, shorter than the input
        else:
            img = b"\xfdN" + bytes([serial]) + data  # an image that is longer than the input
        _ZTAB.append((img, data))
        return img


class _Decompressor:
    def decompress(self, body: Any, max_output_size: int = 0) -> Any:
        LOG.append(("zstd.decompress",))
        for img, pre in _ZTAB:
            if body == img:
                return pre
        if HOLD["unzstd_ok"]:
            return HOLD["unzstd_raw"]
        raise _real_zstd.ZstdError("not a zstd frame")


class _ZstdNs(_Strict):
    _name = "zstandard"
    ZstdError = _real_zstd.ZstdError


ZSTD = _ZstdNs()
_COMP = _Compressor()
_DECOMP = _Decompressor()


class _Time(_Strict):
    _name = "time"

    def time(self) -> Any:
        return HOLD["now"]


TIME = _Time()


class _OsRand(_Strict):
    _name = "os"

    def urandom(self, n: int) -> bytes:
        HOLD["rand"] += 1
        return int(HOLD["rand"]).to_bytes(n, "big")


OSRAND = _OsRand()


class _Secrets(_Strict):
    _name = "secrets"

    def compare_digest(self, a: Any, b: Any) -> bool:
        return bool(a == b)


SECRETS = _Secrets()

# ---------------------------------------------------------------------------
# the repository's token functions, same bytecode, stubbed environment
# ---------------------------------------------------------------------------

import struct as _struct


class _StructShim(_Strict):
    """``struct`` itself (CrossHair's model of it), except that ``unpack_from`` is expressed as ``unpack`` on
    the exact slice: CrossHair 0.0.110's ``unpack_from`` on a *concrete* buffer calls
    ``struct.unpack(fmt, buffer[offset:])`` and raises for any buffer longer than the format."""

    _name = "struct"
    error = _struct.error

    def pack(self, fmt: str, *vals: Any) -> Any:
        return _struct.pack(fmt, *vals)

    def unpack(self, fmt: str, buf: Any) -> Any:
        return _struct.unpack(fmt, buf)

    def calcsize(self, fmt: str) -> int:
        return _struct.calcsize(fmt)

    def unpack_from(self, fmt: str, buf: Any, offset: int = 0) -> Any:
        size = _struct.calcsize(fmt)
        if offset < 0 or offset + size > len(buf):
            raise _struct.error("unpack_from requires a buffer of at least %d bytes" % size)
        return _struct.unpack(fmt, buf[offset : offset + size])


STRUCT = _StructShim()
read_segment = reglobalize(st._read_segment, struct=STRUCT)

pack_plaintext = reglobalize(st._pack_plaintext, _compressor=lambda: _COMP)
unpack_plaintext = reglobalize(st._unpack_plaintext, _decompressor=lambda: _DECOMP, zstandard=ZSTD)

seal_cursor_token = reglobalize(st._seal_cursor_token, crypto=AEAD, base64=B64, _pack_plaintext=pack_plaintext)
open_cursor_token = reglobalize(st._open_cursor_token, crypto=AEAD, base64=B64, _unpack_plaintext=unpack_plaintext, time=TIME, struct=STRUCT, _read_segment=read_segment)
seal_call_token = reglobalize(st._seal_call_token, crypto=AEAD, base64=B64, _pack_plaintext=pack_plaintext)
open_call_token = reglobalize(st._open_call_token, crypto=AEAD, base64=B64, _unpack_plaintext=unpack_plaintext, time=TIME, struct=STRUCT, _read_segment=read_segment)

TOKEN_FUNCS = [
    st._pack_plaintext,
    st._unpack_plaintext,
    st._read_segment,
    st._seal_cursor_token,
    st._open_cursor_token,
    st._seal_call_token,
    st._open_call_token,
]

TOKEN_STUBS = [
    "crypto.seal_bytes/open_bytes := ideal AEAD (opaque box; opens iff same key, aad, version; else the real SealError)",
    "base64 := lossless wrapper (decode(encode(x)) is x; garbage decodes to harness-chosen bytes or binascii.Error)",
    "zstandard := compress returns an opaque string shorter / not shorter than the input (harness-chosen) that decompress inverts exactly; foreign bodies raise ZstdError or yield harness-chosen bytes",
    "time.time := integer clock",
    "struct.unpack_from(fmt, b, off) := struct.unpack(fmt, b[off:off+size]) with the same short-buffer error (CrossHair 0.0.110 mis-models unpack_from on concrete buffers)",
]


def http_error_info(exc: BaseException) -> tuple[int, str] | None:
    """(status, message) of a ``_RpcHttpError`` (the HTTP layer's status-carrying error), else None.

    The class of the wrapped cause is not part of any property and is not looked at; the message is the
    cause's single argument when it has exactly one, else its ``str()``."""
    from vgi_rpc.http._common import _RpcHttpError

    if not isinstance(exc, _RpcHttpError):
        return None
    cause = exc.cause
    args = getattr(cause, "args", None)
    msg = args[0] if isinstance(args, tuple) and len(args) == 1 else str(cause)
    return int(exc.status_code), msg


# ---------------------------------------------------------------------------
# AST -> SMT (strings) for the identity-encoding functions
# (_compute_aad, _compute_call_aad, _CallStateCache._identity, _StickyMiddleware._principal_key)
# ---------------------------------------------------------------------------
# The functions are straight-line: guards on ``auth is None`` / ``auth.authenticated``, ``(x or "")``,
# ``.encode()``, ``+`` on bytes, f-strings of strings.  ``encode_fn`` walks the *live* source and builds
# a string term; anything else raises ``Unsupported`` (-> INCONCLUSIVE, never green).
# Strings stand for their UTF-8 images (one solver character per byte); assumption: str.encode() is
# injective and maps exactly the NUL-free strings to NUL-free byte strings.

import ast
import inspect
import textwrap


class Unsupported(Exception): pass

class SymAuth:
    """A symbolic AuthContext | None over solver module S: none, authenticated, domain/principal as Optional[str]
    (strings stand for their UTF-8 images, one solver character per byte)."""
    def __init__(self, S, tag):
        self.S=S
        self.is_none = S.Bool(f"{tag}_none"); self.authd = S.Bool(f"{tag}_auth")
        self.dnone = S.Bool(f"{tag}_dnone"); self.d = S.String(f"{tag}_d")
        self.pnone = S.Bool(f"{tag}_pnone"); self.p = S.String(f"{tag}_p")

def _lit(S, b: bytes):
    return S.StringVal(b.decode("latin-1"))

class SymStr:
    """A symbolic ``str | None`` parameter (e.g. a method name), as its UTF-8 image."""

    def __init__(self, S, tag):  # type: ignore[no-untyped-def]
        self.none = S.Bool(f"{tag}_none")
        self.s = S.String(f"{tag}_s")


_FRESH = [0]


def encode_fn(fn, S, auth, extra=None, side=None, ambient=False):  # type: ignore[no-untyped-def]
    """String term of ``fn(auth, **extra)``.  ``extra`` maps further parameter names to SymStr / str / None;
    ``side`` (a list) receives auxiliary constraints (byte decomposition of packed lengths).
    ``ambient=True``: the function takes the request as its first parameter and reads the caller identity
    with ``auth, _ = _get_auth_and_metadata()`` (the transport contextvar) — that identity is ``auth``."""
    tree = ast.parse(textwrap.dedent(inspect.getsource(fn)))
    fdef = tree.body[0]
    args = [a.arg for a in fdef.args.args]
    if not args:
        raise Unsupported("expected at least one parameter")
    env = {"__side__": side if side is not None else [], "__globals__": getattr(inspect.unwrap(fn), "__globals__", {})}
    if ambient:
        env[args[0]] = ("opaque",)
        env["__ambient__"] = ("auth", auth)
    else:
        env[args[0]] = ("auth", auth)
    for name in args[1:]:
        v = (extra or {}).get(name)
        if isinstance(v, SymStr):
            env[name] = ("str", v.none, v.s)
        elif isinstance(v, str):
            env[name] = ("str", False, _lit(S, v.encode()))
        elif v is None:
            env[name] = ("str", True, S.StringVal(""))
        else:
            raise Unsupported(f"parameter {name}")
    r = _block(S, fdef.body, env)
    if r is None:
        raise Unsupported("function may fall off the end")
    return r


def _merge(S, c, a, b):  # type: ignore[no-untyped-def]
    """Value of a variable after ``if c: ...a... else: ...b...``."""
    if a is b:
        return a
    if a[0] == b[0] == "bytes":
        return ("bytes", S.If(c, a[1], b[1]))
    if a[0] == b[0] == "str" and a[1] is False and b[1] is False:
        return ("str", False, S.If(c, a[2], b[2]))
    raise Unsupported("branch-dependent variable of unsupported kind")


def _block(S, stmts, env):  # type: ignore[no-untyped-def]
    for i, s in enumerate(stmts):
        if isinstance(s, ast.Expr) and isinstance(s.value, ast.Constant):
            continue
        if isinstance(s, ast.Assign) and len(s.targets) == 1 and isinstance(s.targets[0], ast.Name):
            env[s.targets[0].id] = _val(S, s.value, env)
            continue
        if (isinstance(s, ast.Assign) and len(s.targets) == 1 and isinstance(s.targets[0], ast.Tuple) and len(s.targets[0].elts) == 2
                and all(isinstance(e, ast.Name) for e in s.targets[0].elts) and isinstance(s.value, ast.Call)
                and isinstance(s.value.func, ast.Name) and s.value.func.id == "_get_auth_and_metadata" and not s.value.args and "__ambient__" in env):
            env[s.targets[0].elts[0].id] = env["__ambient__"]  # (auth, transport_metadata) of the current request
            env[s.targets[0].elts[1].id] = ("opaque",)
            continue
        if isinstance(s, ast.Return) and s.value is not None:
            v = _val(S, s.value, env)
            if v[0] not in ("bytes", "str") or (v[0] == "str" and v[1] is not False):
                raise Unsupported("return of non-bytes/str")
            return v[-1]
        if isinstance(s, ast.If):
            c = _bool(S, s.test, env)
            env_t, env_e = dict(env), dict(env)
            t = _block(S, s.body, env_t)
            e = _block(S, s.orelse, env_e) if s.orelse else None
            merged = dict(env)
            for k in set(env_t) | set(env_e):
                if k in env_t and k in env_e:
                    merged[k] = _merge(S, c, env_t[k], env_e[k])
                # a name bound on one path only is usable only on that path: leave it out
            rest = _block(S, stmts[i + 1 :], merged) if (t is None or e is None) else None
            if (t is None or e is None) and rest is None:
                raise Unsupported("a path falls off the end")
            return S.If(c, t if t is not None else rest, e if e is not None else rest)
        raise Unsupported(ast.dump(s)[:80])
    return None


def _le32(S, n, env):  # type: ignore[no-untyped-def]
    """struct.pack('<I', n) as four characters b0..b3 with n = sum b_i 256^i (side constraints)."""
    _FRESH[0] += 1
    bs = [S.Int(f"__le{_FRESH[0]}_{i}") for i in range(4)]
    side = env["__side__"]
    for b in bs:
        side.append(S.And(b >= 0, b < 256))
    side.append(n == bs[0] + 256 * bs[1] + 65536 * bs[2] + 16777216 * bs[3])
    return S.Concat(*[S.StrFromCode(b) for b in bs])


def _val(S, n, env):
    if isinstance(n, ast.Constant):
        if isinstance(n.value, bytes): return ("bytes", _lit(S, n.value))
        if isinstance(n.value, str): return ("str", False, _lit(S, n.value.encode()))
        raise Unsupported("constant")
    if isinstance(n, ast.Name):
        if n.id in env: return env[n.id]
        g = env.get("__globals__", {}).get(n.id, None)
        if isinstance(g, bool): raise Unsupported("name "+n.id)
        if isinstance(g, int): return ("int", g)  # module-level integer constant, read from the live module
        if isinstance(g, bytes): return ("bytes", _lit(S, g))
        raise Unsupported("name "+n.id)
    if isinstance(n, ast.Attribute) and isinstance(n.value, ast.Name) and env.get(n.value.id,(None,))[0]=="auth":
        a = env[n.value.id][1]
        if n.attr=="domain": return ("str", a.dnone, a.d)
        if n.attr=="principal": return ("str", a.pnone, a.p)
        if n.attr=="authenticated": return ("bool", a.authd)
        raise Unsupported("auth."+n.attr)
    if isinstance(n, ast.BinOp) and isinstance(n.op, ast.Add):
        l=_val(S,n.left,env); r=_val(S,n.right,env)
        if l[0]==r[0]=="bytes": return ("bytes", S.Concat(l[1], r[1]))
        raise Unsupported("+ on non-bytes")
    if isinstance(n, ast.BoolOp) and isinstance(n.op, ast.Or) and len(n.values)==2:
        l=_val(S,n.values[0],env); r=_val(S,n.values[1],env)
        if l[0]==r[0]=="str" and r[1] is False:
            falsy = S.Length(l[2])==0 if l[1] is False else S.Or(l[1], S.Length(l[2])==0)
            return ("str", False, S.If(falsy, r[2], l[2]))
        raise Unsupported("or")
    if isinstance(n, ast.Constant) and isinstance(n.value, int) and not isinstance(n.value, bool):
        return ("int", n.value)
    if isinstance(n, ast.Subscript) and isinstance(n.slice, ast.Slice) and n.slice.step is None:
        # bytes[lo:hi] with constant (or module-constant) non-negative bounds
        v = _val(S, n.value, env)
        if v[0] != "bytes":
            raise Unsupported("slice of non-bytes")
        lo = _val(S, n.slice.lower, env) if n.slice.lower is not None else ("int", 0)
        hi = _val(S, n.slice.upper, env) if n.slice.upper is not None else None
        if lo[0] != "int" or not isinstance(lo[1], int) or lo[1] < 0 or (hi is not None and (hi[0] != "int" or not isinstance(hi[1], int) or hi[1] < 0)):
            raise Unsupported("slice bounds")
        if hi is None:
            return ("bytes", S.SubString(v[1], lo[1], S.Length(v[1])))
        return ("bytes", S.SubString(v[1], lo[1], max(hi[1] - lo[1], 0)))
    if (isinstance(n, ast.Call) and isinstance(n.func, ast.Attribute) and n.func.attr in ("ljust", "rjust") and len(n.args) == 2 and not n.keywords
            and isinstance(n.args[1], ast.Constant) and isinstance(n.args[1].value, bytes) and len(n.args[1].value) == 1):
        v = _val(S, n.func.value, env)
        w = _val(S, n.args[0], env)
        if v[0] != "bytes" or w[0] != "int" or not isinstance(w[1], int):
            raise Unsupported("ljust/rjust operands")
        _FRESH[0] += 1
        pad = S.String(f"__pad{_FRESH[0]}")
        need = w[1] - S.Length(v[1])
        env["__side__"].append(S.Length(pad) == S.If(need > 0, need, 0))
        env["__side__"].append(S.InRe(pad, S.Star(S.Re(_lit(S, n.args[1].value)))))
        return ("bytes", S.Concat(v[1], pad) if n.func.attr == "ljust" else S.Concat(pad, v[1]))
    if isinstance(n, ast.Call) and isinstance(n.func, ast.Name) and n.func.id == "len" and len(n.args) == 1:
        v = _val(S, n.args[0], env)
        if v[0] == "bytes":
            return ("int", S.Length(v[1]))
        raise Unsupported("len of non-bytes")
    if (isinstance(n, ast.Call) and isinstance(n.func, ast.Attribute) and n.func.attr == "pack" and isinstance(n.func.value, ast.Name) and n.func.value.id == "struct"
            and len(n.args) == 2 and isinstance(n.args[0], ast.Constant) and n.args[0].value == "<I"):
        v = _val(S, n.args[1], env)
        if v[0] == "int":
            return ("bytes", _le32(S, v[1], env))
        raise Unsupported("struct.pack of non-int")
    if isinstance(n, ast.Call) and isinstance(n.func, ast.Attribute) and n.func.attr=="encode" and not n.args and not n.keywords:
        v=_val(S,n.func.value,env)
        # (a None receiver would raise in Python; only guarded uses occur, and the concrete corpus validates the result)
        if v[0]=="str": return ("bytes", v[2])
        raise Unsupported("encode on non-str")
    if isinstance(n, ast.JoinedStr):
        parts=[]
        for p in n.values:
            if isinstance(p, ast.Constant): parts.append(_lit(S, p.value.encode()))
            elif isinstance(p, ast.FormattedValue) and p.conversion==-1 and p.format_spec is None:
                v=_val(S,p.value,env)
                if v[0]!="str" or v[1] is not False: raise Unsupported("f-string of non-str")
                parts.append(v[2])
            else: raise Unsupported("f-string part")
        return ("str", False, parts[0] if len(parts)==1 else S.Concat(*parts))
    raise Unsupported(ast.dump(n)[:80])

def _bool(S, n, env):
    if isinstance(n, ast.BoolOp):
        xs=[_bool(S,v,env) for v in n.values]
        return S.Or(*xs) if isinstance(n.op, ast.Or) else S.And(*xs)
    if isinstance(n, ast.UnaryOp) and isinstance(n.op, ast.Not): return S.Not(_bool(S,n.operand,env))
    if isinstance(n, ast.Compare) and len(n.ops)==1 and isinstance(n.ops[0], (ast.Is, ast.IsNot)) and isinstance(n.comparators[0], ast.Constant) and n.comparators[0].value is None:
        v=_val(S,n.left,env)
        none = v[1].is_none if v[0]=="auth" else v[1]
        if none is False or none is True: none = S.BoolVal(none)
        return none if isinstance(n.ops[0], ast.Is) else S.Not(none)
    v=_val(S,n,env)
    if v[0]=="bool": return v[1]
    raise Unsupported("truthiness")



def solvers() -> list:
    """[(name, module, bounded)] — cvc5 decides the unbounded word equations; z3 cross-checks a bounded copy."""
    import z3
    from cvc5 import pythonic as cv

    return [("cvc5", cv, None), ("z3", z3, 8)]


def ident_terms(S, a: SymAuth):  # type: ignore[no-untyped-def]
    """The identity the property speaks about: (authenticated, domain or '', principal or '')."""
    au = S.And(S.Not(a.is_none), a.authd)
    e = S.StringVal("")
    return au, S.If(S.Or(S.Not(au), a.dnone), e, a.d), S.If(S.Or(S.Not(au), a.pnone), e, a.p)


def same_identity(S, a: SymAuth, b: SymAuth):  # type: ignore[no-untyped-def]
    x, y = ident_terms(S, a), ident_terms(S, b)
    return S.And(x[0] == y[0], x[1] == y[1], x[2] == y[2])


def nul_free_domain(S, a: SymAuth):  # type: ignore[no-untyped-def]
    return S.Not(S.Contains(a.d, S.StringVal("\x00")))


def bounded(S, a: SymAuth, n: int):  # type: ignore[no-untyped-def]
    return S.And(S.Length(a.d) <= n, S.Length(a.p) <= n)


class ConcAuth:
    """SymAuth-shaped constants for one concrete AuthContext | None (translator validation)."""

    def __init__(self, S, auth) -> None:  # type: ignore[no-untyped-def]
        def sv(x):  # type: ignore[no-untyped-def]
            return S.StringVal("" if x is None else x.encode().decode("latin-1"))

        self.is_none = S.BoolVal(auth is None)
        self.authd = S.BoolVal(bool(auth is not None and auth.authenticated))
        self.dnone = S.BoolVal(auth is None or auth.domain is None)
        self.pnone = S.BoolVal(auth is None or auth.principal is None)
        self.d = sv(None if auth is None else auth.domain)
        self.p = sv(None if auth is None else auth.principal)


def _unescape(zs: str) -> str:
    import re

    return re.sub(r"\\u\{([0-9a-fA-F]+)\}", lambda m: chr(int(m.group(1), 16)), zs)


def eval_string(S, term, side=()) -> str:  # type: ignore[no-untyped-def]
    s = S.Solver()
    v = S.String("__v")
    s.add(v == term, *side)
    if str(s.check()) != "sat":
        raise Unsupported("constant term did not evaluate")
    out = s.model()[v].as_string()
    return _unescape(out) if S.__name__ == "z3" else out


def identity_corpus() -> list:
    from vgi_rpc.rpc import AuthContext

    out: list = [None, AuthContext.anonymous(), AuthContext(domain="d", authenticated=False, principal="p")]
    for d in (None, "", "d", "jwt", "\u00e9", "a\x00b", "\x00"):
        for p in (None, "", "p", "anonymous", "\x00", "x\x00y", "\u00fc\u4e2d"):
            out.append(AuthContext(domain=d, authenticated=True, principal=p))
    return out


METHOD_CORPUS = (
    None,
    "",
    "a",
    "exchange",
    "\u00e9x",
    "generate",
    "convert_measurements_by_region_and_unit_to_metric",
    "convert_measurements_by_region_and_unit_to_imperial",
    "m" * 31,
    "m" * 32,
    "m" * 33,
    "m" * 300,
)


def validate_identity_translation(fn, as_bytes, method_param: str | None = None) -> dict:  # type: ignore[no-untyped-def]
    """Real function vs its SMT term on the concrete corpus (both solvers)."""
    bad: list = []
    n = 0
    methods = METHOD_CORPUS if method_param else (None,)
    for name, S, _b in solvers():
        for auth in identity_corpus():
            for mv in methods:
                real = as_bytes(fn(auth, mv) if method_param else fn(auth))
                side: list = []
                term = encode_fn(fn, S, ConcAuth(S, auth), {method_param: mv} if method_param else None, side)
                got = eval_string(S, term, side)
                n += 1
                if got.encode("latin-1", "replace") != real:
                    bad.append({"solver": name, "auth": repr(auth), "method": mv, "real": real.hex(), "model": got.encode("latin-1", "replace").hex()})
    return {"n": n, "n_disagree": len(bad), "disagreements": bad[:5]}


def auth_from_model(S, model, a: SymAuth):  # type: ignore[no-untyped-def]
    """Concrete AuthContext | None from a solver model, or raise Unsupported if it is not a real identity."""
    from vgi_rpc.rpc import AuthContext

    def b(t):  # type: ignore[no-untyped-def]
        v = model.eval(t, True) if S.__name__ == "z3" else model[t]
        return str(v).lower() == "true"

    def s(t):  # type: ignore[no-untyped-def]
        v = model.eval(t, True) if S.__name__ == "z3" else model[t]
        raw = v.as_string()
        raw = _unescape(raw) if S.__name__ == "z3" else raw
        try:
            return raw.encode("latin-1").decode("utf-8")
        except (UnicodeEncodeError, UnicodeDecodeError) as e:
            raise Unsupported(f"witness is not a UTF-8 image: {raw!r}") from e

    if b(a.is_none):
        return None
    return AuthContext(domain=None if b(a.dnone) else s(a.d), authenticated=b(a.authd), principal=None if b(a.pnone) else s(a.p))


def auth_to_json(auth) -> dict | None:  # type: ignore[no-untyped-def]
    if auth is None:
        return None
    return {"domain": auth.domain, "authenticated": bool(auth.authenticated), "principal": auth.principal}


def auth_from_json(d):  # type: ignore[no-untyped-def]
    from vgi_rpc.rpc import AuthContext

    if d is None:
        return None
    return AuthContext(domain=d["domain"], authenticated=d["authenticated"], principal=d["principal"])


def real_identity(auth) -> tuple:  # type: ignore[no-untyped-def]
    if auth is None or not auth.authenticated:
        return (False, "", "")
    return (True, auth.domain or "", auth.principal or "")


# ---------------------------------------------------------------------------
# stream dispatch layer (vgi_rpc.http.server._app_stream) over the stubbed token functions
# ---------------------------------------------------------------------------
# Arrow / user code are light fakes that only *record* (LOG): the subject is which checks the
# repository performs, with which AAD, in which order, before it touches them.

import contextlib as _contextlib

from vgi_rpc.http.server import _app_stream as aps
from vgi_rpc.metadata import CALL_STATE_KEY, CANCEL_KEY, STATE_KEY


class FakeSchema:
    """Stands for pa.Schema: a value with ``==`` and a byte serialisation."""

    def __init__(self, tag: bytes) -> None:
        self.tag = tag

    def serialize(self) -> "FakeSchema":
        return self

    def to_pybytes(self) -> bytes:
        return self.tag

    def __eq__(self, other: object) -> bool:
        return isinstance(other, FakeSchema) and bool(self.tag == other.tag)

    def __ne__(self, other: object) -> bool:
        return not self.__eq__(other)

    __hash__ = None  # type: ignore[assignment]


EMPTY_SCHEMA = FakeSchema(b"S:empty")


class _PaIpc(_Strict):
    _name = "pa.ipc"

    def read_schema(self, buf: Any) -> FakeSchema:
        LOG.append(("read_schema", buf))
        if buf[:2] != b"S:":
            raise ValueError("not a schema")
        return FakeSchema(buf)


class _Pa(_Strict):
    _name = "pa"
    ipc = _PaIpc()

    def py_buffer(self, b: Any) -> Any:
        return b

    def KeyValueMetadata(self, d: Any) -> Any:  # noqa: N802
        return d


PA = _Pa()


class CallStateBase:
    """Stands for an ArrowSerializableDataclass used as call state."""

    def __init__(self, payload: Any) -> None:
        self.payload = payload

    def serialize_to_bytes(self) -> Any:
        return self.payload

    @classmethod
    def deserialize_from_bytes(cls, raw: Any, ipc_validation: Any = None) -> Any:
        LOG.append(("call_state.deserialize", cls.__name__, raw))
        return cls(raw)


class StateBase:
    """Stands for a StreamState subclass; every hook the framework may run is recorded."""

    CALL_STATE_TYPE: Any = None

    def __init__(self, payload: Any) -> None:
        self.payload = payload  # serialised form (first byte \xff = 'Arrow IPC' encoding)
        self.call_state: Any = None

    def serialize_to_bytes(self) -> Any:
        return self.payload

    @classmethod
    def deserialize_from_bytes(cls, raw: Any, ipc_validation: Any = None) -> Any:
        LOG.append(("state.deserialize", cls.__name__, raw))
        return cls(raw)

    def bind_call_state(self, call_state: Any) -> None:
        LOG.append(("bind_call_state", type(self).__name__))
        self.call_state = call_state

    def rehydrate(self, implementation: Any) -> None:
        LOG.append(("rehydrate", type(self).__name__))

    def on_cancel(self, ctx: Any) -> None:
        LOG.append(("on_cancel", type(self).__name__, getattr(ctx, "_method_name", "?")))


def _serialize_compact_stub(state: Any) -> Any:
    return None  # 'not flat': the framework falls back to serialize_to_bytes()


def _deserialize_compact_stub(cls: Any, raw: Any) -> Any:
    LOG.append(("state.deserialize_compact", cls.__name__, raw))
    return cls(raw)


serialize_state_bytes = reglobalize(st._serialize_state_bytes, serialize_compact=_serialize_compact_stub)
deserialize_state_bytes = reglobalize(st._deserialize_state_bytes, deserialize_compact=_deserialize_compact_stub)
mint_cursor_token = reglobalize(st._mint_cursor_token, _seal_cursor_token=seal_cursor_token, _serialize_state_bytes=serialize_state_bytes, time=TIME)
mint_call_token = reglobalize(st._mint_call_token, os=OSRAND, _seal_call_token=seal_call_token, time=TIME)

def if_referenced(fn: Any, **maybe: Any) -> dict:
    """The stubs among ``maybe`` whose names ``fn`` references today (reglobalize refuses unused names): lets a harness
    keep the environment stubbed when the repository moves a call (e.g. opens the call token in the caller too)."""
    from engine.reglob import _nested_names

    names = set(fn.__code__.co_names) | _nested_names(fn.__code__)
    return {k: v for k, v in maybe.items() if k in names}


resolve_call_from_token = reglobalize(aps._resolve_call_from_token, _open_call_token=open_call_token, secrets=SECRETS, pa=PA)
unpack_and_recover_state = reglobalize(
    aps._unpack_and_recover_state,
    _open_cursor_token=open_cursor_token,
    time=TIME,
    _resolve_call_from_token=resolve_call_from_token,
    _deserialize_state_bytes=deserialize_state_bytes,
    **if_referenced(aps._unpack_and_recover_state, _open_call_token=open_call_token, secrets=SECRETS, pa=PA),
)


class _Outcome:
    def __init__(self) -> None:
        self.status = "ok"
        self.error_type = ""
        self.error_message = ""
        self.http_status = 200
        self.response_state_bytes = None
        self.request_state_bytes = None
        self.cancelled = False


@_contextlib.contextmanager
def _telemetry_stub(app: Any, *, info: Any, method_name: Any, method_type: Any, auth: Any, transport_metadata: Any, kwargs: Any = None):  # type: ignore[no-untyped-def]
    yield _Outcome()


def _get_auth_stub() -> tuple:
    return HOLD["auth"], {}


class _Sink:
    def __init__(self, server_id: Any = None) -> None:
        pass

    def flush_contents(self, writer: Any, schema: Any) -> None:
        pass


class _Writer:
    def __init__(self, buf: Any, schema: Any) -> None:
        self.buf = buf

    def __enter__(self) -> "_Writer":
        return self

    def __exit__(self, *a: Any) -> None:
        return None

    def write_batch(self, batch: Any, custom_metadata: Any = None) -> None:
        HOLD["responses"].append(custom_metadata)


class _Uuid(_Strict):
    _name = "uuid"

    class _U:
        def __init__(self, n: int) -> None:
            self.hex = "sid%d" % n

    def uuid4(self) -> Any:
        # own counter: the n-th stream id is "sid<n>" whatever the order of uuid4 / os.urandom calls in the code
        HOLD["uuid"] = HOLD.get("uuid", 0) + 1
        return self._U(HOLD["uuid"])


def _turn_stub(app: Any, **kw: Any) -> Any:
    """Stands for _run_http_exchange_turn/_run_http_producer_turn: records which endpoint processes which
    state, then refreshes the cursor with the same call the real turn makes (real _mint_cursor_token)."""
    state = kw["state"]
    LOG.append(("turn", kw["method_name"], type(state).__name__, state.payload, type(state.call_state).__name__ if state.call_state is not None else None))
    tok, _sb = mint_cursor_token(state, kw.get("state_info", app._state_types.get(kw["method_name"])), kw["call_id"], app._token_key, kw["auth"])
    HOLD["responses"].append({STATE_KEY: tok})
    return "response"


def _noop(*a: Any, **k: Any) -> None:
    return None


class _Reader:
    def __init__(self, inner: Any, validation: Any = None) -> None:
        pass

    def read_next_batch_with_custom_metadata(self) -> tuple:
        return "input-batch", HOLD["request_md"]


class _Ipc(_Strict):
    _name = "ipc"

    def open_stream(self, stream: Any) -> Any:
        return stream


def _new_ipc_stream_stub(buf: Any, schema: Any) -> _Writer:
    return _Writer(buf, schema)


run_http_exchange_init = reglobalize(
    aps._run_http_exchange_init,
    _mint_cursor_token=mint_cursor_token,
    new_ipc_stream=_new_ipc_stream_stub,
    pa=PA,
    empty_batch=lambda schema: "zero-batch",
    _record_output=_noop,
)


def _producer_init_stub(app: Any, **kw: Any) -> Any:
    """Stands for _run_http_producer_init: the first producer turn runs inside /init and returns the
    stream's tokens (call token + first cursor), minted by the real mint function."""
    result = kw["result"]
    tok, _sb = mint_cursor_token(result.state, app._state_types.get(kw["method_name"]), kw["call_id"], app._token_key, kw["auth"])
    HOLD["responses"].append({STATE_KEY: tok, CALL_STATE_KEY: kw["call_token"]})
    return "response"


def _read_request_stub(stream: Any, validation: Any = None, external: Any = None) -> tuple:
    return HOLD["init_method"], {}


run_stream_init_sync = reglobalize(
    aps._run_stream_init_sync,
    _read_request=_read_request_stub,
    _deserialize_params=_noop,
    _validate_call_signature=_noop,
    _validate_params=_noop,
    _ClientLogSink=_Sink,
    _get_auth_and_metadata=_get_auth_stub,
    uuid=_Uuid(),
    _dispatch_telemetry=_telemetry_stub,
    _mint_call_token=mint_call_token,
    time=TIME,
    _EMPTY_SCHEMA=EMPTY_SCHEMA,
    _run_http_producer_init=_producer_init_stub,
    _run_http_exchange_init=run_http_exchange_init,
)

run_stream_exchange_sync = reglobalize(
    aps._run_stream_exchange_sync,
    ValidatedReader=_Reader,
    ipc=_Ipc(),
    _get_auth_and_metadata=_get_auth_stub,
    _unpack_and_recover_state=unpack_and_recover_state,
    _EMPTY_SCHEMA=EMPTY_SCHEMA,
    _record_input=_noop,
    _dispatch_telemetry=_telemetry_stub,
    _ClientLogSink=_Sink,
    new_ipc_stream=_new_ipc_stream_stub,
    _run_http_producer_turn=_turn_stub,
    _run_http_exchange_turn=_turn_stub,
)

DISPATCH_FUNCS = [
    aps._run_stream_init_sync,
    aps._run_http_exchange_init,
    aps._run_stream_exchange_sync,
    aps._unpack_and_recover_state,
    aps._resolve_call_from_token,
    aps._declared_call_state_types,
    st._mint_call_token,
    st._mint_cursor_token,
    st._serialize_state_bytes,
    st._deserialize_state_bytes,
    st._resolve_state_cls,
    st._compute_aad,
    st._compute_call_aad,
]

DISPATCH_STUBS = [
    "pyarrow := recording fakes (schema = tagged value with ==; ipc.read_schema logs and rebuilds the tag; request reader returns the harness' metadata)",
    "user code := recording fakes (state/call-state classes log deserialize, bind_call_state, rehydrate, on_cancel; the per-turn helpers _run_http_exchange_turn/_run_http_producer_turn are replaced by a recorder that refreshes the cursor through the real _mint_cursor_token)",
    "serialize_compact/deserialize_compact := 'not flat' / recording fake (codec not under test)",
    "os.urandom, uuid4 := fresh, never repeated values",
    "secrets.compare_digest := ==",
    "_dispatch_telemetry, _ClientLogSink, _record_input/_record_output, request validation := no-ops (telemetry is not the subject)",
    "_get_auth_and_metadata := the harness' requester identity",
]


class MethodInfo:
    def __init__(self, name: str) -> None:
        self.name = name
        self.param_types: dict = {}
        self.param_defaults: dict = {}
        self.params_schema = None
        self.header_type = None

        class _MT:
            value = "stream"

        self.method_type = _MT()


class StreamResult:
    def __init__(self, state: Any, call_state: Any, output_schema: Any, input_schema: Any) -> None:
        self.state = state
        self.call_state = call_state
        self.output_schema = output_schema
        self.input_schema = input_schema
        self.header = None


class FakeServer:
    ipc_validation = None
    external_config = None
    server_id = "srv"
    protocol_name = "P"
    transport_kind = None
    _protocol_version_parts = None
    _dispatch_hook = None
    server_version = ""
    protocol_hash = ""

    def __init__(self, implementation: Any, methods: dict) -> None:
        self.implementation = implementation
        self.methods = methods
        self.ctx_methods: set = set()


class FakeApp:
    """The attributes of _HttpRpcApp the stream paths read; the cache is the real _CallStateCache."""

    def __init__(self, server: FakeServer, state_types: dict, token_key: Any, token_ttl: Any, cache_entries: int) -> None:
        self._server = server
        self._state_types = state_types
        self._token_key = token_key
        self._token_ttl = token_ttl
        self._max_response_bytes = None
        self._max_externalized_response_bytes = None
        # same construction as _HttpRpcApp.__init__, integer clock (no float())
        self._call_state_cache = st._CallStateCache(max_entries=cache_entries, ttl=token_ttl if token_ttl > 0 else 3600)


def _takes(fn: Any, name: str) -> bool:
    return name in inspect.signature(fn).parameters


def call_aad(auth: Any, method: str) -> bytes:
    """The call-token AAD the live code uses for ``method`` (method-bound once the repository binds it)."""
    if _takes(st._compute_call_aad, "method_name"):
        return st._compute_call_aad(auth, method)
    return st._compute_call_aad(auth)


def call_unpack(app: Any, token: Any, call_token: Any, state_info: Any, auth: Any, method_name: str) -> Any:
    """_unpack_and_recover_state(app, token, call_token, state_info, auth[, method_name]) on the live signature."""
    if _takes(aps._unpack_and_recover_state, "method_name"):
        return unpack_and_recover_state(app, token, call_token, state_info, auth, method_name=method_name)
    return unpack_and_recover_state(app, token, call_token, state_info, auth)


def do_init(app: FakeApp, method: str, auth: Any) -> dict:
    """Run the real /init path for ``method`` as ``auth``; returns the token metadata it handed out."""
    HOLD["auth"] = auth
    HOLD["init_method"] = method
    HOLD["responses"] = []
    run_stream_init_sync(app, method, app._server.methods[method], "request-body")
    (md,) = HOLD["responses"]
    return md


def do_exchange(app: FakeApp, method: str, auth: Any, md: Any) -> Any:
    """Run the real /{method}/exchange path; returns the metadata of the response (refreshed cursor) or raises."""
    HOLD["auth"] = auth
    HOLD["request_md"] = md
    HOLD["responses"] = []
    run_stream_exchange_sync(app, method, "request-body")
    return HOLD["responses"][-1] if HOLD["responses"] else None


# ---------------------------------------------------------------------------
# real replay: the same scenarios on the un-stubbed functions (real crypto, zstd, base64, pyarrow)
# ---------------------------------------------------------------------------

import base64 as _real_b64
from dataclasses import dataclass as _dataclass
from types import SimpleNamespace as _NS

from vgi_rpc.rpc import StreamState as _StreamState
from vgi_rpc.utils import ArrowSerializableDataclass as _ASD
from vgi_rpc.utils import IpcValidation as _IpcValidation


@_dataclass
class RealCall(_ASD):
    tag: str = ""


@_dataclass
class RealStateA(_StreamState):
    """A stream state that declares a call state."""

    who: str = ""
    n: int = 0
    CALL_STATE_TYPE = RealCall

    def bind_call_state(self, call_state):  # type: ignore[no-untyped-def]
        object.__setattr__(self, "_bound", call_state)

    def process(self, input, out, ctx):  # type: ignore[no-untyped-def]  # noqa: A002
        self.n += 1


@_dataclass
class RealStateB(_StreamState):
    """A different state class without call state."""

    label: str = ""

    def process(self, input, out, ctx):  # type: ignore[no-untyped-def]  # noqa: A002
        pass


class _FakeClock:
    def __init__(self, now: int) -> None:
        self.now = now

    def time(self) -> int:
        return self.now

    def monotonic(self) -> float:
        return float(self.now)


class RealWorld:
    """A worker (_HttpRpcApp-shaped namespace with the real cache) over the real token functions;
    the clock seen by the token and stream modules is substituted (the hook the properties allow)."""

    GARBAGE = b"!!garbage!!"

    def __init__(self, state_types: dict, key: bytes, ttl: int, cache_entries: int, now: int = 100) -> None:
        import pyarrow as pa

        self.clock = _FakeClock(now)
        self.app = _NS(
            _token_key=key,
            _token_ttl=ttl,
            _state_types=state_types,
            _server=_NS(ipc_validation=_IpcValidation.FULL, implementation=object()),
            _call_state_cache=st._CallStateCache(max_entries=cache_entries, ttl=float(ttl) if ttl > 0 else 3600.0),
        )
        self.out_schema = pa.schema([("v", pa.int64())])
        self.in_schema = pa.schema([("x", pa.int64())])
        self.n = 0

    def __enter__(self) -> "RealWorld":
        self._saved = (st.time, aps.time)
        if isinstance(st.time, _FakeClock):
            self.clock = st.time  # nested worlds (several workers) share the one substituted clock
        st.time = self.clock  # type: ignore[assignment]
        aps.time = self.clock  # type: ignore[assignment]
        return self

    def __exit__(self, *a: Any) -> None:
        st.time, aps.time = self._saved  # type: ignore[assignment]

    def init(self, method: str, auth: Any, producer: bool = False) -> dict:
        """What _run_stream_init_sync does with the tokens: mint call token, warm the cache, mint the first cursor."""
        import pyarrow as pa

        self.n += 1
        info = self.app._state_types[method]
        cls = info[0] if isinstance(info, tuple) else info
        state = cls(who=method, n=0) if cls is RealStateA else cls(label=method)
        call_state = RealCall(tag=f"{method}#{self.n}") if cls.CALL_STATE_TYPE is not None else None
        in_schema = pa.schema([]) if producer else self.in_schema
        stream_id = f"sid{self.n}"
        kw = {"method_name": method} if _takes(st._mint_call_token, "method_name") else {}
        call_token, call_id, _csb = st._mint_call_token(call_state, self.out_schema, in_schema, self.app._token_key, auth, stream_id, **kw)
        ckw = {"method_name": method} if _takes(st._CallStateCache.put, "method_name") else {}
        self.app._call_state_cache.put(call_id, auth, st._ResolvedCall(call_state, self.out_schema, in_schema, stream_id), self.clock.time(), **ckw)
        mkw = {"method_name": method} if _takes(st._mint_cursor_token, "method_name") else {}
        cursor, _sb = st._mint_cursor_token(state, info, call_id, self.app._token_key, auth, **mkw)
        return {"cursor": cursor, "call": call_token, "call_id": call_id, "tag": None if call_state is None else call_state.tag, "stream_id": stream_id, "method": method}

    def unpack(self, method: str, auth: Any, cursor: Any, call: Any) -> tuple:
        """('ok', state, resolved) | ('err', status, message) from the real _unpack_and_recover_state."""
        info = self.app._state_types[method]
        kw = {"method_name": method} if _takes(aps._unpack_and_recover_state, "method_name") else {}
        try:
            state, resolved, _cid, _sb = aps._unpack_and_recover_state(self.app, cursor, call, info, auth, **kw)
        except Exception as e:  # noqa: BLE001
            inf = http_error_info(e)
            if inf is None:
                return ("exc", type(e).__name__, str(e))
            return ("err", inf[0], inf[1])
        return ("ok", state, resolved)

    @staticmethod
    def relabel(token: bytes, version: int) -> bytes:
        raw = _real_b64.b64decode(token)
        return _real_b64.b64encode(bytes([version]) + raw[1:])
