"""C03 — serializable dataclasses round-trip for every supported shape (conversion layer).

What is decided (engine ``xh``): for a *generated grammar of dataclass shapes* (built at import
time from the documented supported annotations) and for **all** instances inside the bound,

    deser(T, arrow_normal_form(ser(v))) == v          (same types, same values)

where

* ``ser``   = the repository's ``ArrowSerializableDataclass._to_row_dict`` (and through it
              ``_convert_value_for_serialization``) — the Python value -> plain row handed to
              ``pa.array``;
* ``deser`` = the repository's ``ArrowSerializableDataclass.deserialize_from_batch`` (same
              bytecode, re-globalised so that the single pyarrow boundary
              ``_validate_single_row_batch`` returns the row of the stated contract) and through
              it ``_convert_value_for_deserialization`` / ``_serialization_plan``;
* ``arrow_normal_form`` = the stated Arrow contract, driven by the *real* ``T.ARROW_SCHEMA``
              (struct -> dict with every declared child, map -> list of (k, v) pairs,
              list -> list, dictionary<string>/primitives -> identity, null -> None).  The
              contract is validated at import time on concrete instances of every shape against
              real pyarrow, and again in every real replay.

The contract covers what ``as_py()`` returns, not whether pyarrow's array builder / full IPC validation
accept the batch at all; that depends on the instance's *structure* only (which Optionals are None,
container sizes, enum members — concrete below the solver's case split), so on every path the structural
skeleton of the instance also goes through the real byte round trip with the tracer off (this is how the
"null nested dataclass with an Enum field" defect is seen).

Each shape is one CrossHair condition; the conditions are generated (PEP-316 docstring and all)
into a real module file under a per-process temp dir, because CrossHair needs
``inspect.getsource``.  Real replay = real ``serialize_to_bytes``/``deserialize_from_bytes``.

(b) compact codec on flat shapes with msgpack as an *ideal codec* contract stub (msgpack is a C
extension and is not installed here): every instance the compact codec accepts — of the flat shape
and of five non-flat shapes — decodes to the same object as the Arrow conversion path.  Declining an
instance (``None`` -> Arrow fallback) is always allowed; ``compact_codec_accepts_flat`` is a vacuity
guard (CONFIRMED / INCONCLUSIVE only) saying whether the flat instances are in fact accepted.
Real replay of (b): un-stubbed ``serialize_compact``/``deserialize_compact`` on the genuine msgpack
package (pure-Python build vendored by pip when the C extension is absent) and real pyarrow.
"""

from __future__ import annotations

import atexit
import importlib.util
import os
import shutil
import sys
import tempfile
from dataclasses import field, make_dataclass
from enum import Enum
from typing import Annotated, Any, Optional

import pyarrow as pa

from engine.api import QUICK, HarnessModelError, cond, is_open, pick
from engine.reglob import reglobalize

from vgi_rpc import utils as U
from vgi_rpc.utils import ArrowSerializableDataclass as ASD
from vgi_rpc.utils import Transient

PROPERTY = "C03"
ENCODED = [
    ASD._to_row_dict,
    ASD._convert_value_for_serialization,
    ASD.deserialize_from_batch,
    ASD._convert_value_for_deserialization,
    U._serialization_plan,
    U._is_optional_type,
    U.serialize_compact,
    U.deserialize_compact,
    U._compact_plan,
]
_DEPTH = pick(2, 3)
_L = pick(2, 3)  # symbolic str length bound
BOUNDS = (
    "dataclass shapes generated from {int,bool,str,Enum(value!=name),Optional (field and element position),list,"
    "frozenset,dict[K,.] with K in {str,int,Enum},"
    "nested dataclass,defaults (incl. non-None defaults of Optional fields, on top-level and on nested dataclasses),Transient} to nesting depth %d (quick: fixed selection of 40; thorough: all, %s); "
    "instances: unbounded ints, any bool, any str of len<=%d, any enum member (3), container lengths 0..2, "
    "None in every Optional position; map keys: a top-level map of scalars/enums has two independent symbolic "
    "keys, any other map has two constant distinct keys of its key type ('k0','k1' / 0,1 / RED,GREEN); depth-3 shapes: the outermost container "
    "holds at most one element" % (_DEPTH, "int keys only over int-leaved values", _L)
)
OUTSIDE = (
    "Arrow's own fidelity for leaf *values* (int64 range, UTF-8) — the Python conversion layer is symbolic, and what the Arrow "
    "boundary does with each path's *structure* (None-ness, sizes, enum members: array building, IPC validation) is run for real; "
    "pa.Schema / pa.RecordBatch / bytes / float fields; Annotated[..., ArrowType] overrides; containers longer than 2; "
    "the msgpack C extension (modelled as an ideal codec stub for the solver; replays use the genuine pure-Python msgpack build); "
    "whether the compact codec accepts or declines a given instance (either is allowed); "
    "_state_token union envelope; map keys other than str/int/Enum (bool, dataclass or set keys)"
)
ASSUMPTIONS = [
    "Arrow contract: pa.array([row_value], type=T)[0].as_py() == arrow_normal_form(row_value, T) for the types "
    "generated here (validated at import on concrete instances of every shape and in each replay)",
    "the Arrow boundary's accept/reject behaviour depends on an instance's structure only (which Optionals are None, container "
    "sizes, enum members), not on int/str/bool leaf values inside int64/UTF-8: on every path the structural skeleton of the "
    "instance goes through the un-stubbed serialize_to_bytes/deserialize_from_bytes (tracer off) and must round-trip",
    "msgpack contract in (b): unpackb(packb(x, use_bin_type=True), raw=False) is a structurally equal fresh copy of x for "
    "None/bool/int/float/str/bytes, list/tuple (-> list), dict (unpackb: ValueError for a non-str/bytes key), bytearray/"
    "memoryview (-> bytes); packb raises TypeError for any other type; msgpack's int range / UTF-8 limits are not modelled "
    "(the real replay runs the genuine msgpack package)",
]

_STUB_ARROW = "_validate_single_row_batch := returns arrow_normal_form(row, ARROW_SCHEMA) (stated Arrow contract)"
_STUB_MSGPACK = "msgpack := ideal codec (packb/unpackb structural copy of None/bool/int/float/str/bytes/list/dict, TypeError otherwise; other options -> HarnessModelError); _HAVE_MSGPACK := True"


# ---------------------------------------------------------------------------
# shape grammar
# ---------------------------------------------------------------------------


class Color(Enum):
    """Enum whose values differ from its names (the serializer must use the name)."""

    RED = "r"
    GREEN = "g"
    BLUE = "b"


_COL = (Color.RED, Color.GREEN, Color.BLUE)

# type expressions: ("int",) ("bool",) ("str",) ("enum",) ("opt", X) ("list", X) ("fset", X)
# ("dict", K, V) ("dc", name)          -- dataclasses are looked up in _DC by name
_DC: dict[str, dict] = {}  # name -> {"fields": [(fname, expr, default_kind)], "cls": type}


def _depth(e: tuple) -> int:
    k = e[0]
    if k in ("int", "bool", "str", "enum"):
        return 0
    if k == "opt":
        return _depth(e[1])
    if k in ("list", "fset"):
        return 1 + _depth(e[1])
    if k == "dict":
        return 1 + max(_depth(e[1]), _depth(e[2]))
    if k == "dc":
        return 1 + max(_depth(f[1]) for f in _DC[e[1]]["fields"])
    raise ValueError(e)


def _hashable(e: tuple) -> bool:
    k = e[0]
    if k in ("int", "bool", "str", "enum"):
        return True
    if k == "fset":
        return _hashable(e[1])
    if k == "opt":
        return _hashable(e[1])
    if k == "dc":
        return all(_hashable(f[1]) for f in _DC[e[1]]["fields"])
    return False


def _label(e: tuple) -> str:
    k = e[0]
    if k in ("int", "bool", "str", "enum"):
        return k
    if k == "opt":
        return "opt_" + _label(e[1])
    if k in ("list", "fset"):
        return k + "_" + _label(e[1])
    if k == "dict":
        return "dict_" + ("" if e[1] == ("str",) else _label(e[1]) + "_to_") + _label(e[2])
    return e[1].lower()


def _annotation(e: tuple) -> Any:
    k = e[0]
    if k == "int":
        return int
    if k == "bool":
        return bool
    if k == "str":
        return str
    if k == "enum":
        return Color
    if k == "opt":
        return Optional[_annotation(e[1])]
    if k == "list":
        return list[_annotation(e[1])]  # type: ignore[misc]
    if k == "fset":
        return frozenset[_annotation(e[1])]  # type: ignore[misc]
    if k == "dict":
        return dict[_annotation(e[1]), _annotation(e[2])]  # type: ignore[misc]
    return _DC[e[1]]["cls"]


def _define(name: str, fields: list[tuple]) -> tuple:
    """Create a real frozen ArrowSerializableDataclass subclass for a list of (fname, expr[, default_kind])."""
    norm = [(f[0], f[1], f[2] if len(f) > 2 else None) for f in fields]
    _DC[name] = {"fields": norm}
    spec = []
    for fname, e, dflt in norm:
        ann = _annotation(e)
        if dflt is None:
            spec.append((fname, ann))
        elif dflt[0] == "value":
            spec.append((fname, ann, field(default=dflt[1])))
        elif dflt[0] == "factory":
            spec.append((fname, ann, field(default_factory=dflt[1])))
        elif dflt[0] == "transient":
            spec.append((fname, Annotated[ann, Transient()], field(default=dflt[1])))
        else:
            raise ValueError(dflt)
    cls = make_dataclass(name, spec, bases=(ASD,), frozen=True, module=__name__)
    _DC[name]["cls"] = cls
    globals()[name] = cls
    # warm the per-class caches outside tracing (get_type_hints, schema inference = pyarrow)
    U._serialization_plan(cls)
    _DC[name]["tree"] = _schema_tree(cls.ARROW_SCHEMA)
    return ("dc", name)


# ---------------------------------------------------------------------------
# the stated Arrow contract (normal form), driven by the real ARROW_SCHEMA
# ---------------------------------------------------------------------------


def _type_tree(t: pa.DataType) -> tuple:
    if pa.types.is_struct(t):
        return ("struct", tuple((t.field(i).name, _type_tree(t.field(i).type)) for i in range(t.num_fields)))
    if pa.types.is_map(t):
        return ("map", _type_tree(t.key_type), _type_tree(t.item_type))
    if pa.types.is_list(t):
        return ("list", _type_tree(t.value_type))
    if pa.types.is_dictionary(t) and pa.types.is_string(t.value_type):
        return ("prim", str)
    if pa.types.is_int64(t):
        return ("prim", int)
    if pa.types.is_boolean(t):
        return ("prim", bool)
    if pa.types.is_string(t):
        return ("prim", str)
    raise HarnessModelError(f"arrow type outside the modelled contract: {t}")


def _schema_tree(schema: pa.Schema) -> tuple:
    return ("struct", tuple((f.name, _type_tree(f.type)) for f in schema))


def _nf(v: Any, t: tuple) -> Any:
    """arrow_normal_form: what ``pa.array([v], type=T)[0].as_py()`` returns, for the modelled types."""
    if v is None:
        return None
    k = t[0]
    if k == "prim":
        want = t[1]
        tv = type(v)
        if tv is not want and not (want is int and tv is bool):
            raise HarnessModelError(f"row value of type {tv.__name__} where Arrow column expects {want.__name__}")
        return v
    if k == "struct":
        if not isinstance(v, dict):
            raise HarnessModelError("struct column fed a non-dict")
        return {name: _nf(v.get(name), sub) for name, sub in t[1]}
    if k == "list":
        if not isinstance(v, (list, tuple)):
            raise HarnessModelError("list column fed a non-list")
        return [_nf(x, t[1]) for x in v]
    if k == "map":
        if isinstance(v, dict):
            v = list(v.items())
        if not isinstance(v, list):
            raise HarnessModelError("map column fed a non-list")
        return [(_nf(p[0], t[1]), _nf(p[1], t[2])) for p in v]
    raise HarnessModelError(f"unmodelled tree node {k}")


_HOLD: dict = {"row": None}


def _stub_validate_single_row_batch(data: Any, class_name: str, required_fields: Any = None) -> dict:
    row = _HOLD["row"]
    if required_fields:
        missing = [f for f in required_fields if f not in row]
        if missing:
            raise ValueError(f"Missing fields in {class_name} RecordBatch: {missing}")
    return row


_deser_from_batch = reglobalize(ASD.deserialize_from_batch, _validate_single_row_batch=_stub_validate_single_row_batch)


def _ser(v: Any) -> dict:
    """Conversion-layer serialisation: real _to_row_dict, then the Arrow contract."""
    return _nf(v._to_row_dict(), _DC[type(v).__name__]["tree"])


def _deser(cls: type, row: dict) -> Any:
    _HOLD["row"] = row
    return _deser_from_batch(cls, None)


# ---------------------------------------------------------------------------
# building an instance from symbolic primitives
# ---------------------------------------------------------------------------


class _Pool:
    """Hands out the condition's symbolic arguments in a fixed order."""

    __slots__ = ("vals", "cur")

    def __init__(self, n: tuple, i: tuple, b: tuple, s: tuple, e: tuple, z: tuple) -> None:
        self.vals = {"n": n, "i": i, "b": b, "s": s, "e": e, "z": z}
        self.cur = {"n": 0, "i": 0, "b": 0, "s": 0, "e": 0, "z": 0}

    def take(self, kind: str) -> Any:
        c = self.cur[kind]
        self.cur[kind] = c + 1
        return self.vals[kind][c]


_SCALARISH = ("int", "bool", "str", "enum")


def _free_keys(e: tuple, level: int) -> bool:
    """Independent symbolic keys for a top-level map of scalars/enums (any key type); any other map — nested,
    or holding containers/dataclasses — has two constant distinct keys of its key type (key *content* is opaque
    to the conversion layer, key *type* is not; symbolic key content is claimed by the depth-1 map shapes)."""
    return level == 0 and e[2][0] in _SCALARISH


_CONST_KEYS = {"str": ("k0", "k1"), "int": (0, 1), "enum": (Color.RED, Color.GREEN)}


def _need(e: tuple, acc: dict, level: int = 0) -> None:
    """Maximum number of symbolic primitives of each kind an expression can consume."""
    k = e[0]
    if k == "int":
        acc["i"] += 1
    elif k == "bool":
        acc["b"] += 1
    elif k == "str":
        acc["s"] += 1
    elif k == "enum":
        acc["e"] += 1
    elif k == "opt":
        acc["z"] += 1
        _need(e[1], acc, level)
    elif k in ("list", "fset"):
        acc["n"] += 1
        _need(e[1], acc, level + 1)
        _need(e[1], acc, level + 1)
    elif k == "dict":
        acc["n"] += 1
        if _free_keys(e, level):
            _need(e[1], acc)
            _need(e[1], acc)
        _need(e[2], acc, level + 1)
        _need(e[2], acc, level + 1)
    elif k == "dc":
        for f in _DC[e[1]]["fields"]:
            _need(f[1], acc, level + 1)


def _build(e: tuple, p: _Pool, level: int = -1, deep: bool = False) -> Any:
    """Instance of ``e`` from the pool.  ``level`` = number of enclosing containers/dataclasses below the
    shape's wrapper dataclass (wrapper itself is -1).  ``deep`` (depth-3 shapes): the outermost container
    holds at most one element so that the path count stays that of a depth-2 shape."""
    k = e[0]
    if k == "int":
        return p.take("i")
    if k == "bool":
        return p.take("b")
    if k == "str":
        return p.take("s")
    if k == "enum":
        x = p.take("e")
        if x == 0:
            return _COL[0]
        if x == 1:
            return _COL[1]
        return _COL[2]
    if k == "opt":
        if p.take("z"):
            return None
        return _build(e[1], p, level, deep)
    one_only = deep and level == 0
    if k in ("list", "fset"):
        n = p.take("n")
        if n == 0:
            items: list = []
        elif n == 1 or one_only:
            items = [_build(e[1], p, level + 1, deep)]
        else:
            items = [_build(e[1], p, level + 1, deep), _build(e[1], p, level + 1, deep)]
        return items if k == "list" else frozenset(items)
    if k == "dict":
        n = p.take("n")
        if n == 0:
            return dict([])
        free = _free_keys(e, level)
        k0 = _build(e[1], p, level + 1, deep) if free else _CONST_KEYS[e[1][0]][0]
        v0 = _build(e[2], p, level + 1, deep)
        if n == 1 or one_only:
            return dict([(k0, v0)])
        k1 = _build(e[1], p, level + 1, deep) if free else _CONST_KEYS[e[1][0]][1]
        v1 = _build(e[2], p, level + 1, deep)
        return dict([(k0, v0), (k1, v1)])
    if k == "dc":
        info = _DC[e[1]]
        vals = [_build(f[1], p, level + 1, deep) for f in info["fields"]]
        return info["cls"](*vals)
    raise ValueError(e)


def _expected(e: tuple, v: Any) -> Any:
    """What a round trip must return: v itself, except Transient fields come back as their default."""
    if v is None:
        return None
    k = e[0]
    if k == "opt":
        return _expected(e[1], v)
    if k == "dc":
        info = _DC[e[1]]
        vals = []
        for fname, fe, dflt in info["fields"]:
            if dflt is not None and dflt[0] == "transient":
                vals.append(dflt[1])
            else:
                vals.append(_expected(fe, getattr(v, fname)))
        return info["cls"](*vals)
    if k == "list":
        return [_expected(e[1], x) for x in v]
    return v  # sets / dicts of transient-bearing dataclasses are not generated


def _same(e: tuple, a: Any, b: Any) -> bool:
    """Equal *and* of the same Python types along the annotated structure."""
    if a is None or b is None:
        return a is None and b is None
    k = e[0]
    if k == "opt":
        return _same(e[1], a, b)
    if k in ("int", "bool", "str", "enum"):
        return type(a) is type(b) and a == b
    if k == "dc":
        info = _DC[e[1]]
        if type(a) is not info["cls"] or type(b) is not info["cls"]:
            return False
        for fname, fe, _d in info["fields"]:
            if not _same(fe, getattr(a, fname), getattr(b, fname)):
                return False
        return True
    if k == "list":
        if not isinstance(a, list) or not isinstance(b, list) or len(a) != len(b):
            return False
        for x, y in zip(a, b):
            if not _same(e[1], x, y):
                return False
        return True
    if k == "fset":
        return isinstance(a, frozenset) and isinstance(b, frozenset) and a == b and _scalar_types_ok(e[1], a)
    if k == "dict":
        return isinstance(a, dict) and isinstance(b, dict) and a == b and _scalar_types_ok(e[1], a) and _scalar_types_ok(e[2], a.values())
    raise ValueError(e)


_PYTYPE = {"int": int, "bool": bool, "str": str, "enum": Color}


def _scalar_types_ok(e: tuple, got: Any) -> bool:
    """``==`` on sets/dicts does not see ``True`` for ``1`` (or an int-mixin for an Enum): when the element
    annotation is a scalar, every element of the returned container must be of exactly that Python type."""
    nullable = False
    while e[0] == "opt":
        e, nullable = e[1], True
    want = _PYTYPE.get(e[0])
    if want is None:
        return True  # containers / dataclasses: compared by == (their own __eq__)
    for x in got:
        if x is None:
            if not nullable:
                return False
        elif type(x) is not want:
            return False
    return True


# ---------------------------------------------------------------------------
# the shapes
# ---------------------------------------------------------------------------

INT, BOOL, STR, ENUM = ("int",), ("bool",), ("str",), ("enum",)


def L(x: tuple) -> tuple:
    return ("list", x)


def F(x: tuple) -> tuple:
    return ("fset", x)


def D(v: tuple, k: tuple = STR) -> tuple:
    return ("dict", k, v)


def O(x: tuple) -> tuple:  # noqa: E743
    return ("opt", x)


LEAF = _define("Leaf", [("a", INT), ("s", STR), ("c", ENUM)])
MID = _define("Mid", [("leaf", LEAF), ("xs", L(INT)), ("o", O(LEAF))])
# A nestable dataclass whose fields carry *defaults*, including Optional fields whose default is not None:
# an explicit None / non-default value must survive in every nested position (the defaults dimension applies
# to nested dataclasses as well as to the top-level one).
LEAFD = _define(
    "LeafD",
    [
        ("a", INT),
        ("o", O(INT), ("value", 10)),
        ("c", O(ENUM), ("value", Color.GREEN)),
        ("s", STR, ("value", "dflt")),
    ],
)
MIDD = _define("MidD", [("leaf", LEAFD), ("inner", O(LEAFD), ("value", None)), ("n", INT, ("value", 3)), ("t", INT, ("transient", 0))])

SHAPES: list[dict] = []  # {"name", "expr" (a "dc" expr), "quick": bool}


def _shape(name: str, fields: list[tuple], quick: bool) -> None:
    cname = "T_" + name
    SHAPES.append({"name": name, "expr": _define(cname, fields), "quick": quick, "depth": max(_depth(f[1]) for f in fields)})


def _single(e: tuple, quick: bool) -> None:
    _shape(_label(e), [("x", e)], quick)


def _make_shapes() -> None:
    # depth 0 / Optional / defaults / Transient (grouped: several fields per shape)
    _shape("scalars", [("i", INT), ("b", BOOL), ("s", STR), ("c", ENUM)], True)
    _shape("optionals", [("i", O(INT)), ("b", O(BOOL)), ("s", O(STR)), ("c", O(ENUM))], True)
    _shape(
        "defaults",
        [
            ("req", INT),
            ("i", INT, ("value", 7)),
            ("s", STR, ("value", "dflt")),
            ("c", ENUM, ("value", Color.GREEN)),
            ("o", O(INT), ("value", None)),
            ("on", O(INT), ("value", 10)),
            ("oc", O(ENUM), ("value", Color.BLUE)),
            ("xs", L(INT), ("factory", list)),
        ],
        True,
    )
    # defaults inside nested dataclasses, in every nesting position
    _single(LEAFD, True)
    _single(O(LEAFD), True)
    _single(L(LEAFD), True)
    _single(D(LEAFD), True)
    _single(F(LEAFD), False)
    _single(MIDD, True)
    _single(D(LEAFD, ENUM), False)
    _single(L(O(LEAFD)), False)
    _single(L(L(LEAFD)), False)
    _single(D(L(LEAFD)), False)
    _shape("transient", [("i", INT), ("s", STR), ("t", INT, ("transient", 0)), ("d", INT, ("value", 3))], True)
    _single(O(L(INT)), True)
    _single(O(D(INT)), True)
    _single(O(F(STR)), False)
    # depth 1.  Maps have a *key-type dimension* K in {str, int, Enum}: the conversion layer converts keys
    # as well as values (both directions), so every value kind is generated under every key kind.
    base0 = [INT, STR, ENUM]
    keys = [STR, INT, ENUM]
    level1: list[tuple] = []
    for c in (L, F):
        for x in base0:
            level1.append(c(x))
    for x in base0:
        level1.append(D(x))
    for e in level1:
        _single(e, quick=(e[-1] != STR or e[0] == "list"))
    keyed1 = [D(x, k) for k in (INT, ENUM) for x in base0]
    for e in keyed1:
        # quick: dict[Color,int], dict[Color,Color], dict[int,str]
        _single(e, quick=(e[1] == ENUM and e[2] != STR) or (e[1] == INT and e[2] == STR))
    _single(LEAF, True)
    _single(O(LEAF), False)
    # Optional in element position (Arrow: nullable list items / map values)
    _single(L(O(ENUM)), True)
    _single(D(O(LEAF)), True)
    _single(L(O(LEAF)), False)
    _single(D(O(ENUM), ENUM), False)
    _single(F(O(INT)), False)
    nest1 = level1 + [D(INT, ENUM), LEAF]  # what gets nested further (one non-str-keyed map is enough there)
    # depth 2
    level2: list[tuple] = []
    for c in (L, F):
        for x in nest1:
            if c is F and not _hashable(x):
                continue
            level2.append(c(x))
    for x in nest1:
        for k in keys:
            if k == INT and x[-1] != INT and x != LEAF:
                continue  # int keys: only over int-leaved values and Leaf (keeps the thorough tier affordable)
            level2.append(D(x, k))
    for e in level2:
        inner = e[-1]
        int_leaved = inner == LEAF or inner[-1] == INT
        if e[0] == "dict":
            # quick: every str-keyed int-leaved map as before, plus enum-keyed maps of Leaf / list[int] / dict[str,int]
            q = int_leaved and (e[1] == STR or (e[1] == ENUM and inner in (LEAF, L(INT), D(INT))))
        else:
            q = int_leaved
        _single(e, quick=q)
    _single(MID, True)
    nest2 = [e for e in level2 if e[0] != "dict" or e[1] != INT] + [MID]
    if _DEPTH >= 3:
        for c in (L, F):
            for x in nest2:
                if c is F and not _hashable(x):
                    continue
                _single(c(x), False)
        for x in nest2:
            _single(D(x), False)
            innermost = x
            while innermost[0] in ("list", "fset", "dict", "opt"):
                innermost = innermost[-1]
            if innermost in (INT, LEAF):
                _single(D(x, ENUM), False)
        top = _define("Top", [("mid", MID), ("ms", L(MID)), ("d", D(LEAF)), ("by_color", D(L(LEAF), ENUM))])
        _single(top, False)


_make_shapes()
ACTIVE = [s for s in SHAPES if (s["quick"] or not QUICK) and s["depth"] <= _DEPTH]
_BY_NAME = {s["name"]: s for s in SHAPES}


def _needs(s: dict) -> dict:
    acc = {"n": 0, "i": 0, "b": 0, "s": 0, "e": 0, "z": 0}
    _need(s["expr"], acc, -1)
    return acc


# ---------------------------------------------------------------------------
# the check (called by every generated condition) and the real replay
# ---------------------------------------------------------------------------


def _untraced() -> Any:
    """Run a fully concrete step at native speed (CrossHair's tracer off); a no-op outside CrossHair."""
    try:
        from crosshair.tracers import NoTracing

        return NoTracing()
    except ImportError:
        import contextlib

        return contextlib.nullcontext()


def _structure(e: tuple, v: Any) -> Any:
    """Concrete structural descriptor of an instance: None-ness, container sizes, enum members — everything the
    Arrow boundary (array building, IPC validation) can depend on besides the int/str/bool leaf *values*."""
    if v is None:
        return None
    k = e[0]
    if k == "opt":
        return _structure(e[1], v)
    if k in ("int", "bool", "str"):
        return 0
    if k == "enum":
        return 0 if v is _COL[0] else (1 if v is _COL[1] else 2)
    if k in ("list", "fset"):
        return tuple([_structure(e[1], x) for x in v])
    if k == "dict":
        return tuple([(_structure(e[1], kk), _structure(e[2], vv)) for kk, vv in v.items()])
    if k == "dc":
        return tuple([_structure(fe, getattr(v, fname)) for fname, fe, _d in _DC[e[1]]["fields"]])
    raise ValueError(e)


def _from_structure(e: tuple, d: Any, ctr: list) -> Any:
    """A concrete instance with the given structure; leaves are distinct placeholders (1, 2, ... / 's1', 's2', ...)."""
    if d is None:
        return None
    k = e[0]
    if k == "opt":
        return _from_structure(e[1], d, ctr)
    if k in ("int", "str", "bool"):
        ctr[0] += 1
        return ctr[0] if k == "int" else ("s%d" % ctr[0] if k == "str" else ctr[0] % 2 == 0)
    if k == "enum":
        return _COL[d]
    if k == "list":
        return [_from_structure(e[1], x, ctr) for x in d]
    if k == "fset":
        return frozenset(_from_structure(e[1], x, ctr) for x in d)
    if k == "dict":
        return {_from_structure(e[1], kd, ctr): _from_structure(e[2], vd, ctr) for kd, vd in d}
    info = _DC[e[1]]
    return info["cls"](*[_from_structure(f[1], x, ctr) for f, x in zip(info["fields"], d)])


def _raise_site(stage: str, exc: BaseException) -> str:
    if type(exc).__name__ == "IPCError" and "Dictionary indices invalid" in str(exc):
        # pa.array() fills a null struct slot's dictionary child with index 0; with no enum value anywhere in that
        # child the dictionary is empty and full IPC validation rejects the batch
        return "null-nested-dataclass-with-enum-rejected-by-ipc-validation"
    return f"{stage}-raises-{type(exc).__name__}"


_SKELETON_CACHE: dict = {}


def _skeleton_failure(name: str, expr: tuple, d: Any) -> str | None:
    """Real ``serialize_to_bytes`` / ``deserialize_from_bytes`` (real pyarrow, default validation) on the structural
    skeleton of this path's instance.  None = it round-trips; else the site that names the finding."""
    key = (name, d)
    if key not in _SKELETON_CACHE:
        why = None
        try:
            v0 = _from_structure(expr, d, [0])
        except TypeError:
            v0 = None  # placeholder leaves made an unhashable / colliding combination: nothing to run
        if v0 is not None:
            try:
                data = v0.serialize_to_bytes()
                try:
                    got = type(v0).deserialize_from_bytes(data)
                    if not _same(expr, got, _expected(expr, v0)):
                        why = _diff_site(expr, got, _expected(expr, v0)) or "skeleton-differs"
                except Exception as exc:  # noqa: BLE001
                    why = _raise_site("deserialize", exc)
            except Exception as exc:  # noqa: BLE001
                why = _raise_site("serialize", exc)
        _SKELETON_CACHE[key] = why
    return _SKELETON_CACHE[key]


def check(name: str, n: tuple, i: tuple, b: tuple, s: tuple, e: tuple, z: tuple) -> bool:
    shape = _BY_NAME[name]
    if name in _CONTRACT_BROKEN:
        raise HarnessModelError(_CONTRACT_BROKEN[name])
    expr = shape["expr"]
    v = _build(expr, _Pool(n, i, b, s, e, z), -1, shape["depth"] >= 3)
    # The Arrow boundary itself, for real: this path's structure (which Optionals are None, container sizes, enum
    # members — all concrete below the solver's case split) goes through the un-stubbed byte round trip.
    d = _structure(expr, v)
    with _untraced():
        why = _skeleton_failure(name, expr, d)
    if why is not None and not is_open("C03:deser:" + why):
        return False  # the real replay (same structure, the counterexample's own leaf values) decides
    try:
        row = _ser(v)  # real _to_row_dict + Arrow contract
    except HarnessModelError:
        # the row is not something the modelled Arrow contract accepts: candidate violation, and the real
        # replay (real pyarrow) decides — if pyarrow takes the row after all, the item ends INCONCLUSIVE.
        return False
    try:
        got = _deser(type(v), row)
    except Exception:  # noqa: BLE001  (TypeError/KeyError/... out of the repo's deserialiser = no round trip)
        return False
    return _same(expr, got, _expected(expr, v))


def _args_to_pool(args: dict) -> _Pool:
    def grab(prefix: str) -> tuple:
        ks = sorted((k for k in args if k[0] == prefix and k[1:].isdigit()), key=lambda k: int(k[1:]))
        return tuple(args[k] for k in ks)

    return _Pool(grab("n"), grab("i"), grab("b"), grab("s"), grab("e"), grab("z"))


def _outside_arrow_domain(args: dict, exc: BaseException) -> bool:
    """True when the counterexample carries a value Arrow itself cannot hold (an int beyond int64, a str that is
    not valid Unicode text) *and* the failure is of the class Arrow reports that with."""
    if not isinstance(exc, (OverflowError, UnicodeError, pa.ArrowInvalid)):
        return False
    for x in args.values():
        if type(x) is int and not -(2**63) <= x < 2**63:
            return True
        if type(x) is str:
            try:
                x.encode("utf-8")
            except UnicodeError:
                return True
    return False


def replay(name: str, args: dict) -> str | None:
    """Real Arrow round trip of the concrete counterexample (no stubs)."""
    shape = _BY_NAME[name]
    expr = shape["expr"]
    v = _build(expr, _args_to_pool(args), -1, shape["depth"] >= 3)
    want = _expected(expr, v)
    try:
        batch = v._serialize()
    except Exception as exc:  # noqa: BLE001
        if _outside_arrow_domain(args, exc):
            return None  # Arrow's own value domain (int64 / UTF-8), stated OUTSIDE: a legitimate rejection
        return f"{_describe(expr)}: serializing {v!r} raised {type(exc).__name__}: {exc}"
    # the Arrow contract must hold on this very instance, otherwise the harness (not the repo) is suspect
    real_row = U._validate_single_row_batch(batch, type(v).__name__)
    try:
        model_row = _ser(v)
    except HarnessModelError:
        return None
    if real_row != model_row:
        return None
    data = v.serialize_to_bytes()
    try:
        got = type(v).deserialize_from_bytes(data)
    except Exception as exc:  # noqa: BLE001
        return f"{_describe(expr)}: deserialize_from_bytes(serialize_to_bytes({v!r})) raised {type(exc).__name__}: {exc}"
    if not _same(expr, got, want):
        return f"{_describe(expr)}: {v!r} came back as {got!r}"
    return None


def _pretty(e: tuple) -> str:
    k = e[0]
    if k in ("int", "bool", "str"):
        return k
    if k == "enum":
        return "Color"
    if k == "opt":
        return _pretty(e[1]) + " | None"
    if k == "list":
        return "list[" + _pretty(e[1]) + "]"
    if k == "fset":
        return "frozenset[" + _pretty(e[1]) + "]"
    if k == "dict":
        return "dict[" + _pretty(e[1]) + ", " + _pretty(e[2]) + "]"
    return e[1]


def _describe(expr: tuple) -> str:
    parts = []
    for fname, fe, dflt in _DC[expr[1]]["fields"]:
        extra = "" if dflt is None else (" (Transient)" if dflt[0] == "transient" else " = ...")
        parts.append(f"{fname}: {_pretty(fe)}{extra}")
    return "dataclass(" + ", ".join(parts) + ")"


def _defect_site(e: tuple) -> str | None:
    """First frozenset / dict position whose elements need a conversion on the way back."""
    k = e[0]
    if k in ("int", "bool", "str", "enum"):
        return None
    if k == "opt":
        return _defect_site(e[1])
    if k == "list":
        return _defect_site(e[1])
    if k == "fset":
        return "frozenset-elements-not-converted" if e[1][0] not in ("int", "bool", "str") else None
    if k == "dict":
        if e[1][0] not in ("int", "bool", "str"):
            return "dict-keys-not-converted"
        return "dict-values-not-converted" if e[2][0] not in ("int", "bool", "str") else None
    if k == "dc":
        for f in _DC[e[1]]["fields"]:
            r = _defect_site(f[1])
            if r:
                return r
    return None


def _pyclass(e: tuple) -> type:
    while e[0] == "opt":
        e = e[1]
    k = e[0]
    if k in _PYTYPE:
        return _PYTYPE[k]
    return {"list": list, "fset": frozenset, "dict": dict}[k] if k != "dc" else _DC[e[1]]["cls"]


def _unconverted(e: tuple, xs: Any) -> bool:
    """Some element that is present is not an instance of the Python class its annotation names."""
    cls = _pyclass(e)
    return any(x is not None and type(x) is not cls for x in xs)


def _diff_site(e: tuple, a: Any, b: Any) -> str | None:
    """Where (in terms of the annotation) the real round trip's result ``a`` departs from the expected ``b``."""
    if a is None or b is None:
        if a is None and b is None:
            return None
        return "none-not-preserved" if b is None else "value-became-none"
    k = e[0]
    if k == "opt":
        return _diff_site(e[1], a, b)
    if k in _PYTYPE:
        return None if (type(a) is type(b) and a == b) else k + "-value-differs"
    if k == "dc":
        info = _DC[e[1]]
        if type(a) is not info["cls"]:
            return "dataclass-not-rebuilt"
        for fname, fe, _d in info["fields"]:
            r = _diff_site(fe, getattr(a, fname), getattr(b, fname))
            if r:
                return r
        return None
    if k == "list":
        if not isinstance(a, list) or len(a) != len(b):
            return "list-differs"
        for x, y in zip(a, b):
            r = _diff_site(e[1], x, y)
            if r:
                return r
        return None
    if k == "fset":
        if not isinstance(a, frozenset):
            return "frozenset-not-rebuilt"
        if _unconverted(e[1], a):
            return "frozenset-elements-not-converted"
        return None if a == b else "frozenset-differs"
    if k == "dict":
        if not isinstance(a, dict):
            return "dict-not-rebuilt"
        if _unconverted(e[1], a):
            return "dict-keys-not-converted"
        if _unconverted(e[2], a.values()):
            return "dict-values-not-converted"
        if set(a) != set(b):
            return "dict-keys-differ"
        for key in b:
            r = _diff_site(e[2], a[key], b[key])
            if r:
                return r
        return None
    return None


def _observed_site(name: str, args: dict) -> str | None:
    """What failed in the real round trip of this counterexample (the finding is named after the failure)."""
    shape = _BY_NAME[name]
    expr = shape["expr"]
    v = _build(expr, _args_to_pool(args), -1, shape["depth"] >= 3)
    try:
        data = v.serialize_to_bytes()
    except Exception as exc:  # noqa: BLE001
        return _raise_site("serialize", exc)
    try:
        got = type(v).deserialize_from_bytes(data)
    except Exception as exc:  # noqa: BLE001
        return _raise_site("deserialize", exc)
    return _diff_site(expr, got, _expected(expr, v))


def signature(name: str, args: dict | None = None) -> str:
    site = None
    if args is not None:
        try:
            site = _observed_site(name, args)
        except Exception:  # noqa: BLE001
            site = None
    if site is None:  # could not be observed: fall back to the shape's first conversion site
        site = _defect_site(_BY_NAME[name]["expr"]) or "shape-" + name
    return "C03:deser:" + site


# ---------------------------------------------------------------------------
# import-time validation of the Arrow contract against real pyarrow (concrete instances)
# ---------------------------------------------------------------------------


def _concrete_pool(seed: int) -> _Pool:
    many = 64
    ints = tuple((-3, 0, 2**40, 5, -(2**62), 9)[(seed + j) % 6] for j in range(many))
    strs = tuple(("", "a", "é", "RED", "r", "zz")[(seed + j) % 6] for j in range(many))
    bools = tuple(((seed + j) % 2 == 0) for j in range(many))
    lens = tuple((2, 1, 0, 2)[(seed + j) % 4] for j in range(many))
    ens = tuple((seed + j) % 3 for j in range(many))
    zs = tuple(((seed + j) % 3 == 0) for j in range(many))
    return _Pool(lens, ints, bools, strs, ens, zs)


_CONTRACT_BROKEN: dict[str, str] = {}


def _validate_contract() -> None:
    for s in ACTIVE:
        for seed in (0, 1, 2):
            try:
                v = _build(s["expr"], _concrete_pool(seed), -1, s["depth"] >= 3)
            except TypeError:
                continue  # unhashable combination in a concrete set (not generated symbolically either)
            try:
                real = U._validate_single_row_batch(v._serialize(), type(v).__name__)
            except Exception:  # noqa: BLE001
                continue  # the repository cannot serialise this instance at all: the condition + replay report it
            try:
                model = _ser(v)
            except Exception as exc:  # noqa: BLE001
                model = exc
            if real != model:
                _CONTRACT_BROKEN[s["name"]] = f"Arrow contract mismatch on {v!r}: real {real!r} != model {model!r}"


_validate_contract()


# ---------------------------------------------------------------------------
# generated conditions (a real module file: CrossHair needs inspect.getsource)
# ---------------------------------------------------------------------------

_HEADER = '''"""Generated by harness/C03.py — one PEP-316 condition per dataclass shape. Do not edit."""
from engine.api import cond
import {host} as H

_ENC = [H.ASD._to_row_dict, H.ASD._convert_value_for_serialization, H.ASD.deserialize_from_batch,
        H.ASD._convert_value_for_deserialization, H.U._serialization_plan]
_L = H._L

'''

_TEMPLATE = '''
@cond(q={q}, t={t}, stubs=[H._STUB_ARROW], encoded=_ENC, bound={bound!r},
      replay=lambda args: H.replay({name!r}, args), signature=lambda args, conc: H.signature({name!r}, args))
def {fname}({params}) -> bool:
    """
    pre: {pre}
    post: _
    """
    return H.check({name!r}, ({n}), ({i}), ({b}), ({s}), ({e}), ({z}))

'''


def _tuple_src(prefix: str, count: int) -> str:
    return "".join(f"{prefix}{j}, " for j in range(count))


def _generate_source() -> str:
    out = [_HEADER.format(host=__name__)]
    for s in ACTIVE:
        need = _needs(s)
        params, pres = [], []
        for j in range(need["n"]):
            params.append(f"n{j}: int")
            pres.append(f"0 <= n{j} <= 2")
        for j in range(need["i"]):
            params.append(f"i{j}: int")
        for j in range(need["b"]):
            params.append(f"b{j}: bool")
        for j in range(need["s"]):
            params.append(f"s{j}: str")
            pres.append(f"len(s{j}) <= _L")
        for j in range(need["e"]):
            params.append(f"e{j}: int")
            pres.append(f"0 <= e{j} <= 2")
        for j in range(need["z"]):
            params.append(f"z{j}: bool")
        out.append(
            _TEMPLATE.format(
                q=60,  # (CPU seconds; the heaviest shapes need ~25 s on an idle machine, ~3x that under load)
                t=300,
                bound=f"{_describe(s['expr'])}; lens<=2, strs<={_L}",
                name=s["name"],
                fname="shape_" + s["name"],
                params=", ".join(params),
                pre=" and ".join(pres) if pres else "True",
                n=_tuple_src("n", need["n"]),
                i=_tuple_src("i", need["i"]),
                b=_tuple_src("b", need["b"]),
                s=_tuple_src("s", need["s"]),
                e=_tuple_src("e", need["e"]),
                z=_tuple_src("z", need["z"]),
            )
        )
    return "".join(out)


def _load_generated() -> None:
    d = tempfile.mkdtemp(prefix="verif-C03-gen-")
    atexit.register(shutil.rmtree, d, ignore_errors=True)
    path = os.path.join(d, "c03_shapes_generated.py")
    with open(path, "w") as f:
        f.write(_generate_source())
    spec = importlib.util.spec_from_file_location("c03_shapes_generated", path)
    assert spec is not None and spec.loader is not None
    mod = importlib.util.module_from_spec(spec)
    sys.modules["c03_shapes_generated"] = mod
    spec.loader.exec_module(mod)
    globals().setdefault("__verif_items__", []).extend(mod.__dict__.get("__verif_items__", []))


# ---------------------------------------------------------------------------
# (b) compact codec on flat shapes, msgpack as an ideal-codec contract stub
# ---------------------------------------------------------------------------

_PACKED: list = []


def _msgpack_copy(x: Any, unpacking: bool = False) -> Any:
    """What ``unpackb(packb(x, use_bin_type=True), raw=False)`` yields (msgpack's documented type mapping)."""
    if x is None:
        return None
    t = type(x)
    if t is bool or t is int or t is str or t is bytes or t is float:
        return x
    if t is bytearray or t is memoryview:
        return bytes(x)
    if t is list or t is tuple:
        return [_msgpack_copy(v, unpacking) for v in x]  # arrays come back as lists (use_list=True)
    if t is dict:
        if unpacking:
            for k in x:
                if type(k) is not str and type(k) is not bytes:
                    raise ValueError(f"{type(k).__name__} is not allowed for map key")  # strict_map_key=True
        return {_msgpack_copy(k, unpacking): _msgpack_copy(v, unpacking) for k, v in x.items()}
    raise TypeError(f"can not serialize {t.__name__!r} object")


# keyword arguments whose *modelled* value is the one listed; any other value / keyword leaves the model
_PACK_MODELLED = {"use_bin_type": True, "use_single_float": False, "strict_types": False, "datetime": False, "default": None, "autoreset": True}
_UNPACK_MODELLED = {"raw": False, "use_list": True, "strict_map_key": True, "timestamp": 0, "object_hook": None, "object_pairs_hook": None, "ext_hook": None, "list_hook": None}
_IRRELEVANT_KW = ("unicode_errors", "max_buffer_size", "max_str_len", "max_bin_len", "max_array_len", "max_map_len", "max_ext_len")


def _check_kw(which: str, modelled: dict, args: tuple, kw: dict) -> None:
    if args:
        raise HarnessModelError(f"msgpack stub: positional options to {which} are not modelled")
    for name, value in kw.items():
        if name in _IRRELEVANT_KW:
            continue
        if name not in modelled or value is not modelled[name]:
            raise HarnessModelError(f"msgpack stub: {which}({name}={value!r}) is not modelled")


def _stub_packb(obj: Any, *args: Any, **kw: Any) -> bytes:
    """packb returns an opaque token; unpackb(token) returns a structural copy of what was packed."""
    _check_kw("packb", _PACK_MODELLED, args, kw)
    _PACKED.append(_msgpack_copy(obj))
    return b"#%d" % (len(_PACKED) - 1)


def _stub_unpackb(data: Any, *args: Any, **kw: Any) -> Any:
    _check_kw("unpackb", _UNPACK_MODELLED, args, kw)
    data = bytes(data)
    if not data.startswith(b"#"):
        raise HarnessModelError("msgpack stub: foreign payload")
    return _msgpack_copy(_PACKED[int(data[1:].decode())], unpacking=True)


class _MsgpackStub:
    """Stands for the ``msgpack`` module; anything but packb/unpackb leaves the model."""

    packb = staticmethod(_stub_packb)
    unpackb = staticmethod(_stub_unpackb)

    def __getattr__(self, name: str) -> Any:
        raise HarnessModelError(f"msgpack stub: msgpack.{name} is not modelled")


_IdealMsgpack = _MsgpackStub()


_compact_plan_on = reglobalize(U._compact_plan, _HAVE_MSGPACK=True)
_serialize_compact = reglobalize(U.serialize_compact, msgpack=_IdealMsgpack, _compact_plan=_compact_plan_on)
_deserialize_compact = reglobalize(U.deserialize_compact, msgpack=_IdealMsgpack, _compact_plan=_compact_plan_on)

FLAT = _define("Flat", [("i", INT), ("b", BOOL), ("s", STR), ("oi", O(INT)), ("os", O(STR)), ("ob", O(BOOL)), ("t", INT, ("transient", 0))])
_NONFLAT = [s["expr"] for s in SHAPES if s["name"] in ("list_int", "leaf", "dict_int", "fset_enum", "scalars")]


# The real msgpack codec for replays.  The C extension is not installed here, but pip vendors the genuine
# msgpack distribution (pure-Python ``fallback`` Packer/Unpacker, same wire format and type mapping).
try:
    import msgpack as _REAL_MSGPACK  # type: ignore[import-not-found]
except ImportError:
    try:
        from pip._vendor import msgpack as _REAL_MSGPACK  # type: ignore[no-redef]
    except ImportError:
        _REAL_MSGPACK = None

if _REAL_MSGPACK is not None:
    # un-stubbed repository code; the only re-bound names are the optional import and its availability flag
    _real_serialize_compact = reglobalize(U.serialize_compact, msgpack=_REAL_MSGPACK, _compact_plan=_compact_plan_on)
    _real_deserialize_compact = reglobalize(U.deserialize_compact, msgpack=_REAL_MSGPACK, _compact_plan=_compact_plan_on)


def _real_compact_verdict(expr: tuple, v: Any) -> str | None:
    """C03, second sentence, on real code: real msgpack, real pyarrow.  None = holds / not judged."""
    if _REAL_MSGPACK is None:
        return None
    cls = type(v)
    try:
        got_a = cls.deserialize_from_bytes(v.serialize_to_bytes())
    except Exception:  # noqa: BLE001
        return None  # no Arrow encoding of this instance to agree with (Arrow's own domain; the shape items' business)
    try:
        blob = _real_serialize_compact(v)
    except Exception as exc:  # noqa: BLE001
        # with msgpack installed the state codec neither encodes nor declines (None -> Arrow fallback) an instance
        # that Arrow round-trips: the "with msgpack" half of C03's quantifier has no serialized form for it
        return f"{_describe(expr)}: serialize_compact({v!r}) raised {type(exc).__name__}: {exc} (neither a payload nor None) although Arrow encodes it"
    if blob is None:
        return None  # declined: the caller falls back to Arrow
    try:
        got_c = _real_deserialize_compact(cls, blob)
    except Exception as exc:  # noqa: BLE001
        return f"{_describe(expr)}: serialize_compact accepted {v!r} but deserialize_compact raised {type(exc).__name__}: {exc}"
    if not _same(expr, got_c, got_a):
        return f"{_describe(expr)}: {v!r} decodes to {got_c!r} from the compact encoding but to {got_a!r} from the Arrow encoding"
    return None


def _flat_instance(a: dict) -> Any:
    return _build(FLAT, _Pool((), (a["i0"], a["i1"], a["t0"]), (a["b0"], a["b1"]), (a["s0"], a["s1"]), (), (a["z0"], a["z1"], a["z2"])))


def _stubbed_agreement(expr: tuple, v: Any) -> bool:
    """Same judgement on the ideal-codec stub + the Arrow contract (what the solver explores)."""
    try:
        blob = _serialize_compact(v)
    except HarnessModelError:
        raise
    except Exception:  # noqa: BLE001
        return False  # neither a payload nor a refusal: the real replay decides whether Arrow encodes the instance
    if blob is None:
        return True  # declined -> Arrow fallback; C03 only speaks about instances the codec accepts
    try:
        got_c = _deserialize_compact(type(v), blob)
    except HarnessModelError:
        raise
    except Exception:  # noqa: BLE001
        return False
    return _same(expr, got_c, _deser(type(v), _ser(v)))


@cond(q=40, t=120, stubs=[_STUB_MSGPACK, _STUB_ARROW], encoded=[U.serialize_compact, U.deserialize_compact, U._compact_plan],
      bound="flat dataclass (int,bool,str,Optional of each,Transient); unbounded ints, strs len<=%d" % _L,
      replay=lambda a: _real_compact_verdict(FLAT, _flat_instance(a)),
      signature=lambda args, conc: "C03:compact:flat-decodes-differently-from-arrow")
def compact_codec_agrees_with_arrow_on_flat(i0: int, i1: int, t0: int, b0: bool, b1: bool, s0: str, s1: str, z0: bool, z1: bool, z2: bool) -> bool:
    """
    pre: len(s0) <= _L and len(s1) <= _L
    post: _
    """
    v = _build(FLAT, _Pool((), (i0, i1, t0), (b0, b1), (s0, s1), (), (z0, z1, z2)))
    return _stubbed_agreement(FLAT, v)


@cond(q=40, t=120, stubs=[_STUB_MSGPACK], encoded=[U.serialize_compact, U._compact_plan],
      bound="vacuity guard for compact_codec_agrees_with_arrow_on_flat (same instances): CONFIRMED = the codec accepts every one of "
            "them, so the agreement item decided the decode for all; INCONCLUSIVE = it declined some (C03 allows that: never a VIOLATION)")
def compact_codec_accepts_flat(i0: int, i1: int, t0: int, b0: bool, b1: bool, s0: str, s1: str, z0: bool, z1: bool, z2: bool) -> bool:
    """
    pre: len(s0) <= _L and len(s1) <= _L
    post: _
    """
    v = _build(FLAT, _Pool((), (i0, i1, t0), (b0, b1), (s0, s1), (), (z0, z1, z2)))
    try:
        blob = _serialize_compact(v)
    except HarnessModelError:
        raise
    except Exception as exc:  # noqa: BLE001
        raise HarnessModelError(f"vacuity guard: serialize_compact raised {type(exc).__name__} (judged by the agreement item)") from exc
    if blob is None:
        raise HarnessModelError("vacuity guard: the compact codec declined a flat instance; the agreement item says nothing about it")
    return True


def _nonflat_build(which: int, n0: int, i0: int, i1: int, s0: str, e0: int, e1: int, b0: bool) -> tuple:
    expr = _NONFLAT[0]
    for j in range(1, 5):
        if which == j:
            expr = _NONFLAT[j]
    return expr, _build(expr, _Pool((n0,), (i0, i1), (b0,), (s0, s0), (e0, e1), ()))


def _nonflat_instance(a: dict) -> tuple:
    return _nonflat_build(a["which"], a["n0"], a["i0"], a["i1"], a["s0"], a["e0"], a["e1"], a["b0"])


@cond(q=30, t=60, stubs=[_STUB_MSGPACK, _STUB_ARROW], encoded=[U.serialize_compact, U.deserialize_compact, U._compact_plan],
      bound="5 non-flat shapes (list, nested dataclass, dict, frozenset[Enum], Enum scalar) chosen by a symbolic index: whatever "
            "the codec accepts of them decodes like Arrow (declining them, as the code does today, is allowed but not required)",
      replay=lambda a: _real_compact_verdict(*_nonflat_instance(a)),
      signature=lambda args, conc: "C03:compact:non-flat-decodes-differently-from-arrow")
def compact_codec_agrees_with_arrow_on_non_flat(which: int, n0: int, i0: int, i1: int, s0: str, e0: int, e1: int, b0: bool) -> bool:
    """
    pre: 0 <= which <= 4 and 0 <= n0 <= 2 and len(s0) <= _L and 0 <= e0 <= 2 and 0 <= e1 <= 2
    post: _
    """
    expr, v = _nonflat_build(which, n0, i0, i1, s0, e0, e1, b0)
    return _stubbed_agreement(expr, v)


_load_generated()
