"""C09 — protocol-version gate admits exactly matching major.minor.

(a) rx   : L(SEMVER_REGEX as used by parse_version) == canonical semver over ASCII digits,
           decided for *all* strings (z3 regular-language equivalence, both inclusions).
(b) xh   : RpcServer._check_protocol_version (real bytecode, re-globalised so that
           parse_version is a contract stub "symbolic triple or ValueError", sound given (a)):
           returns <=> client parsed and major,minor equal; otherwise a protocol_version_mismatch
           error naming both versions and (for a genuine difference) a recognisable side to upgrade —
           the wording is read loosely, unrecognised wording is a harness model error, only a clearly
           opposite direction is a violation.  Replay: un-stubbed gate + real parser on rendered versions.
(c) xh   : parse_version value mapping on rendered triples, and the real gate (no stubs) on
           short symbolic client strings against a fixed server version.
(d) xh   : wiring table on the real stack (serve_one and the HTTP app): who is checked at all
           (__describe__ exempt, undeclared service never checks, HTTP 400); solver case split, concrete cells.
(e) xh   : the same wiring with the metadata VALUE as raw bytes (non-UTF-8 included) through the real request reader
           and dispatch: refused as protocol_version_mismatch when declared, never checked when not.
"""

from __future__ import annotations

import ast
import inspect
import re
import types

from engine.api import QUICK, REPO, HarnessModelError, cond, pick, task

from vgi_rpc import metadata as md
from vgi_rpc.rpc import _server as srv

PROPERTY = "C09"
ENCODED = [md.parse_version, srv.RpcServer._check_protocol_version]
BOUNDS = "rx: all strings over code points 0..0x2FFFF (unbounded length); gate: unbounded non-negative int triples; real gate: client strings len<=%d" % pick(5, 7)
BOUNDS += ("; wiring: service declaring 1.2.0 / none x {unary, producer stream, __describe__} x 9 client declarations x {socket serve_one, HTTP app}, "
           "each cell on the real stack (case split, concrete runs)"
           "; raw bytes: values x | x+'1.2.0' | '1.2.'+x | '1.2.0'+x, x any 0..2 bytes over a %d-byte alphabet (digits, newline, invalid/lead/continuation UTF-8 bytes), same services/methods/transports" % pick(6, 10))
OUTSIDE = (
    "the wiring of the gate (which calls are checked at all, __describe__ exempt, undeclared service never checks, HTTP 400) is decided only on the "
    "finite tables of items gate_wiring_table (one declared version, 9 client declarations) and gate_wiring_raw_bytes (byte values of four shapes over a small "
    "byte alphabet; other byte values, 3+ byte UTF-8 sequences and exchange streams not in the tables); "
    "Arrow transport of the metadata value; code points above 0x2FFFF; the wording of the refusal beyond naming both versions and a recognisable side to upgrade"
)
ASSUMPTIONS = [
    "parse_version stub in (b) = 'returns any triple of non-negative ints or raises ValueError' — justified by (a)+(c)",
]

CANONICAL = r"(0|[1-9][0-9]*)\.(0|[1-9][0-9]*)\.(0|[1-9][0-9]*)"


def _regex_mode() -> tuple[str, str]:
    """Which module-level pattern and which method parse_version applies (read from the live source)."""
    tree = ast.parse(inspect.getsource(md.parse_version))
    for node in ast.walk(tree):
        if isinstance(node, ast.Call) and isinstance(node.func, ast.Attribute) and node.func.attr in ("match", "fullmatch", "search"):
            if isinstance(node.func.value, ast.Name):
                return node.func.value.id, node.func.attr
    raise RuntimeError("parse_version no longer applies a module-level regex")


def _tests_corpus() -> list[str]:
    """String literals of the repository's own version tests (translator validation)."""
    import glob

    out: set[str] = set()
    for path in glob.glob(REPO + "/tests/**/*.py", recursive=True):
        try:
            src = open(path).read()
        except OSError:
            continue
        if "protocol_version" not in src and "parse_version" not in src:
            continue
        try:
            tree = ast.parse(src)
        except SyntaxError:
            continue
        for n in ast.walk(tree):
            if isinstance(n, ast.Constant) and isinstance(n.value, str) and 0 < len(n.value) <= 24 and any(c.isdigit() for c in n.value):
                out.add(n.value)
    return sorted(out)[:400]


@task(q=40, t=120, encoded=[md.parse_version], bound="all strings (regular-language equivalence)", engine="rx")
def grammar_equals_canonical_semver(budget: float, replay=None) -> dict:
    from engine import rx

    name, mode = _regex_mode()
    pattern = getattr(md, name)
    if replay is not None:
        s = replay["s"]
        return _replay_grammar(s, pattern, mode)
    try:
        impl = rx.lang(pattern, mode)
    except rx.Unsupported as e:
        return {"verdict": "INCONCLUSIVE", "detail": f"regex construct outside the translator: {e}", "queries": 0, "discharged": 0}
    spec = rx.lang(re.compile(CANONICAL, re.ASCII), "fullmatch")
    q = rx.Query(timeout_s=min(30.0, budget / 3))
    # translator validation on the repo's own test strings + solver-generated members
    corpus = _tests_corpus() + q.members(impl, 40, "members(impl)") + ["1.2.3\n", "1.2.3 ", " 1.2.3", "01.2.3", "1.2", "1.2.3.4", "1.2.3-rc1", "1.2.3+b", "١.٢.٣", ""]
    val = rx.validate_translation(pattern, mode, impl, corpus)
    if val["n_disagree"]:
        return {"verdict": "ERROR", "detail": f"sre->z3 translator disagrees with the live engine: {val['disagreements']}"}
    verdict, side, wit = q.equivalent(impl, spec, f"L({name}.{mode}) = L(canonical)")
    res = {"queries": q.queries, "discharged": q.discharged, "solver_s": round(q.solver_s, 3), "samples": q.log, "translator_validation": val, "distinct": q.discharged}
    if verdict == "unsat":
        res["verdict"] = "CONFIRMED"
        return res
    if verdict == "unknown":
        res.update(verdict="INCONCLUSIVE", detail="solver returned unknown")
        return res
    rp = _replay_grammar(wit, pattern, mode)
    res.update(rp)
    res["cex"] = {"s": wit}
    return res


def _noncanonical_class(s: str) -> str:
    """Why a string is not canonical MAJOR.MINOR.PATCH (for signatures only; first reason that applies)."""
    if re.fullmatch(CANONICAL, s, re.ASCII):
        return "canonical"
    if s.endswith("\n") and re.fullmatch(CANONICAL, s[:-1], re.ASCII):
        return "trailing-newline"
    if not s.isascii() and re.fullmatch(r"\d+\.\d+\.\d+", s):
        return "unicode-digit"
    if s != s.strip():
        return "whitespace"
    if re.fullmatch(r"[0-9]+\.[0-9]+\.[0-9]+", s, re.ASCII):
        return "leading-zero"
    if re.match(CANONICAL + r"[-+]", s, re.ASCII):
        return "prerelease-or-build"
    return "other"


def _replay_grammar(s: str, pattern, mode: str) -> dict:
    """Real replay: the public parse_version on the witness, against the canonical grammar."""
    canonical = re.fullmatch(CANONICAL, s, re.ASCII) is not None
    try:
        got = md.parse_version(s)
        accepted = True
    except ValueError:
        got, accepted = None, False
    if accepted != canonical:
        return {
            "verdict": "VIOLATION",
            "detail": f"parse_version({s!r}) {'accepted -> ' + repr(got) if accepted else 'rejected'} but the string is {'canonical' if canonical else 'not canonical MAJOR.MINOR.PATCH'}",
            "signature": "C09:grammar:" + ("accepts-noncanonical:" + _noncanonical_class(s) if accepted else "rejects-canonical"),
            "replayed": True,
        }
    return {"verdict": "INCONCLUSIVE", "detail": f"solver witness {s!r} did not reproduce on parse_version"}


# ---------------------------------------------------------------------------
# (b) the gate with parse_version as a contract stub
# ---------------------------------------------------------------------------

_HOLD: dict = {"triple": (0, 0, 0), "ok": True, "calls": 0}


def _stub_parse_version(value: str, *a: object, **k: object) -> tuple[int, int, int]:
    _HOLD["calls"] += 1
    if value != "C.C.C":
        raise HarnessModelError(f"parse_version stub asked about {value!r}, not the client's value")
    if not _HOLD["ok"]:
        raise ValueError("malformed")
    return _HOLD["triple"]


_g = dict(srv.__dict__)
_g["parse_version"] = _stub_parse_version
_gate_stubbed = types.FunctionType(
    srv.RpcServer._check_protocol_version.__code__,
    _g,
    "_check_protocol_version",
    srv.RpcServer._check_protocol_version.__defaults__,
    srv.RpcServer._check_protocol_version.__closure__,
)


class _Srv:
    """Stand-in for RpcServer: only the two attributes the gate documents it reads."""

    def __init__(self, parts: tuple[int, int, int], text: str) -> None:
        self._protocol_version_parts = parts
        self._protocol_version = text

    def __getattr__(self, name: str) -> object:
        raise HarnessModelError(f"_Srv fake has no attribute {name!r} (the gate reads more of the server than modelled)")


def _expect(server: tuple[int, int, int], parsed_ok: bool, client: tuple[int, int, int]) -> str:
    if not parsed_ok:
        return "malformed"
    if client[0] == server[0] and client[1] == server[1]:
        return "ok"
    if client[0] < server[0] or (client[0] == server[0] and client[1] < server[1]):
        return "client_old"
    return "server_old"


def _is_refusal(exc: BaseException) -> bool:
    """A protocol_version_mismatch refusal (WIRE_PROTOCOL §13: ProtocolVersionError / that error_kind)."""
    return getattr(exc, "error_kind", None) == "protocol_version_mismatch"


_SIDE_C = re.compile(r"client|extension")
_SIDE_S = re.compile(r"server|worker")
_OLD = re.compile(r"too old|older|outdated|out of date|out-of-date")
_CLAUSE = re.compile(r"[.;:\n]")


def _direction(text: str) -> set[str]:
    """Which side the message tells the reader to upgrade, read loosely (wording is not part of C09).

    Votes come from "upgrad… <side>" and "<side> … too old/older/outdated" inside one clause. An
    empty or two-sided result means "not recognised" (harness model limit), never a violation.
    """
    t = text.lower()
    votes: set[str] = set()
    for m in re.finditer(r"upgrad\w*", t):
        if re.search(r"\bbe\s+$", t[: m.start()]):  # passive: "<side> must be upgraded"
            head = _CLAUSE.split(t[max(0, m.start() - 40) : m.start()])[-1]
            cs = [x.start() for x in _SIDE_C.finditer(head)]
            ss = [x.start() for x in _SIDE_S.finditer(head)]
            if cs and (not ss or cs[-1] > ss[-1]):
                votes.add("client_old")
            elif ss:
                votes.add("server_old")
            continue
        tail = _CLAUSE.split(t[m.end() : m.end() + 60])[0]
        c, s = _SIDE_C.search(tail), _SIDE_S.search(tail)
        if c is not None and (s is None or c.start() < s.start()):
            votes.add("client_old")
        elif s is not None:
            votes.add("server_old")
    for m in _OLD.finditer(t):
        head = _CLAUSE.split(t[max(0, m.start() - 40) : m.start()])[-1]
        c = [x.start() for x in _SIDE_C.finditer(head)]
        s = [x.start() for x in _SIDE_S.finditer(head)]
        if c and (not s or c[-1] > s[-1]):
            votes.add("client_old")
        elif s:
            votes.add("server_old")
    return votes


def _judge_refusal(exc: BaseException, want: str, client_text: str, server_text: str) -> str | None:
    """Property-level judgement of a refusal; returns a problem description, None, or raises HarnessModelError."""
    if not _is_refusal(exc):
        return f"refused with {type(exc).__name__} (error_kind={getattr(exc, 'error_kind', None)!r}), not a protocol_version_mismatch error"
    text = str(exc)
    if server_text not in text:
        return "the refusal does not name the server's version"
    if want != "absent" and client_text not in text:
        return "the refusal does not name the client's version"
    if want in ("client_old", "server_old"):
        votes = _direction(text)
        if votes == {want}:
            return None
        if len(votes) == 1:
            return f"the refusal tells the wrong side to upgrade ({sorted(votes)[0]} where {want} holds)"
        raise HarnessModelError("direction wording of the refusal not recognised by the harness: " + text[-160:])
    return None


def _replay_decision_table(args: dict) -> str | None:
    """Un-stubbed gate + real parse_version on the rendered versions, judged against the property text."""
    server = (args["sM"], args["sm"], args["sp"])
    client = (args["cM"], args["cm"], args["cp"])
    server_text = _render(server)
    # parsed_ok=False region: a version the property itself names as malformed (prerelease suffix)
    client_text = _render(client) + ("" if args["parsed_ok"] else "-rc1")
    want = _expect(server, args["parsed_ok"], client)
    exc: BaseException | None = None
    try:
        srv.RpcServer._check_protocol_version(_Srv(server, server_text), client_text.encode())  # type: ignore[arg-type]
    except Exception as e:  # noqa: BLE001
        exc = e
    if want == "ok":
        return None if exc is None else f"client {client_text} refused by a server declaring {server_text} ({type(exc).__name__})"
    if exc is None:
        return f"client {client_text} admitted by a server declaring {server_text}"
    why = _judge_refusal(exc, want, client_text, server_text)
    return None if why is None else f"client {client_text} vs server {server_text}: {why}"


def _sig_decision_table(args: dict, conc: object) -> str:
    want = _expect((args["sM"], args["sm"], args["sp"]), args["parsed_ok"], (args["cM"], args["cm"], args["cp"]))
    why = _replay_decision_table(args) or ""
    what = "admits" if " admitted by " in why else "refuses" if " refused by " in why else "bad-refusal"
    return f"C09:gate:table:{what}:{want}"


@cond(q=60, t=180, stubs=["parse_version := any non-negative int triple | ValueError"], encoded=[srv.RpcServer._check_protocol_version], bound="unbounded ints >= 0",
      replay=_replay_decision_table, signature=_sig_decision_table)
def gate_decision_table(sM: int, sm: int, sp: int, cM: int, cm: int, cp: int, parsed_ok: bool) -> bool:
    """
    pre: sM >= 0 and sm >= 0 and sp >= 0 and cM >= 0 and cm >= 0 and cp >= 0
    post: _
    """
    _HOLD["triple"] = (cM, cm, cp)
    _HOLD["ok"] = parsed_ok
    _HOLD["calls"] = 0
    server_text = "S.S.S"
    fake = _Srv((sM, sm, sp), server_text)
    exc: BaseException | None = None
    try:
        _gate_stubbed(fake, b"C.C.C")
    except HarnessModelError:
        raise
    except Exception as e:  # noqa: BLE001
        exc = e
    if _HOLD["calls"] == 0:
        # the gate decided about a present, decodable value without the by-name parser: the stub
        # injection no longer models it (parser reached another way) -> not a verdict on the code
        raise HarnessModelError("the gate did not consult parse_version through its module global")
    want = _expect((sM, sm, sp), parsed_ok, (cM, cm, cp))
    if want == "ok":
        return exc is None
    if exc is None:
        return False
    return _judge_refusal(exc, want, "C.C.C", "S.S.S") is None


@cond(q=40, t=120, encoded=[srv.RpcServer._check_protocol_version], bound="absent / any 0..2 bytes",
      signature=lambda args, conc: "C09:gate:absent-or-short:" + ("absent" if not args["present"] else "bytes"))
def gate_absent_or_undecodable(present: bool, raw: bytes) -> bool:
    """
    pre: len(raw) <= 2
    post: _
    """
    fake = _Srv((1, 2, 3), "1.2.3")
    try:
        srv.RpcServer._check_protocol_version(fake, raw if present else None)  # type: ignore[arg-type]
    except HarnessModelError:
        raise
    except Exception as e:  # noqa: BLE001
        return _is_refusal(e) and "1.2.3" in str(e)
    # no 0..2 byte value is a canonical version (shortest is 5 chars)
    return False


# ---------------------------------------------------------------------------
# (c) value mapping and the un-stubbed functions on templated / short strings
# ---------------------------------------------------------------------------

_N = pick(60, 999)


@cond(q=60, t=300, encoded=[md.parse_version], bound="components 0..%d" % _N, signature=lambda args, conc: "C09:parse:canonical-value-or-rejection")
def parse_version_value_mapping(a: int, b: int, c: int) -> bool:
    """
    pre: 0 <= a <= _N and 0 <= b <= _N and 0 <= c <= _N
    post: _
    """
    try:
        got = md.parse_version(str(a) + "." + str(b) + "." + str(c))
    except Exception:  # noqa: BLE001
        return False
    return _triple(got) == (a, b, c)


def _triple(v: object) -> tuple[int, int, int]:
    """(major, minor, patch) of a parse_version result whatever its container (tuple today)."""
    if isinstance(v, (tuple, list)) and len(v) == 3:
        return (v[0], v[1], v[2])
    try:
        return (v.major, v.minor, v.patch)  # type: ignore[attr-defined]
    except AttributeError:
        raise HarnessModelError(f"parse_version result of type {type(v).__name__} is not understood by the harness") from None


def _render(t: object) -> str:
    M, m, p = _triple(t)
    return str(M) + "." + str(m) + "." + str(p)


@cond(q=60, t=120, encoded=[md.parse_version], bound="x,y any strings len<=1 around two canonical cores",
      signature=lambda args, conc: "C09:parse:accepts-noncanonical:" + _noncanonical_class(args["x"] + ("1.2.3" if args["core"] else "10.0.2") + args["y"]))
def parse_version_no_decoration(x: str, y: str, core: bool) -> bool:
    """
    pre: len(x) <= 1 and len(y) <= 1
    post: _
    """
    s = x + ("1.2.3" if core else "10.0.2") + y
    try:
        t = md.parse_version(s)
    except ValueError:
        return True
    except Exception:  # noqa: BLE001
        return False
    # accepted => the string is exactly the canonical rendering of what was parsed
    return s == _render(t)


@cond(q=60, t=600, tiers=("thorough",), encoded=[md.parse_version], bound="all strings len<=5",
      signature=lambda args, conc: "C09:parse:accepts-noncanonical:" + _noncanonical_class(args["s"]))
def parse_version_short_strings(s: str) -> bool:
    """
    pre: len(s) <= 5
    post: _
    """
    try:
        t = md.parse_version(s)
    except ValueError:
        return True
    except Exception:  # noqa: BLE001
        return False
    return s == _render(t)


def _replay_real_gate(args: dict) -> str | None:
    """Un-stubbed gate on the concrete client string vs the canonical rule (server 1.2.0)."""
    s = args["a"] + "." + args["b"] + "." + args["c"]
    fake = _Srv((1, 2, 0), "1.2.0")
    canonical = re.fullmatch(CANONICAL, s, re.ASCII)
    should_pass = bool(canonical) and int(canonical.group(1)) == 1 and int(canonical.group(2)) == 2
    try:
        srv.RpcServer._check_protocol_version(fake, s.encode())  # type: ignore[arg-type]
        passed = True
    except HarnessModelError:
        raise
    except Exception as e:  # noqa: BLE001
        if not _is_refusal(e):
            return f"client version {s!r}: the gate raised {type(e).__name__} instead of a protocol_version_mismatch refusal"
        passed = False
    if passed != should_pass:
        return f"client version {s!r} {'admitted' if passed else 'refused'} by a server declaring 1.2.0"
    return None


def _sig_real_gate(abc: dict) -> str:
    """Signature of a real-gate disagreement: direction + class of the witness string."""
    s = abc["a"] + "." + abc["b"] + "." + abc["c"]
    why = _replay_real_gate(abc) or ""
    if " admitted by " in why:
        cls = _noncanonical_class(s)
        return "C09:gate:admits-" + ("mismatch" if cls == "canonical" else "noncanonical:" + cls)
    if " refused by " in why:
        return "C09:gate:refuses-matching-canonical"
    return "C09:gate:crashes"


@cond(q=90, t=600, encoded=[srv.RpcServer._check_protocol_version, md.parse_version],
      bound="client = a.b.c with a,b any strings len<=1 and c any string len<=%d, server 1.2.0 (three components of length 2 did not exhaust in 900 s CPU; longer single components: real_gate_one_free_component)" % pick(1, 2),
      replay=_replay_real_gate, signature=lambda args, conc: _sig_real_gate(args))
def real_gate_templated(a: str, b: str, c: str) -> bool:
    """
    pre: len(a) <= 1 and len(b) <= 1 and len(c) <= _L
    post: _
    """
    client = a + "." + b + "." + c
    fake = _Srv((1, 2, 0), "1.2.0")
    try:
        srv.RpcServer._check_protocol_version(fake, client.encode())  # type: ignore[arg-type]
        passed = True
    except HarnessModelError:
        raise
    except Exception as e:  # noqa: BLE001
        if not _is_refusal(e):
            return False
        passed = False
    digits = "0123456789"
    ok_c = len(c) >= 1 and all(ch in digits for ch in c) and (c == "0" or c[0] != "0")
    want = a == "1" and b == "2" and ok_c
    return passed == want


_L = pick(1, 2)


# One component free (up to 3 chars), the other two as the server declares them: the shape a
# "fast path" or prefix shortcut in the gate would get wrong (added after a seeded change that
# admitted '1.2.03' through a startswith()/isdigit() shortcut went unnoticed by the 1-char template).
_L1 = pick(3, 4)


def _one_component(args: dict) -> dict:
    parts = ["1", "2", "0"]
    parts[args["which"]] = args["x"]
    return {"a": parts[0], "b": parts[1], "c": parts[2]}


def _replay_one_component(args: dict) -> str | None:
    return _replay_real_gate(_one_component(args))


@cond(q=90, t=600, encoded=[srv.RpcServer._check_protocol_version, md.parse_version], bound="client = server's 1.2.0 with ONE component replaced by any ASCII string (patch len<=%d, major/minor len<=%d)" % (_L1, _L1 - 1),
      replay=_replay_one_component, signature=lambda args, conc: _sig_real_gate(_one_component(args)))
def real_gate_one_free_component(which: int, x: str) -> bool:
    """
    pre: 0 <= which <= 2 and len(x) <= (_L1 if which == 2 else _L1 - 1) and x.isascii()
    post: _
    """
    parts = ["1", "2", "0"]
    if which == 0:
        parts[0] = x
    elif which == 1:
        parts[1] = x
    else:
        parts[2] = x
    client = parts[0] + "." + parts[1] + "." + parts[2]
    fake = _Srv((1, 2, 0), "1.2.0")
    try:
        srv.RpcServer._check_protocol_version(fake, client.encode())  # type: ignore[arg-type]
        passed = True
    except HarnessModelError:
        raise
    except Exception as e:  # noqa: BLE001
        if not _is_refusal(e):
            return False
        passed = False
    digits = "0123456789"
    canonical = len(x) >= 1 and all(ch in digits for ch in x) and (x == "0" or x[0] != "0")
    if which == 0:
        want = x == "1"
    elif which == 1:
        want = x == "2"
    else:
        want = canonical
    return passed == want


_ALPHA = "0139a .-"


def _ch(i: int) -> str:
    # branch a symbolic index to a concrete character (the gate then runs on concrete bytes: shortcuts
    # written with bytes methods / %-formatting are outside what CrossHair executes symbolically)
    for k in range(len(_ALPHA)):
        if i == k:
            return _ALPHA[k]
    return _ALPHA[0]


def _grid_abc(a: dict) -> dict:
    return {"a": "1", "b": "2", "c": "".join(_ALPHA[a[k]] for k in ("i0", "i1", "i2"))[: a["n"]]}


@cond(q=90, t=300, encoded=[srv.RpcServer._check_protocol_version, md.parse_version], bound="client = '1.2.' + patch, patch any string of length 0..3 over the alphabet '0139a .-' (solver case split; the gate runs concretely)",
      replay=lambda a: _replay_real_gate(_grid_abc(a)), signature=lambda args, conc: _sig_real_gate(_grid_abc(args)))
def real_gate_patch_grid(n: int, i0: int, i1: int, i2: int) -> bool:
    """
    pre: 0 <= n <= 3 and 0 <= i0 <= 7 and 0 <= i1 <= 7 and 0 <= i2 <= 7
    post: _
    """
    patch = (_ch(i0) + _ch(i1) + _ch(i2))
    if n == 0:
        patch = ""
    elif n == 1:
        patch = patch[:1]
    elif n == 2:
        patch = patch[:2]
    fake = _Srv((1, 2, 0), "1.2.0")
    try:
        srv.RpcServer._check_protocol_version(fake, ("1.2." + patch).encode())  # type: ignore[arg-type]
        passed = True
    except HarnessModelError:
        raise
    except Exception as e:  # noqa: BLE001
        if not _is_refusal(e):
            return False
        passed = False
    canonical = len(patch) >= 1 and all(ch in "0123456789" for ch in patch) and (len(patch) == 1 or patch[0] != "0")
    return passed == canonical


# ---------------------------------------------------------------------------
# (d) wiring of the gate into the dispatch sites: who is checked at all
# ---------------------------------------------------------------------------
# "every call except introspection", "a service declaring no version never checks", "identically on socket
# transports and HTTP (400)".  The real serve_one and the real falcon app, un-stubbed, on real request bytes; the
# solver only splits the finite table (service declares / method kind / what the client declared / transport) and
# every cell runs concretely outside the tracer (nothing symbolic flows into the stack).

from dataclasses import dataclass as _dataclass  # noqa: E402
from io import BytesIO as _BytesIO  # noqa: E402
from typing import ClassVar as _ClassVar, Protocol as _Protocol  # noqa: E402

import pyarrow as _pa  # noqa: E402
from pyarrow import ipc as _ipc  # noqa: E402

from vgi_rpc.rpc import ProducerState as _ProducerState, Stream as _Stream  # noqa: E402
from vgi_rpc.rpc import _wire as _wire  # noqa: E402
from vgi_rpc.rpc._common import _EMPTY_SCHEMA, RpcError as _RpcError  # noqa: E402
from vgi_rpc.utils import IpcValidation as _IpcValidation, ValidatedReader as _ValidatedReader, empty_batch as _empty_batch  # noqa: E402

_W: dict = {"calls": 0}
_WSCHEMA = _pa.schema([_pa.field("v", _pa.int64())])


@_dataclass
class _WProd(_ProducerState):
    def produce(self, out, ctx) -> None:  # type: ignore[no-untyped-def]
        out.finish()


class _VSvc(_Protocol):
    protocol_version: _ClassVar[str] = "1.2.0"

    def add(self, a: int) -> int: ...

    def gen(self) -> _Stream[_WProd]: ...


class _NSvc(_Protocol):
    def add(self, a: int) -> int: ...

    def gen(self) -> _Stream[_WProd]: ...


class _WImpl:
    def add(self, a: int) -> int:
        _W["calls"] += 1
        return a + 1

    def gen(self) -> _Stream[_WProd]:
        _W["calls"] += 1
        return _Stream(output_schema=_WSCHEMA, state=_WProd())


# what the client declares: (label, metadata value or None, admitted by a server declaring 1.2.0, expected direction)
_CLIENT_KINDS = (
    ("absent", None, False, "absent"),
    ("same", "1.2.0", True, ""),
    ("other-patch", "1.2.9", True, ""),
    ("older", "1.1.7", False, "client_old"),
    ("newer", "2.0.0", False, "server_old"),
    ("prerelease", "1.2.0-rc1", False, "malformed"),
    ("leading-zero", "1.02.0", False, "malformed"),
    ("leading-zero-patch", "1.2.03", False, "malformed"),
    ("whitespace", "1.2.0 ", False, "malformed"),
)
_METHODS = ("add", "gen", "__describe__")


def _wiring_request(method: str, version: str | bytes | None, with_ticks: bool) -> bytes:
    from vgi_rpc.rpc import rpc_methods

    b = _BytesIO()
    if isinstance(version, bytes):  # a raw metadata value (any bytes, possibly not UTF-8), as a foreign client could send it
        kw: dict = {"extra_metadata": {md.PROTOCOL_VERSION_KEY: version}}
    else:
        kw = {"protocol_version": version}
    if method == "__describe__":
        _wire._write_request(b, method, _EMPTY_SCHEMA, {}, **kw)
    else:
        info = rpc_methods(_VSvc)[method]
        _wire._write_request(b, method, info.params_schema, {"a": 1} if method == "add" else {}, **kw)
    if isinstance(version, bytes):
        # the request really carries these bytes (the client-side writer is not what is being checked)
        _b, cm = _ipc.open_stream(_BytesIO(b.getvalue())).read_next_batch_with_custom_metadata()
        if cm is None or cm.get(md.PROTOCOL_VERSION_KEY) != version:
            raise HarnessModelError("the request writer did not put the raw protocol_version bytes on the wire")
    if with_ticks and method == "gen":
        with _ipc.new_stream(b, _EMPTY_SCHEMA) as w:  # the producer's tick stream that follows the request on a socket
            w.write_batch(_empty_batch(_EMPTY_SCHEMA))
    return b.getvalue()


def _wiring_error(body: bytes):  # type: ignore[no-untyped-def]
    """The RpcError a client reading this response stream would get, or None."""
    try:
        rd = _ValidatedReader(_ipc.open_stream(_BytesIO(body)), _IpcValidation.FULL)
        while True:
            _wire._read_batch_with_log_check(rd, None)
    except StopIteration:
        return None
    except _RpcError as e:
        return e


class _WTransport:
    def __init__(self, request: bytes) -> None:
        self.reader = _BytesIO(request)
        self.writer = _BytesIO()

    def close(self) -> None:
        pass


_W_SERVERS: dict = {}


def _wiring_cell(declared: bool, mi: int, ki: int, http: bool) -> str | None:
    """One cell on real code; returns a description of how the property is broken, or None."""
    label, version, admitted, direction = _CLIENT_KINDS[ki]
    return _wiring_judge(declared, _METHODS[mi], label, version, admitted, direction, http)


def _wiring_judge(declared: bool, method: str, label: str, version: str | bytes | None, admitted: bool, direction: str, http: bool) -> str | None:
    """One real request (version: text, raw bytes or absent) through the real stack, judged against the property."""
    key = (declared, http)
    if key not in _W_SERVERS:
        server = srv.RpcServer(_VSvc if declared else _NSvc, _WImpl(), server_id="srv", enable_describe=True)
        if http:
            from vgi_rpc.http._testing import make_sync_client

            _W_SERVERS[key] = make_sync_client(server, token_key=b"k" * 32, compression_level=None)
        else:
            _W_SERVERS[key] = server
    _W["calls"] = 0
    status = None
    if http:
        url = "/" + method + ("/init" if method == "gen" else "")
        r = _W_SERVERS[key].post(url, content=_wiring_request(method, version, False), headers={"Content-Type": "application/vnd.apache.arrow.stream"})
        status, body = r.status_code, r.content
    else:
        tr = _WTransport(_wiring_request(method, version, True))
        _W_SERVERS[key].serve_one(tr)
        body = tr.writer.getvalue()
    err = _wiring_error(body)
    where = "%s %s, client %s (%r), service %s a version" % ("HTTP" if http else "socket", method, label, version, "declaring" if declared else "not declaring")
    must_refuse = declared and method != "__describe__" and not admitted
    if not must_refuse:
        if err is not None:
            return f"{where}: refused with {err.error_type} (kind {err.error_kind!r}) — this call must be dispatched"
        if method != "__describe__" and _W["calls"] != 1:
            return f"{where}: the method ran {_W['calls']} times"
        return None
    if _W["calls"]:
        return f"{where}: the method was dispatched"
    if err is None:
        return f"{where}: no error reached the client"
    if err.error_kind != "protocol_version_mismatch":
        return f"{where}: refused with error_kind {err.error_kind!r} ({err.error_type}), not protocol_version_mismatch"
    text = err.error_message
    shown = version
    if isinstance(version, bytes):  # bytes that are not text cannot be named; text is named as it decodes
        try:
            shown = version.decode("utf-8")
        except UnicodeDecodeError:
            shown = None
    if "1.2.0" not in text or (shown is not None and shown not in text):
        return f"{where}: the refusal does not name both versions: {text[-200:]!r}"
    if direction in ("client_old", "server_old"):
        votes = _direction(text)
        if len(votes) == 1 and votes != {direction}:
            return f"{where}: the refusal tells the wrong side to upgrade"
    if http and status != 400:
        return f"{where}: HTTP status {status}, not 400"
    return None


def _replay_wiring(args: dict) -> str | None:
    return _wiring_cell(bool(args["declared"]), args["method"], args["kind"], bool(args["http"]))


@cond(q=60, t=120, encoded=[srv.RpcServer.serve_one, srv.RpcServer._check_protocol_version], replay=_replay_wiring,
      bound="service declaring 1.2.0 / none x {unary, producer stream, __describe__} x %d client declarations (absent, same, other patch, older, newer, 4 malformed) x {socket serve_one, HTTP app} "
            "(solver case split over the table; each cell runs the real stack concretely)" % len(_CLIENT_KINDS),
      signature=lambda a, c: "C09:wiring:%s:%s:%s:%s" % ("http" if a["http"] else "socket", _METHODS[a["method"]], "declared" if a["declared"] else "undeclared", _CLIENT_KINDS[a["kind"]][0]))
def gate_wiring_table(declared: bool, method: int, kind: int, http: bool) -> bool:
    """
    pre: 0 <= method <= 2 and 0 <= kind <= 8
    post: _
    """
    mi = _pick_index(method, len(_METHODS))
    ki = _pick_index(kind, len(_CLIENT_KINDS))
    d, h = (True if declared else False), (True if http else False)
    try:
        from crosshair.tracers import NoTracing, is_tracing

        tracing = is_tracing()
    except ImportError:  # pragma: no cover
        tracing = False
    if tracing:
        with NoTracing():
            return _wiring_cell(d, mi, ki, h) is None
    return _wiring_cell(d, mi, ki, h) is None


def _pick_index(i: int, n: int) -> int:
    # branch a symbolic index to a concrete one
    for k in range(n):
        if i == k:
            return k
    raise HarnessModelError("index outside the table")


# ---------------------------------------------------------------------------
# (e) raw metadata bytes -> gate, through the real dispatch
# ---------------------------------------------------------------------------
# The table above declares versions as text.  What a server receives is a byte string, and between the wire and the
# gate sit the shared request reader and the per-transport dispatch code: "non-UTF-8 ... is refused with a
# protocol_version_mismatch error", "a service declaring no version never checks" must hold for the bytes as
# received.  The value is assembled from a byte alphabet that spans the UTF-8 decoder's cases (invalid start byte,
# lead byte without / with its continuation, stray continuation) next to ASCII digits and a newline, in four shapes
# around the server's own version; the expectation comes from Python's strict UTF-8 decoder and the canonical grammar only.
# (added after a seeded change: a "must be text" check in the request reader that answered non-UTF-8 values with a
# generic ProtocolError, also for a service that declares nothing.)

_BYTE_ALPHA = pick((0x30, 0x39, 0x0A, 0xFF, 0xC3, 0xA9), (0x30, 0x39, 0x0A, 0xFF, 0xC3, 0xA9, 0x80, 0x20, 0xED, 0xC0))
_RAW_SHAPES = ("whole", "prefix", "patch", "suffix")  # x | x+"1.2.0" | "1.2."+x | "1.2.0"+x


def _raw_value(shape: int, n: int, i0: int, i1: int) -> bytes:
    x = bytes([_BYTE_ALPHA[i0], _BYTE_ALPHA[i1]])[:n]
    return (x, x + b"1.2.0", b"1.2." + x, b"1.2.0" + x)[shape]


def _raw_class(raw: bytes) -> str:
    try:
        return _noncanonical_class(raw.decode("utf-8"))
    except UnicodeDecodeError:
        return "non-utf8"


def _raw_cell(declared: bool, mi: int, http: bool, shape: int, n: int, i0: int, i1: int) -> str | None:
    raw = _raw_value(shape, n, i0, i1)
    try:
        m = re.fullmatch(CANONICAL, raw.decode("utf-8"), re.ASCII)
    except UnicodeDecodeError:
        m = None
    admitted, direction = False, "malformed"
    if m is not None:  # canonical text: the same rule as for a declared string ('91.2.0' is a newer client)
        direction = _expect((1, 2, 0), True, (int(m.group(1)), int(m.group(2)), int(m.group(3))))
        admitted = direction == "ok"
    return _wiring_judge(declared, _METHODS[mi], _raw_class(raw), raw, admitted, direction, http)


def _replay_raw(args: dict) -> str | None:
    return _raw_cell(bool(args["declared"]), args["method"], bool(args["http"]), args["shape"], args["n"], args["i0"], args["i1"])


@cond(q=150, t=600, encoded=[srv.RpcServer.serve_one, _wire._read_request, srv.RpcServer._check_protocol_version], replay=_replay_raw,
      bound="client metadata VALUE as raw bytes: x | x+'1.2.0' | '1.2.'+x | '1.2.0'+x with x any 0..2 bytes over {%s}, x service declaring 1.2.0 / none "
            "x {unary, producer stream, __describe__} x {socket serve_one, HTTP app} (solver case split; each cell runs the real stack concretely)"
            % ",".join("0x%02x" % b for b in _BYTE_ALPHA),
      signature=lambda a, c: "C09:wiring-bytes:%s:%s:%s:%s" % ("http" if a["http"] else "socket", _METHODS[a["method"]], "declared" if a["declared"] else "undeclared",
                                                              _raw_class(_raw_value(a["shape"], a["n"], a["i0"], a["i1"]))))
def gate_wiring_raw_bytes(declared: bool, method: int, http: bool, shape: int, n: int, i0: int, i1: int) -> bool:
    """
    pre: 0 <= method <= 2 and 0 <= shape <= 3 and 0 <= n <= 2 and 0 <= i0 < len(_BYTE_ALPHA) and 0 <= i1 < len(_BYTE_ALPHA)
    pre: (n >= 1 or i0 == 0) and (n >= 2 or i1 == 0)
    post: _
    """
    mi = _pick_index(method, len(_METHODS))
    si = _pick_index(shape, len(_RAW_SHAPES))
    ni = _pick_index(n, 3)
    a0 = _pick_index(i0, len(_BYTE_ALPHA))
    a1 = _pick_index(i1, len(_BYTE_ALPHA))
    d, h = (True if declared else False), (True if http else False)
    try:
        from crosshair.tracers import NoTracing, is_tracing

        tracing = is_tracing()
    except ImportError:  # pragma: no cover
        tracing = False
    if tracing:
        with NoTracing():
            return _raw_cell(d, mi, h, si, ni, a0, a1) is None
    return _raw_cell(d, mi, h, si, ni, a0, a1) is None
