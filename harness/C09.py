"""C09 — protocol-version gate admits exactly matching major.minor.

(a) rx   : L(SEMVER_REGEX as used by parse_version) == canonical semver over ASCII digits,
           decided for *all* strings (z3 regular-language equivalence, both inclusions).
(b) xh   : RpcServer._check_protocol_version (real bytecode, re-globalised so that
           parse_version is a contract stub "symbolic triple or ValueError", sound given (a)):
           returns <=> client parsed and major,minor equal; otherwise ProtocolVersionError with
           the right kind, both versions and the right direction text.
(c) xh   : parse_version value mapping on rendered triples, and the real gate (no stubs) on
           short symbolic client strings against a fixed server version.
"""

from __future__ import annotations

import ast
import inspect
import re
import types

from engine.api import QUICK, REPO, cond, pick, task

from vgi_rpc import metadata as md
from vgi_rpc.rpc import _server as srv
from vgi_rpc.rpc._common import ProtocolVersionError

PROPERTY = "C09"
ENCODED = [md.parse_version, srv.RpcServer._check_protocol_version]
BOUNDS = "rx: all strings over code points 0..0x2FFFF (unbounded length); gate: unbounded non-negative int triples; real gate: client strings len<=%d" % pick(5, 7)
OUTSIDE = "HTTP 400 mapping end-to-end; Arrow transport of the metadata value; code points above 0x2FFFF"
ASSUMPTIONS = [
    "parse_version stub in (b) = 'returns any triple of non-negative ints or raises ValueError' — justified by (a)+(c)",
]

CANONICAL = r"(0|[1-9][0-9]*)\.(0|[1-9][0-9]*)\.(0|[1-9][0-9]*)"


def _regex_mode() -> tuple[str, str]:
    """Which module-level pattern and which method parse_version applies (read from the live source)."""
    tree = ast.parse(inspect.getsource(md.parse_version))
    for node in ast.walk(tree):
        if isinstance(node, ast.Call) and isinstance(node.func, ast.Attribute) and node.func.attr in ("match", "fullmatch", "search"):
            if isinstance(node.func.value, ast.Name):
                return node.func.value.id, node.func.attr
    raise RuntimeError("parse_version no longer applies a module-level regex")


def _tests_corpus() -> list[str]:
    """String literals of the repository's own version tests (translator validation)."""
    import glob

    out: set[str] = set()
    for path in glob.glob(REPO + "/tests/**/*.py", recursive=True):
        try:
            src = open(path).read()
        except OSError:
            continue
        if "protocol_version" not in src and "parse_version" not in src:
            continue
        try:
            tree = ast.parse(src)
        except SyntaxError:
            continue
        for n in ast.walk(tree):
            if isinstance(n, ast.Constant) and isinstance(n.value, str) and 0 < len(n.value) <= 24 and any(c.isdigit() for c in n.value):
                out.add(n.value)
    return sorted(out)[:400]


@task(q=40, t=120, encoded=[md.parse_version], bound="all strings (regular-language equivalence)", engine="rx")
def grammar_equals_canonical_semver(budget: float, replay=None) -> dict:
    from engine import rx

    name, mode = _regex_mode()
    pattern = getattr(md, name)
    if replay is not None:
        s = replay["s"]
        return _replay_grammar(s, pattern, mode)
    try:
        impl = rx.lang(pattern, mode)
    except rx.Unsupported as e:
        return {"verdict": "INCONCLUSIVE", "detail": f"regex construct outside the translator: {e}", "queries": 0, "discharged": 0}
    spec = rx.lang(re.compile(CANONICAL, re.ASCII), "fullmatch")
    q = rx.Query(timeout_s=min(30.0, budget / 3))
    # translator validation on the repo's own test strings + solver-generated members
    corpus = _tests_corpus() + q.members(impl, 40, "members(impl)") + ["1.2.3\n", "1.2.3 ", " 1.2.3", "01.2.3", "1.2", "1.2.3.4", "1.2.3-rc1", "1.2.3+b", "١.٢.٣", ""]
    val = rx.validate_translation(pattern, mode, impl, corpus)
    if val["n_disagree"]:
        return {"verdict": "ERROR", "detail": f"sre->z3 translator disagrees with the live engine: {val['disagreements']}"}
    verdict, side, wit = q.equivalent(impl, spec, f"L({name}.{mode}) = L(canonical)")
    res = {"queries": q.queries, "discharged": q.discharged, "solver_s": round(q.solver_s, 3), "samples": q.log, "translator_validation": val, "distinct": q.discharged}
    if verdict == "unsat":
        res["verdict"] = "CONFIRMED"
        return res
    if verdict == "unknown":
        res.update(verdict="INCONCLUSIVE", detail="solver returned unknown")
        return res
    rp = _replay_grammar(wit, pattern, mode)
    res.update(rp)
    res["cex"] = {"s": wit}
    return res


def _replay_grammar(s: str, pattern, mode: str) -> dict:
    """Real replay: the public parse_version on the witness, against the canonical grammar."""
    canonical = re.fullmatch(CANONICAL, s, re.ASCII) is not None
    try:
        got = md.parse_version(s)
        accepted = True
    except ValueError:
        got, accepted = None, False
    if accepted != canonical:
        return {
            "verdict": "VIOLATION",
            "detail": f"parse_version({s!r}) {'accepted -> ' + repr(got) if accepted else 'rejected'} but the string is {'canonical' if canonical else 'not canonical MAJOR.MINOR.PATCH'}",
            "signature": "C09:grammar:" + ("accepts-noncanonical" if accepted else "rejects-canonical"),
            "replayed": True,
        }
    return {"verdict": "INCONCLUSIVE", "detail": f"solver witness {s!r} did not reproduce on parse_version"}


# ---------------------------------------------------------------------------
# (b) the gate with parse_version as a contract stub
# ---------------------------------------------------------------------------

_HOLD: dict = {"triple": (0, 0, 0), "ok": True}


def _stub_parse_version(value: str) -> tuple[int, int, int]:
    if not _HOLD["ok"]:
        raise ValueError("malformed")
    return _HOLD["triple"]


_g = dict(srv.__dict__)
_g["parse_version"] = _stub_parse_version
_gate_stubbed = types.FunctionType(
    srv.RpcServer._check_protocol_version.__code__,
    _g,
    "_check_protocol_version",
    srv.RpcServer._check_protocol_version.__defaults__,
    srv.RpcServer._check_protocol_version.__closure__,
)


class _Srv:
    def __init__(self, parts: tuple[int, int, int], text: str) -> None:
        self._protocol_version_parts = parts
        self._protocol_version = text


def _expect(server: tuple[int, int, int], parsed_ok: bool, client: tuple[int, int, int]) -> str:
    if not parsed_ok:
        return "malformed"
    if client[0] == server[0] and client[1] == server[1]:
        return "ok"
    if client[0] < server[0] or (client[0] == server[0] and client[1] < server[1]):
        return "client_old"
    return "server_old"


def _classify(exc: BaseException | None) -> str:
    if exc is None:
        return "ok"
    if not isinstance(exc, ProtocolVersionError):
        return "other:" + type(exc).__name__
    if getattr(exc, "error_kind", None) != "protocol_version_mismatch":
        return "wrong_kind"
    text = str(exc)
    if "client is too old" in text and "server is too old" not in text:
        return "client_old"
    if "server is too old" in text and "client is too old" not in text:
        return "server_old"
    if "malformed" in text:
        return "malformed"
    if "not declared" in text:
        return "absent"
    if "undecodable" in text:
        return "undecodable"
    return "unknown_text"


@cond(q=60, t=180, stubs=["parse_version := any non-negative int triple | ValueError"], encoded=[srv.RpcServer._check_protocol_version], bound="unbounded ints >= 0")
def gate_decision_table(sM: int, sm: int, sp: int, cM: int, cm: int, cp: int, parsed_ok: bool) -> bool:
    """
    pre: sM >= 0 and sm >= 0 and sp >= 0 and cM >= 0 and cm >= 0 and cp >= 0
    post: _
    """
    _HOLD["triple"] = (cM, cm, cp)
    _HOLD["ok"] = parsed_ok
    server_text = "S.S.S"
    fake = _Srv((sM, sm, sp), server_text)
    exc: BaseException | None = None
    try:
        _gate_stubbed(fake, b"C.C.C")
    except Exception as e:  # noqa: BLE001
        exc = e
    got = _classify(exc)
    want = _expect((sM, sm, sp), parsed_ok, (cM, cm, cp))
    if got != want:
        return False
    if exc is not None:
        text = str(exc)
        # names both versions
        if "C.C.C" not in text or "S.S.S" not in text:
            return False
    return True


@cond(q=40, t=120, encoded=[srv.RpcServer._check_protocol_version], bound="absent / any 0..2 bytes")
def gate_absent_or_undecodable(present: bool, raw: bytes) -> bool:
    """
    pre: len(raw) <= 2
    post: _
    """
    fake = _Srv((1, 2, 3), "1.2.3")
    try:
        srv.RpcServer._check_protocol_version(fake, raw if present else None)  # type: ignore[arg-type]
    except ProtocolVersionError as e:
        return getattr(e, "error_kind", None) == "protocol_version_mismatch" and "1.2.3" in str(e)
    except Exception:  # noqa: BLE001
        return False
    # no 0..2 byte value is a canonical version (shortest is 5 chars)
    return False


# ---------------------------------------------------------------------------
# (c) value mapping and the un-stubbed functions on templated / short strings
# ---------------------------------------------------------------------------

_N = pick(60, 999)


@cond(q=60, t=300, encoded=[md.parse_version], bound="components 0..%d" % _N)
def parse_version_value_mapping(a: int, b: int, c: int) -> bool:
    """
    pre: 0 <= a <= _N and 0 <= b <= _N and 0 <= c <= _N
    post: _
    """
    try:
        return md.parse_version(str(a) + "." + str(b) + "." + str(c)) == (a, b, c)
    except Exception:  # noqa: BLE001
        return False


def _render(t: tuple[int, int, int]) -> str:
    return str(t[0]) + "." + str(t[1]) + "." + str(t[2])


@cond(q=60, t=120, encoded=[md.parse_version], bound="x,y any strings len<=1 around two canonical cores")
def parse_version_no_decoration(x: str, y: str, core: bool) -> bool:
    """
    pre: len(x) <= 1 and len(y) <= 1
    post: _
    """
    s = x + ("1.2.3" if core else "10.0.2") + y
    try:
        t = md.parse_version(s)
    except ValueError:
        return True
    except Exception:  # noqa: BLE001
        return False
    # accepted => the string is exactly the canonical rendering of what was parsed
    return s == _render(t)


@cond(q=60, t=600, tiers=("thorough",), encoded=[md.parse_version], bound="all strings len<=5")
def parse_version_short_strings(s: str) -> bool:
    """
    pre: len(s) <= 5
    post: _
    """
    try:
        t = md.parse_version(s)
    except ValueError:
        return True
    except Exception:  # noqa: BLE001
        return False
    return s == _render(t)


def _replay_real_gate(args: dict) -> str | None:
    """Un-stubbed gate on the concrete client string vs the canonical rule (server 1.2.0)."""
    s = args["a"] + "." + args["b"] + "." + args["c"]
    fake = _Srv((1, 2, 0), "1.2.0")
    canonical = re.fullmatch(CANONICAL, s, re.ASCII)
    should_pass = bool(canonical) and int(canonical.group(1)) == 1 and int(canonical.group(2)) == 2
    try:
        srv.RpcServer._check_protocol_version(fake, s.encode())  # type: ignore[arg-type]
        passed = True
    except ProtocolVersionError:
        passed = False
    if passed != should_pass:
        return f"client version {s!r} {'admitted' if passed else 'refused'} by a server declaring 1.2.0"
    return None


@cond(q=90, t=400, encoded=[srv.RpcServer._check_protocol_version, md.parse_version], bound="client = a.b.c with a,b,c any strings len<=%d, server 1.2.0" % pick(1, 2),
      replay=_replay_real_gate, signature=lambda args, conc: "C09:gate:decision-differs")
def real_gate_templated(a: str, b: str, c: str) -> bool:
    """
    pre: len(a) <= _L and len(b) <= _L and len(c) <= _L
    post: _
    """
    client = a + "." + b + "." + c
    fake = _Srv((1, 2, 0), "1.2.0")
    try:
        srv.RpcServer._check_protocol_version(fake, client.encode())  # type: ignore[arg-type]
        passed = True
    except ProtocolVersionError as e:
        passed = False
        if getattr(e, "error_kind", None) != "protocol_version_mismatch":
            return False
    except Exception:  # noqa: BLE001
        return False
    digits = "0123456789"
    ok_c = len(c) >= 1 and all(ch in digits for ch in c) and (c == "0" or c[0] != "0")
    want = a == "1" and b == "2" and ok_c
    return passed == want


_L = pick(1, 2)


# One component free (up to 3 chars), the other two as the server declares them: the shape a
# "fast path" or prefix shortcut in the gate would get wrong (added after a seeded change that
# admitted '1.2.03' through a startswith()/isdigit() shortcut went unnoticed by the 1-char template).
_L1 = pick(3, 4)


def _replay_one_component(args: dict) -> str | None:
    parts = ["1", "2", "0"]
    parts[args["which"]] = args["x"]
    return _replay_real_gate({"a": parts[0], "b": parts[1], "c": parts[2]})


@cond(q=90, t=600, encoded=[srv.RpcServer._check_protocol_version, md.parse_version], bound="client = server's 1.2.0 with ONE component replaced by any ASCII string (patch len<=%d, major/minor len<=%d)" % (_L1, _L1 - 1),
      replay=_replay_one_component, signature=lambda args, conc: "C09:gate:decision-differs")
def real_gate_one_free_component(which: int, x: str) -> bool:
    """
    pre: 0 <= which <= 2 and len(x) <= (_L1 if which == 2 else _L1 - 1) and x.isascii()
    post: _
    """
    parts = ["1", "2", "0"]
    if which == 0:
        parts[0] = x
    elif which == 1:
        parts[1] = x
    else:
        parts[2] = x
    client = parts[0] + "." + parts[1] + "." + parts[2]
    fake = _Srv((1, 2, 0), "1.2.0")
    try:
        srv.RpcServer._check_protocol_version(fake, client.encode())  # type: ignore[arg-type]
        passed = True
    except ProtocolVersionError:
        passed = False
    except Exception:  # noqa: BLE001
        return False
    digits = "0123456789"
    canonical = len(x) >= 1 and all(ch in digits for ch in x) and (x == "0" or x[0] != "0")
    if which == 0:
        want = x == "1"
    elif which == 1:
        want = x == "2"
    else:
        want = canonical
    return passed == want


_ALPHA = "0139a .-"


def _ch(i: int) -> str:
    # branch a symbolic index to a concrete character (the gate then runs on concrete bytes: shortcuts
    # written with bytes methods / %-formatting are outside what CrossHair executes symbolically)
    for k in range(len(_ALPHA)):
        if i == k:
            return _ALPHA[k]
    return _ALPHA[0]


@cond(q=90, t=300, encoded=[srv.RpcServer._check_protocol_version, md.parse_version], bound="client = '1.2.' + patch, patch any string of length 0..3 over the alphabet '0139a .-' (solver case split; the gate runs concretely)",
      replay=lambda a: _replay_real_gate({"a": "1", "b": "2", "c": "".join(_ALPHA[a[k]] for k in ("i0", "i1", "i2"))[: a["n"]]}), signature=lambda args, conc: "C09:gate:decision-differs")
def real_gate_patch_grid(n: int, i0: int, i1: int, i2: int) -> bool:
    """
    pre: 0 <= n <= 3 and 0 <= i0 <= 7 and 0 <= i1 <= 7 and 0 <= i2 <= 7
    post: _
    """
    patch = (_ch(i0) + _ch(i1) + _ch(i2))
    if n == 0:
        patch = ""
    elif n == 1:
        patch = patch[:1]
    elif n == 2:
        patch = patch[:2]
    fake = _Srv((1, 2, 0), "1.2.0")
    try:
        srv.RpcServer._check_protocol_version(fake, ("1.2." + patch).encode())  # type: ignore[arg-type]
        passed = True
    except ProtocolVersionError:
        passed = False
    except Exception:  # noqa: BLE001
        return False
    canonical = len(patch) >= 1 and all(ch in "0123456789" for ch in patch) and (len(patch) == 1 or patch[0] != "0")
    return passed == canonical
