"""C22 — proxy-proof verification equals the normative nine-step decision table.

(a) rx : each live regex object of ``vgi_rpc/http/_proof.py`` (``_KID_RE``, ``_TS_RE``, ``_NONCE_RE``,
         ``_MAC_RE``, ``_ORIGIN_RE``), with the method the module really applies to it, denotes exactly
         the charset/length row of docs/proxy-proof-spec.md §3/§4 — for *all* strings (z3 regular
         language equivalence, both inclusions).
(b) xh : ``verify_proof`` (real bytecode) re-globalised so that the five regex objects are stubs whose
         ``.match`` answers a fresh symbolic bool per field (sound given (a)), the token is abstract
         (symbolic length, symbolic field count 1..7, opaque fields, symbolic version string),
         ``int(ts)`` a symbolic non-negative int, HMAC/base64 ideal stubs (``compare_digest`` = symbolic
         bool), symbolic clock / skew / key map (<= 2 kids, rotation overlap: both carry the same
         label) / nonce cache answer.  Compared with the table of §6 transcribed as a straight-line
         oracle: same accept / same reason, first failing step wins, only ``ProofError`` escapes, no MAC
         is computed for a token that fails steps 2-4, the nonce cache is touched (once) only for a proof
         whose MAC verified, the deciding MAC is over ``canonical_string(kid, ts, nonce, origin_id)`` under
         the secret selected by ``kid``.  (Not claimed: when the clock / key map are consulted.)
(b') xh: histories — two presentations through the same stubbed verifier against one seen-set that starts empty:
         which of the three configured kids (or an unknown one) each names, whether each MAC verifies and whether
         the second carries the first's nonce are symbolic.  Oracle: the table along the history "nonces accepted
         so far", which is the worker's and not a key's (a nonce accepted under one kid is ``replayed`` under any
         other — rotation overlap), and which a refused proof never enters.
(b'') xh: histories with a clock — four (thorough: five) presentations of two (three) valid tokens through the same stubbed
         verifier against the REAL ``NonceCache`` (ttl = skew, as the gate builds it), wall clock and cache clock advancing
         together by symbolic steps, symbolic skew and token timestamps.  Oracle: the table with step 9 read as written —
         ``replayed`` iff the nonce was accepted less than ``skew`` seconds ago (§10: entries expire after ``skew`` seconds);
         refused presentations (of it or of another nonce) in between change nothing.
(c) xh : ``canonical_string`` on short symbolic fields == NUL-join of the domain prefix and the four
         fields (an out-of-charset field may instead be refused with ValueError, spec §4), and is
         injective on NUL-free fields.
(d) xh : the ``gate`` closure of ``proxy_proof_gate`` (``verify_proof`` stubbed): absent header =>
         ``no_proof``, empty value or comma => ``malformed`` (spec §6 rows 1-2); in require mode every
         failure is the *same* ProofError (reads exactly like the refusal of a request without the header,
         public reason ``proxy_required``, no echo of the verifier's reason/detail); in allow mode the
         claims carry the table's reason and no kid.
(d') xh: histories through the gate — two presentations through ONE gate object (real ``proxy_proof_gate`` bytecode calling the
         stubbed verifier of (b), the replay memory built by the gate itself from the real ``NonceCache``): mode, the kid each names
         (three configured / unknown), MAC right/wrong and same/other nonce symbolic.  Oracle: the table along the worker's history
         (a nonce accepted under one kid is ``replayed`` under any other); require mode observes accepted / refused only.
(e) xh : nothing stubbed — the real ``verify_proof`` on every string of <= N chars, and on a valid
         token with one field replaced by an arbitrary short string (outcomes before the MAC only).
"""

from __future__ import annotations

import ast
import inspect
import re

from engine.api import QUICK, REPO, HarnessModelError, cond, pick, task
from engine.reglob import reglobalize

from vgi_rpc.http import _proof as pf
from vgi_rpc.http import _replay as rp
from vgi_rpc.http._unauthorized import AuthReason, classify_auth_failure

PROPERTY = "C22"
ENCODED = [pf.verify_proof, pf.canonical_string, pf.proxy_proof_gate, pf.ProofError]
BOUNDS = (
    "rx: all strings over code points 0..0x2FFFF; decision table: unbounded ints for token length/now/skew(>=0), 0<=ts<10**20 (the 20-digit "
    "row of §3), |now|<=2**53 when read from the float wall clock, field count 1..7, "
    "version any str len<=3, per-field charset verdict free, key map 3 kids (two share a label), history = one bit (nonce accepted before or not); "
    "histories of two well-formed in-window presentations (kid 0..3, MAC right/wrong, same/other nonce) on an initially empty history; histories of 4 (thorough 5) presentations of 2 (3) valid tokens with unbounded int clock steps / skew / timestamps over the real NonceCache; the same two-presentation histories through one gate object in both modes; canonical_string: one varied field len<=2 (nonce: 20 fixed + <=2); gate: header absent or "
    "any str len<=2; un-stubbed: all tokens len<=%d and one-field mutations len<=2 of a minted token" % pick(6, 8)
)
OUTSIDE = (
    "HMAC-SHA256 and the base64url decoder themselves (ideal stubs); the wall clock; NonceCache capacity eviction and concurrency (C23), and whether a nonce is still remembered at the very instant accepted+skew; longer histories; the HTTP "
    "rendering of the 401 (C21); len(token) counts characters where the spec says bytes — unobservable, every non-ASCII token is "
    "'malformed' at step 3/4 anyway"
)
ASSUMPTIONS = [
    "regex stubs: .match(field) = free symbolic bool per field — sound because (a) shows each live regex is exactly the spec row",
    "abstract token: len() symbolic, split('.') yields a symbolic number (1..7) of opaque fields; field 0 is a symbolic str",
    "int(ts field) = symbolic non-negative int (ts charset is [0-9]{1,20}, so int() cannot fail after step 4)",
    "ideal MAC: hmac.new records (key, msg); compare_digest(received, expected) = free symbolic bool; _unb64 returns an opaque value tied to the mac field",
    "nonce history: one-presentation items — a single symbolic bit 'this nonce was accepted before', which only answers a cache lookup made with "
    "the nonce itself (any other key: HarnessModelError); two-presentation item — a seen-set with NonceCache's test-and-set contract, keys compared "
    "by equality, an opaque field rendering (str / f-string) as its own distinct tag",
    "histories with a clock: the real NonceCache with its public ttl_seconds attribute set to the int skew after construction (the constructor applies float(); the code only "
    "adds and compares it; import-time witness that the attribute is what the code reads, else HarnessModelError) and an int monotonic clock that advances exactly with the wall clock; "
    "default capacity (never reached); the replay uses the real constructor and a float clock",
    "gate histories: header value = abstract five-field token without comma that a gate may peek at with split('.', n) (any other use: HarnessModelError); ProxyProofConfig = "
    "record of its six documented fields with the key map keyed by the opaque kid strings (its eager validation is not exercised); the gate's NonceCache is the real class with a frozen clock",
    "clocks and skew are ints (comparisons and subtraction only); their rendering inside ProofError messages is abstracted to a constant (message text is not part of the claim)",
]

# ---------------------------------------------------------------------------
# (a) the five field grammars, for all strings
# ---------------------------------------------------------------------------

# docs/proxy-proof-spec.md §3 (token fields) and §4 (origin_id); written once from the document
SPEC_ROWS = {
    "_KID_RE": r"[A-Za-z0-9_-]{1,64}",
    "_TS_RE": r"[0-9]{1,20}",
    "_NONCE_RE": r"[A-Za-z0-9_-]{22}",  # base64url, unpadded, 22 chars
    "_MAC_RE": r"[A-Za-z0-9_-]{43}",  # base64url, unpadded, 43 chars
    "_ORIGIN_RE": r"[A-Za-z0-9._:/-]{1,255}",
}


def _regex_uses() -> dict[str, set[str]]:
    """Which method the module applies to each module-level regex (read from the live source)."""
    tree = ast.parse(inspect.getsource(pf))
    uses: dict[str, set[str]] = {}
    for node in ast.walk(tree):
        if isinstance(node, ast.Call) and isinstance(node.func, ast.Attribute) and isinstance(node.func.value, ast.Name):
            name = node.func.value.id
            if isinstance(getattr(pf, name, None), re.Pattern) and node.func.attr in ("match", "fullmatch", "search"):
                uses.setdefault(name, set()).add(node.func.attr)
    return uses


def _spec_lines_present() -> list[str]:
    """The charset rows really are in the repository's spec document (guards against a stale transcription)."""
    try:
        doc = open(REPO + "/docs/proxy-proof-spec.md").read()
    except OSError:
        return ["docs/proxy-proof-spec.md not readable"]
    missing = []
    for frag in ("`[A-Za-z0-9_-]{1,64}`", "`[0-9]{1,20}`", "base64url, unpadded, 22 chars", "base64url, unpadded, 43 chars", "`[A-Za-z0-9._:/-]{1,255}`"):
        if frag not in doc:
            missing.append(frag)
    return missing


_PROBES = ["", "a", "a\n", "\na", "a b", "é", "١٢٣", "123", "+1", "1" * 20, "1" * 21, "A" * 22, "A" * 22 + "\n", "A" * 43, "A" * 44, "A" * 42 + "=",
           "a.b", "a/b:c-d_e", "x" * 64, "x" * 65, "x" * 255, "x" * 256, "a\x00b", "K", "ſ"]


def _replay_grammar(name: str, mode: str, s: str) -> dict:
    """Real replay through the public functions that use the pattern."""
    spec_ok = re.fullmatch(SPEC_ROWS[name], s, re.ASCII) is not None
    live_ok = getattr(getattr(pf, name), mode)(s) is not None
    via = ""
    if name == "_KID_RE":
        try:
            pf.mint_proof(b"\x00" * 32, s, "origin")
            pub = True
        except ValueError:
            pub = False
        via = f"mint_proof(kid={s!r}) {'accepted' if pub else 'refused'}"
    elif name == "_ORIGIN_RE":
        try:
            pf.mint_proof(b"\x00" * 32, "kid", s)
            pub = True
        except ValueError:
            pub = False
        via = f"mint_proof(origin_id={s!r}) {'accepted' if pub else 'refused'}"
    else:
        fields = {"_TS_RE": ["v1", "kid", s, "A" * 22, "A" * 43], "_NONCE_RE": ["v1", "kid", "100", s, "A" * 43], "_MAC_RE": ["v1", "kid", "100", "A" * 22, s]}[name]
        token = ".".join(fields)
        try:
            pf.verify_proof(token, secrets={}, origin_id="o", now=100)
            reason = "ok"
        except pf.ProofError as e:
            reason = e.reason
        # with an empty key map the first non-malformed outcome is unknown_kid
        pub = reason != "malformed" if "." not in s and len(token) <= 512 else live_ok
        via = f"verify_proof({token!r}) -> {reason}"
    if live_ok != spec_ok and pub == live_ok:
        return {"verdict": "VIOLATION", "replayed": True, "signature": f"C22:grammar:{name}:" + ("accepts-outside-spec" if live_ok else "rejects-spec-string"),
                "detail": f"{name}.{mode}({s!r}) is {live_ok} but the spec row {SPEC_ROWS[name]} says {spec_ok}; {via}"}
    return {"verdict": "INCONCLUSIVE", "detail": f"solver witness {s!r} for {name} did not reproduce (live={live_ok}, spec={spec_ok}, {via})"}


@task(q=60, t=200, encoded=[pf.verify_proof, pf.mint_proof], bound="all strings (regular-language equivalence), 5 field grammars", engine="rx")
def field_grammars_equal_spec_rows(budget: float, replay=None) -> dict:
    from engine import rx

    uses = _regex_uses()
    if replay is not None:
        return _replay_grammar(replay["name"], replay["mode"], replay["s"])
    missing_doc = _spec_lines_present()
    if missing_doc:
        return {"verdict": "INCONCLUSIVE", "detail": f"spec document no longer contains the transcribed rows: {missing_doc}", "queries": 0, "discharged": 0}
    names = sorted(n for n in dir(pf) if isinstance(getattr(pf, n), re.Pattern))
    unknown = [n for n in names if n not in SPEC_ROWS]
    if unknown or any(n not in names for n in SPEC_ROWS):
        return {"verdict": "INCONCLUSIVE", "detail": f"module-level patterns changed: {names}", "queries": 0, "discharged": 0}
    q = rx.Query(timeout_s=min(20.0, budget / 12))
    out: dict = {"queries": 0, "discharged": 0, "solver_s": 0.0, "samples": []}
    val_total = 0
    for name in names:
        pattern = getattr(pf, name)
        modes = sorted(uses.get(name, {"match"}))
        spec = rx.lang(re.compile(SPEC_ROWS[name], re.ASCII), "fullmatch")
        for mode in modes:
            try:
                impl = rx.lang(pattern, mode)
            except rx.Unsupported as e:
                return {"verdict": "INCONCLUSIVE", "detail": f"{name}: regex construct outside the translator: {e}", "queries": q.queries, "discharged": q.discharged}
            val = rx.validate_translation(pattern, mode, impl, _PROBES)
            val_total += val["checked"]
            if val["n_disagree"]:
                return {"verdict": "ERROR", "detail": f"sre->z3 translator disagrees with the live engine on {name}: {val['disagreements']}"}
            verdict, side, wit = q.equivalent(impl, spec, f"L({name}.{mode}) = L(spec row {SPEC_ROWS[name]})")
            if verdict == "sat":
                res = _replay_grammar(name, mode, wit)
                res.update(queries=q.queries, discharged=q.discharged, solver_s=round(q.solver_s, 3), samples=q.log, cex={"name": name, "mode": mode, "s": wit})
                return res
            if verdict == "unknown":
                return {"verdict": "INCONCLUSIVE", "detail": f"{name}: solver returned unknown", "queries": q.queries, "discharged": q.discharged, "samples": q.log}
    out.update(verdict="CONFIRMED", queries=q.queries, discharged=q.discharged, distinct=q.discharged, solver_s=round(q.solver_s, 3), samples=q.log,
               translator_validation={"checked": val_total, "n_disagree": 0}, regex_uses={k: sorted(v) for k, v in uses.items()})
    return out


# ---------------------------------------------------------------------------
# (b) verify_proof against the decision table
# ---------------------------------------------------------------------------

_H: dict = {}


class _Field:
    """An opaque token field: only identity matters."""

    __slots__ = ("name",)

    def __init__(self, name: str) -> None:
        self.name = name

    def __repr__(self) -> str:
        return "<" + self.name + ">"

    def __getattr__(self, item: str):  # type: ignore[no-untyped-def]
        if item.startswith("__"):
            raise AttributeError(item)  # protocol probes (copy, pickling, CrossHair's own hooks)
        raise HarnessModelError(f"token field {self.name} used through .{item} (not modelled)")


_F_KID, _F_TS, _F_NONCE, _F_MAC = _Field("kid"), _Field("ts"), _Field("nonce"), _Field("mac")
_F_X5, _F_X6 = _Field("extra5"), _Field("extra6")
# a second presentation (item nonce_history_is_per_worker): another kid string / another nonce string.  An opaque field
# renders (str / f-string) as its own tag, so a value derived from fields by formatting is distinct iff the fields are.
_F_KID_B, _F_NONCE_B = _Field("kid-b"), _Field("nonce-b")
_F_KID_C, _F_NONCE_C = _Field("kid-c"), _Field("nonce-c")  # a third token (item nonce_window_*)


def _cur_kid():  # type: ignore[no-untyped-def]
    return _H.get("kid_field") or _F_KID


def _cur_nonce():  # type: ignore[no-untyped-def]
    return _H.get("nonce_field") or _F_NONCE


class _Token:
    """Abstract header value: a symbolic length and a symbolic number of dot-separated fields."""

    def __len__(self) -> int:
        return _H["length"]

    def split(self, sep=None, maxsplit=-1):  # type: ignore[no-untyped-def]
        if sep != "." or maxsplit != -1:
            raise HarnessModelError("token split other than on '.'")
        n = _H["nfields"]
        allf = [_H["version"], _cur_kid(), _F_TS, _cur_nonce(), _F_MAC, _F_X5, _F_X6]
        for k in range(1, 8):
            if n == k:
                return allf[:k]
        raise HarnessModelError("field count outside 1..7")


class _ReStub:
    def __init__(self, field: _Field, key: str, pattern: str) -> None:
        self._field, self._key, self.pattern = field, key, pattern

    def match(self, s):  # type: ignore[no-untyped-def]
        field = self._field
        if field is _F_KID:
            field = _cur_kid()
        elif field is _F_NONCE:
            field = _cur_nonce()
        if s is not field:
            raise HarnessModelError(f"{self._key} regex applied to {s!r}")
        _H["order"].append(self._key)
        return object() if _H[self._key] else None


class _SymInt:
    """An int whose decimal rendering is abstracted away.

    CrossHair renders ``f"{symbolic_int}"`` by forking on the number of digits, so an unbounded clock value inside
    an error message never exhausts.  The verifier only subtracts, negates and compares these values; the
    rendering is message text (never asserted, never returned to callers), so it is modelled as a constant.
    """

    __slots__ = ("v",)

    def __init__(self, v) -> None:  # type: ignore[no-untyped-def]
        self.v = v.v if isinstance(v, _SymInt) else v

    @staticmethod
    def _raw(o):  # type: ignore[no-untyped-def]
        return o.v if isinstance(o, _SymInt) else o

    def __sub__(self, o):  # type: ignore[no-untyped-def]
        return _SymInt(self.v - self._raw(o))

    def __rsub__(self, o):  # type: ignore[no-untyped-def]
        return _SymInt(self._raw(o) - self.v)

    def __neg__(self):  # type: ignore[no-untyped-def]
        return _SymInt(-self.v)

    def __gt__(self, o):  # type: ignore[no-untyped-def]
        return self.v > self._raw(o)

    def __lt__(self, o):  # type: ignore[no-untyped-def]
        return self.v < self._raw(o)

    def __ge__(self, o):  # type: ignore[no-untyped-def]
        return self.v >= self._raw(o)

    def __le__(self, o):  # type: ignore[no-untyped-def]
        return self.v <= self._raw(o)

    def __eq__(self, o):  # type: ignore[no-untyped-def]
        return self.v == self._raw(o)

    def __hash__(self) -> int:
        raise HarnessModelError("clock value hashed")

    def __int__(self):  # type: ignore[no-untyped-def]
        return self.v

    def __format__(self, spec: str) -> str:
        return "<int>"

    def __repr__(self) -> str:
        return "<int>"

    __str__ = __repr__


def _stub_int(x):  # type: ignore[no-untyped-def]
    if x is _F_TS:
        if "ts_ok" not in _H["order"]:
            raise HarnessModelError("int(ts) before the ts charset check")
        return _SymInt(_H["ts"])
    if isinstance(x, _SymInt):
        return x
    raise HarnessModelError(f"int() of {x!r}")


class _Secrets:
    """Mapping[str, (secret, label)] with 3 kids (two share a label); which one the token's kid names is the symbolic kid_sel."""

    def get(self, k, default=None):  # type: ignore[no-untyped-def]
        if k is not _cur_kid():
            raise HarnessModelError(f"key map consulted with {k!r}")
        _H["order"].append("lookup")
        sel = _H["kid_sel"]
        for k in (1, 2, 3):
            if sel == k:
                return (_KEYS[k], _LABELS[k])
        return default

    def __getitem__(self, k):  # type: ignore[no-untyped-def]
        v = self.get(k)
        if v is None:
            raise KeyError(k)
        return v

    def __contains__(self, k) -> bool:  # type: ignore[no-untyped-def]
        return self.get(k) is not None


class _Digest:
    def __init__(self, key, msg) -> None:  # type: ignore[no-untyped-def]
        self.key, self.msg = key, msg

    def digest(self):  # type: ignore[no-untyped-def]
        return self


class _Hmac:
    @staticmethod
    def new(key, msg=None, digestmod=None):  # type: ignore[no-untyped-def]
        if digestmod != "sha256-sentinel":
            raise HarnessModelError("MAC with a digest other than hashlib.sha256")
        _H["order"].append("mac")
        d = _Digest(key, msg)
        _H["macs"].append(d)
        return d

    @staticmethod
    def compare_digest(a, b):  # type: ignore[no-untyped-def]
        _H["order"].append("compare")
        _H["compared"].append((a, b))
        return _H["mac_ok"]


class _Hashlib:
    sha256 = "sha256-sentinel"


class _Time:
    @staticmethod
    def time():  # type: ignore[no-untyped-def]
        _H["order"].append("clock")
        return _SymInt(_H["wall"])


def _stub_canonical(kid, ts, nonce, origin_id):  # type: ignore[no-untyped-def]
    return ("canonical", kid, ts, nonce, origin_id)


def _stub_unb64(text):  # type: ignore[no-untyped-def]
    if text is not _F_MAC:
        raise HarnessModelError(f"base64 decode of {text!r}")
    if "mac_cs" not in _H["order"]:
        raise HarnessModelError("mac decoded before its charset check")
    return ("received", text)


class _Cache:
    """One presentation against a history summarised by one bit: `fresh` = this nonce was not accepted before (under
    whatever kid).  That bit answers the question only when the question is about the nonce itself."""

    def check_and_add(self, nonce):  # type: ignore[no-untyped-def]
        _H["order"].append("cache")
        _H["cache_args"].append(nonce)
        if nonce is not _cur_nonce():
            # (no rendering of the key here: under CrossHair it may be a symbolic string, and the engine keeps this text)
            raise HarnessModelError("replay cache asked about a value other than the nonce: the one-bit history cannot say whether that was seen (item nonce_history_is_per_worker decides such keys)")
        return _H["fresh"]


class _SetCache:
    """NonceCache's contract without its clock/capacity (C23): test-and-set on a seen-set, keys compared by equality."""

    def __init__(self) -> None:
        self.seen: list = []

    def check_and_add(self, key):  # type: ignore[no-untyped-def]
        _H["order"].append("cache")
        _H["cache_args"].append(key)
        for k in self.seen:
            if k is key or k == key:
                return False
        self.seen.append(key)
        return True

    def __getattr__(self, item: str):  # type: ignore[no-untyped-def]
        if item.startswith("__"):
            raise AttributeError(item)
        raise HarnessModelError(f"NonceCache.{item} is not modelled")


_verify_stubbed = reglobalize(
    pf.verify_proof,
    _KID_RE=_ReStub(_F_KID, "kid_ok", "KID"),
    _TS_RE=_ReStub(_F_TS, "ts_ok", "TS"),
    _NONCE_RE=_ReStub(_F_NONCE, "nonce_ok", "NONCE"),
    _MAC_RE=_ReStub(_F_MAC, "mac_cs", "MAC"),
    int=_stub_int,
    hmac=_Hmac,
    hashlib=_Hashlib,
    time=_Time,
    canonical_string=_stub_canonical,
    _unb64=_stub_unb64,
)

_TOKEN, _SECRETS, _CACHE = _Token(), _Secrets(), _Cache()
_ORIGIN = "worker-a"


def _table(length: int, nfields: int, version: str, kid_ok: bool, ts_ok: bool, nonce_ok: bool, mac_cs: bool, kid_sel: int,
           now: int, ts: int, skew: int, mac_ok: bool, use_cache: bool, fresh: bool) -> str:
    """docs/proxy-proof-spec.md §6, rows 2..9 (row 1 and the multi-instance/empty part of row 2 belong to the gate)."""
    if length > 512:
        return "malformed"  # 2
    if nfields != 5 or version != "v1":
        return "malformed"  # 3
    if not (kid_ok and ts_ok and nonce_ok and mac_cs):
        return "malformed"  # 4
    if kid_sel == 0:
        return "unknown_kid"  # 5
    if now - ts > skew:
        return "expired"  # 6
    if ts - now > skew:
        return "not_yet_valid"  # 7
    if not mac_ok:
        return "bad_mac"  # 8
    if use_cache and not fresh:
        return "replayed"  # 9
    return "ok"


_STUBS_B = [
    "_KID_RE/_TS_RE/_NONCE_RE/_MAC_RE := .match = free symbolic bool per field",
    "token := abstract (symbolic len, symbolic field count, opaque fields)",
    "int(ts), now, skew_seconds, time.time() := symbolic ints wrapped so that only -, unary -, comparisons are available and their decimal rendering in messages is a constant",
    "hmac/hashlib/_unb64 := ideal MAC (compare_digest = free symbolic bool, inputs recorded)",
    "canonical_string := records its four arguments (its bytes are item (c))",
    "time.time := symbolic int clock",
    "NonceCache := check_and_add answers a free symbolic bool, calls recorded",
]


_TS_MAX = 10**20  # §3: ts is [0-9]{1,20}; a value with more digits cannot be the int() of a field that passed step 4
_WALL_MAX = 2**53  # time.time() returns a float; integers beyond 2**53 are not exactly representable


def _replay_table(args: dict) -> str | None:
    """Un-stubbed verify_proof on a concrete token realising the abstract counterexample."""
    from vgi_rpc.http._replay import NonceCache

    real = {1: b"\x01" * 32, 2: b"\x02" * 32, 3: b"\x04" * 32}
    wrong = b"\x03" * 32
    secrets = {"kid-one": (real[1], "proxy-A"), "kid-two": (real[2], "proxy-A"), "kid-three": (real[3], "proxy-B")}
    sel = int(args["kid_sel"])
    kid = {1: "kid-one", 2: "kid-two", 3: "kid-three"}.get(sel, "kid-none")
    ts = max(0, int(args["ts"]))
    now = int(args["now"])
    skew = int(args["skew"])
    signing = real.get(sel, wrong) if args["mac_ok"] else wrong
    good = pf.mint_proof(signing, kid, _ORIGIN, now=ts, nonce="N" * 22)
    f = good.split(".")
    f[0] = args["version"]
    if not args["kid_ok"]:
        f[1] = "bad kid"
    if not args["ts_ok"]:
        f[2] = "+" + f[2]
    if not args["nonce_ok"]:
        f[3] = f[3][:-1]
    if not args["mac_cs"]:
        f[4] = f[4][:-1] + "="
    # the realised fields must have exactly the charset verdicts the counterexample assumed (judged by the spec rows,
    # not by the code); otherwise this concrete token is not an instance of the abstract counterexample
    for row, flag, text in (("_KID_RE", "kid_ok", f[1]), ("_TS_RE", "ts_ok", f[2]), ("_NONCE_RE", "nonce_ok", f[3]), ("_MAC_RE", "mac_cs", f[4])):
        if (re.fullmatch(SPEC_ROWS[row], text, re.ASCII) is not None) != bool(args[flag]):
            return None
    if not args["now_given"] and abs(now) > _WALL_MAX:
        return None  # time.time() is a float: such a wall clock cannot be delivered exactly
    n = int(args["nfields"])
    f = (f + ["x", "y"])[:n]
    token = ".".join(f)
    if "." in args["version"]:
        return None  # the abstract field count cannot be realised with a dotted version
    if args["length"] > 512:
        token = token + "A" * (513 - len(token)) if len(token) <= 512 else token
    elif len(token) > 512:
        return None
    cache = None
    if args["use_cache"]:
        cache = NonceCache(ttl_seconds=max(1, skew), clock=lambda: 0.0)
        if not args["fresh"] and args["nonce_ok"] and len(f) > 3:
            # "this nonce was accepted before": made true the way it becomes true in a worker — an earlier proof carrying
            # it was verified against the same cache (under another configured kid: the history is the worker's, not a
            # key's).  (With a malformed nonce the history does not matter: row 4 decides.)
            other = "kid-three" if sel != 3 else "kid-one"
            earlier = _spec_token(secrets[other][0], other, 1000, f[3], _ORIGIN)
            try:
                pf.verify_proof(earlier, secrets=secrets, origin_id=_ORIGIN, skew_seconds=30, nonce_cache=cache, now=1000)
            except pf.ProofError as e:
                return f"verify_proof({earlier!r}) (valid, built from spec §3/§4) -> {e.reason}; the table says ok"
    held_before = len(cache) if cache is not None else 0
    want = _table(len(token), len(token.split(".")), token.split(".")[0], args["kid_ok"], args["ts_ok"], args["nonce_ok"], args["mac_cs"], sel, now, ts, skew,
                  args["mac_ok"], args["use_cache"], args["fresh"])
    import time as _time

    real_time = _time.time
    try:
        if not args["now_given"]:
            _time.time = lambda: float(now)  # the module reads time.time(); restore below
        try:
            pf.verify_proof(token, secrets=secrets, origin_id=_ORIGIN, skew_seconds=skew, nonce_cache=cache, now=now if args["now_given"] else None)
            got = "ok"
        except pf.ProofError as e:
            got = e.reason
        except Exception as e:  # noqa: BLE001
            got = f"{type(e).__name__}: {e}"
    finally:
        _time.time = real_time
    if got != want:
        return f"verify_proof({token!r}, now={now}, skew={skew}, kids={sorted(secrets)}) -> {got}; the decision table of docs/proxy-proof-spec.md §6 says {want}"
    if cache is not None and want not in ("ok", "replayed") and len(cache) != held_before:
        return f"verify_proof({token!r}) -> {got} but the nonce of this unverified proof was put into the replay cache"
    # the abstract run also compares the *order* of effects; its observable consequence on real code:
    # a proof whose MAC does not verify must leave the replay cache untouched
    probe_cache = NonceCache(ttl_seconds=30, clock=lambda: 0.0)
    forged = pf.mint_proof(wrong, "kid-one", _ORIGIN, now=1000, nonce="F" * 22)
    try:
        pf.verify_proof(forged, secrets=secrets, origin_id=_ORIGIN, skew_seconds=30, nonce_cache=probe_cache, now=1000)
        return f"forged proof {forged!r} accepted"
    except pf.ProofError as e:
        if e.reason != "bad_mac":
            return f"forged proof {forged!r} -> {e.reason}, the table says bad_mac"
    if len(probe_cache) != 0:
        return f"verify_proof remembered the nonce of a proof whose MAC did not verify ({forged!r}): an attacker can burn nonces / evict real ones"
    # the abstract run also checks *what* is MACed; its observable consequence: a token built by hand from §3/§4 of the
    # specification (HMAC-SHA256 over prefix NUL kid NUL ts NUL nonce NUL origin_id, base64url unpadded) under the
    # secret its kid selects is accepted by this worker, and the same token computed for another origin is bad_mac
    for origin, table in ((_ORIGIN, "ok"), ("worker-b", "bad_mac")):
        for kid_name, key in (("kid-one", real[1]), ("kid-two", real[2]), ("kid-three", real[3])):
            tok = _spec_token(key, kid_name, 1000, "S" * 22, origin)
            try:
                pf.verify_proof(tok, secrets=secrets, origin_id=_ORIGIN, skew_seconds=30, nonce_cache=None, now=1000)
                got = "ok"
            except pf.ProofError as e:
                got = e.reason
            if got != table:
                return f"verify_proof({tok!r}) (built from spec §3/§4 for origin {origin!r}, verified by {_ORIGIN!r}) -> {got}; the table says {table}"
    return None


def _spec_token(secret: bytes, kid: str, ts: int, nonce: str, origin_id: str) -> str:
    """docs/proxy-proof-spec.md §3/§4, computed with the standard library only (not with the repository's minting code)."""
    import base64
    import hashlib
    import hmac

    msg = b"vgi.proxy.proof.v1\x00" + kid.encode() + b"\x00" + str(ts).encode() + b"\x00" + nonce.encode() + b"\x00" + origin_id.encode()
    mac = base64.urlsafe_b64encode(hmac.new(secret, msg, hashlib.sha256).digest()).rstrip(b"=").decode()
    return f"v1.{kid}.{ts}.{nonce}.{mac}"


_KEYS = {1: b"S1" * 16, 2: b"S2" * 16, 3: b"S3" * 16}
_LABELS = {1: "proxy-A", 2: "proxy-A", 3: "proxy-B"}  # kids 1 and 2: rotation overlap (same label), kid 3: another proxy


def _table_check(length: int, nfields: int, version: str, kid_ok: bool, ts_ok: bool, nonce_ok: bool, mac_cs: bool, kid_sel: int,
                 now: int, ts: int, skew: int, mac_ok: bool, fresh: bool, now_given: bool, use_cache: bool) -> bool:
    """now_given / use_cache are concrete per item (a symbolic choice would double every path)."""
    _H.clear()
    _H.update(length=length, nfields=nfields, version=version, kid_ok=kid_ok, ts_ok=ts_ok, nonce_ok=nonce_ok, mac_cs=mac_cs, kid_sel=kid_sel,
              ts=ts, wall=now, mac_ok=mac_ok, fresh=fresh, order=[], macs=[], compared=[], cache_args=[])
    got = "ok"
    claims = None
    try:
        claims = _verify_stubbed(_TOKEN, secrets=_SECRETS, origin_id=_ORIGIN, skew_seconds=_SymInt(skew), nonce_cache=_CACHE if use_cache else None, now=_SymInt(now) if now_given else None)
    except pf.ProofError as e:
        got = e.reason
        # spec §6: every verifier outcome collapses onto the public code proxy_required
        if classify_auth_failure(e) is not AuthReason.PROXY_REQUIRED:
            return False
    except HarnessModelError:
        raise
    except Exception:  # noqa: BLE001
        return False  # only ProofError may escape
    want = _table(length, nfields, version, kid_ok, ts_ok, nonce_ok, mac_cs, kid_sel, now, ts, skew, mac_ok, use_cache, fresh)
    if got != want:
        return False
    order = _H["order"]
    # Only what the specification states about the order of effects (not the code's own sequence: when the
    # clock is read, when the key map is consulted and whether a MAC is computed after step 4 are free):
    # §6 "steps 1-4 involve no MAC computation and MUST be performed first"
    if want == "malformed" and "mac" in order:
        return False
    # the nonce history holds accepted proofs only: a proof that failed any of steps 2-8 leaves it untouched
    if want not in ("ok", "replayed") and "cache" in order:
        return False
    if want in ("ok", "replayed", "bad_mac"):
        # the MAC that decides is the one over canonical_string(kid, ts, nonce, origin_id) under the secret kid selects
        key = _KEYS[1]
        for k in (2, 3):
            if kid_sel == k:
                key = _KEYS[k]
        d = None
        for m in _H["macs"]:
            if m.key == key and m.msg == ("canonical", _F_KID, _F_TS, _F_NONCE, _ORIGIN):
                d = m
        if d is None:
            return False
        decided = False
        for a, b in _H["compared"]:
            if (a == ("received", _F_MAC) and b is d) or (b == ("received", _F_MAC) and a is d):
                decided = True
        if not decided:
            return False
    # NonceCache.check_and_add is test-and-set: a second call for the same proof would itself answer "seen"
    if use_cache and want in ("ok", "replayed") and _H["cache_args"] != [_F_NONCE]:
        return False
    if want == "ok":
        if claims is None:
            return False
        label = "proxy-B" if kid_sel == 3 else "proxy-A"
        return bool(claims["verified"] == "true" and claims["proxy"] == label and claims["kid"] is _F_KID and claims["origin_id"] == _ORIGIN and claims["reason"] == "ok")
    return claims is None


_B_BOUND = "unbounded ints (length>=0, ts>=0, now, skew>=0), nfields 1..7, version any str len<=3, charset verdicts free, kid_sel 0..3"


def _b_sig(use_cache: bool):  # type: ignore[no-untyped-def]
    """One signature per table row the counterexample falls on (the row the specification says decides it)."""

    def sig(args: dict, conc) -> str:  # type: ignore[no-untyped-def]
        row = _table(args["length"], args["nfields"], args["version"], args["kid_ok"], args["ts_ok"], args["nonce_ok"], args["mac_cs"], args["kid_sel"],
                     args["now"], args["ts"], args["skew"], args["mac_ok"], use_cache, args["fresh"])
        return "C22:verify_proof:differs-from-decision-table:expected-" + row

    return sig


@cond(q=60, t=300, stubs=_STUBS_B, encoded=[pf.verify_proof], bound=_B_BOUND + "; now= given, replay cache present",
      replay=lambda a: _replay_table({**a, "now_given": True, "use_cache": True}), signature=_b_sig(True))
def verify_equals_decision_table(length: int, nfields: int, version: str, kid_ok: bool, ts_ok: bool, nonce_ok: bool, mac_cs: bool, kid_sel: int,
                                 now: int, ts: int, skew: int, mac_ok: bool, fresh: bool) -> bool:
    """
    pre: length >= 0 and 1 <= nfields <= 7 and len(version) <= 3 and 0 <= kid_sel <= 3 and 0 <= ts < _TS_MAX and skew >= 0
    post: _
    """
    return _table_check(length, nfields, version, kid_ok, ts_ok, nonce_ok, mac_cs, kid_sel, now, ts, skew, mac_ok, fresh, True, True)


@cond(q=60, t=300, stubs=_STUBS_B, encoded=[pf.verify_proof], bound=_B_BOUND + "; now= given, no replay cache",
      replay=lambda a: _replay_table({**a, "now_given": True, "use_cache": False}), signature=_b_sig(False))
def verify_equals_decision_table_no_cache(length: int, nfields: int, version: str, kid_ok: bool, ts_ok: bool, nonce_ok: bool, mac_cs: bool, kid_sel: int,
                                          now: int, ts: int, skew: int, mac_ok: bool, fresh: bool) -> bool:
    """
    pre: length >= 0 and 1 <= nfields <= 7 and len(version) <= 3 and 0 <= kid_sel <= 3 and 0 <= ts < _TS_MAX and skew >= 0
    post: _
    """
    return _table_check(length, nfields, version, kid_ok, ts_ok, nonce_ok, mac_cs, kid_sel, now, ts, skew, mac_ok, fresh, True, False)


@cond(q=60, t=300, stubs=_STUBS_B, encoded=[pf.verify_proof], bound=_B_BOUND + "; now=None (wall clock stub), replay cache present",
      replay=lambda a: _replay_table({**a, "now_given": False, "use_cache": True}), signature=_b_sig(True))
def verify_equals_decision_table_wall_clock(length: int, nfields: int, version: str, kid_ok: bool, ts_ok: bool, nonce_ok: bool, mac_cs: bool, kid_sel: int,
                                            now: int, ts: int, skew: int, mac_ok: bool, fresh: bool) -> bool:
    """
    pre: length >= 0 and 1 <= nfields <= 7 and len(version) <= 3 and 0 <= kid_sel <= 3 and 0 <= ts < _TS_MAX and skew >= 0 and -_WALL_MAX <= now <= _WALL_MAX
    post: _
    """
    return _table_check(length, nfields, version, kid_ok, ts_ok, nonce_ok, mac_cs, kid_sel, now, ts, skew, mac_ok, fresh, False, True)


# (b') histories: two presentations against one worker's nonce history.  The history of the table's step 9 is "the nonces
# accepted so far" — the worker's, whatever kid each was accepted under (rotation overlap: several kids configured at once).


def _present(cache, kid_field, nonce_field, kid_sel: int, mac_ok: bool, ts=1000, wall=1000, skew=30) -> str:  # type: ignore[no-untyped-def]
    """One otherwise well-formed presentation (by default in-window) through the stubbed verifier; returns the reason or 'ok'."""
    _H.clear()
    _H.update(length=100, nfields=5, version="v1", kid_ok=True, ts_ok=True, nonce_ok=True, mac_cs=True, kid_sel=kid_sel, ts=ts, wall=wall,
              mac_ok=mac_ok, fresh=True, order=[], macs=[], compared=[], cache_args=[], kid_field=kid_field, nonce_field=nonce_field)
    try:
        _verify_stubbed(_TOKEN, secrets=_SECRETS, origin_id=_ORIGIN, skew_seconds=_SymInt(skew), nonce_cache=cache, now=_SymInt(wall))
    except pf.ProofError as e:
        return e.reason
    return "ok"


def _history_expect(kid_sel1: int, mac_ok1: bool, kid_sel2: int, mac_ok2: bool, same_nonce: bool) -> tuple:  # type: ignore[type-arg]
    """The table of §6 along a history that starts empty: a nonce enters it when — and only when — its proof was accepted."""
    want1 = _table(100, 5, "v1", True, True, True, True, kid_sel1, 1000, 1000, 30, mac_ok1, True, True)
    seen = want1 == "ok" and same_nonce
    want2 = _table(100, 5, "v1", True, True, True, True, kid_sel2, 1000, 1000, 30, mac_ok2, True, not seen)
    return want1, want2


def _replay_history(args: dict) -> str | None:
    """Real verifier, real NonceCache, tokens computed from spec §3/§4 with the standard library."""
    from vgi_rpc.http._replay import NonceCache

    real = {1: b"\x01" * 32, 2: b"\x02" * 32, 3: b"\x04" * 32}
    wrong = b"\x03" * 32
    names = {0: "kid-none", 1: "kid-one", 2: "kid-two", 3: "kid-three"}
    secrets = {"kid-one": (real[1], "proxy-A"), "kid-two": (real[2], "proxy-A"), "kid-three": (real[3], "proxy-B")}
    cache = NonceCache(ttl_seconds=30, clock=lambda: 0.0)
    n1 = "H" * 22
    n2 = n1 if args["same_nonce"] else "J" * 22
    wants = _history_expect(args["kid_sel1"], args["mac_ok1"], args["kid_sel2"], args["mac_ok2"], args["same_nonce"])
    told = []
    for sel, mac_ok, nonce, want in ((args["kid_sel1"], args["mac_ok1"], n1, wants[0]), (args["kid_sel2"], args["mac_ok2"], n2, wants[1])):
        tok = _spec_token(real.get(sel, wrong) if mac_ok else wrong, names[sel], 1000, nonce, _ORIGIN)
        try:
            pf.verify_proof(tok, secrets=secrets, origin_id=_ORIGIN, skew_seconds=30, nonce_cache=cache, now=1000)
            got = "ok"
        except pf.ProofError as e:
            got = e.reason
        except Exception as e:  # noqa: BLE001
            got = f"{type(e).__name__}: {e}"
        told.append(f"verify_proof({tok!r}) -> {got}")
        if got != want:
            return ("one worker, kids " + ", ".join(sorted(secrets)) + ", one replay cache, clock 1000: " + "; then ".join(told)
                    + f" — the decision table of docs/proxy-proof-spec.md §6 says {want}" + (" (step 9: nonce already seen within the window)" if want == "replayed" else ""))
    return None


def _history_sig(args: dict, conc) -> str:  # type: ignore[no-untyped-def]
    if args["same_nonce"] and args["kid_sel1"] != args["kid_sel2"]:
        return "C22:verify_proof:nonce-history-depends-on-kid"
    return "C22:verify_proof:nonce-history:differs-from-decision-table"


@cond(q=60, t=200, stubs=_STUBS_B + ["NonceCache := test-and-set on a seen-set (its clock / capacity are C23); a second presentation's kid / nonce are other opaque fields unless they are the same string"],
      encoded=[pf.verify_proof], bound="two well-formed in-window presentations against one initially empty history: kid 0..3 each (3 configured, two sharing a label), MAC right/wrong each, same or another nonce",
      replay=_replay_history, signature=_history_sig)
def nonce_history_is_per_worker(kid_sel1: int, mac_ok1: bool, kid_sel2: int, mac_ok2: bool, same_nonce: bool) -> bool:
    """
    pre: 0 <= kid_sel1 <= 3 and 0 <= kid_sel2 <= 3
    post: _
    """
    cache = _SetCache()
    want1, want2 = _history_expect(kid_sel1, mac_ok1, kid_sel2, mac_ok2, same_nonce)
    try:
        got1 = _present(cache, _F_KID, _F_NONCE, kid_sel1, mac_ok1)
        # the second token's kid is the same string iff it names the same key; its nonce is the same string iff same_nonce
        got2 = _present(cache, _F_KID if kid_sel2 == kid_sel1 else _F_KID_B, _F_NONCE if same_nonce else _F_NONCE_B, kid_sel2, mac_ok2)
    except HarnessModelError:
        raise
    except Exception:  # noqa: BLE001
        return False  # only ProofError may escape
    return got1 == want1 and got2 == want2


# (b'') histories with a clock: step 9 says "already seen *within the window*", §10 "entries expire after `skew` seconds".
# The history is the worker's list of (nonce, time it was accepted); a presentation is `replayed` iff its nonce was accepted
# less than `skew` seconds ago, and accepted (steps 2-8 permitting) once every acceptance of it is more than `skew` seconds
# old — however many refused presentations, of it or of other nonces, happened in between.  Underneath is the real
# NonceCache (its sweep / ordering logic is what makes the clause true or false), driven by the stubbed verifier.

_W0 = 1_000_000  # wall clock at the start of a history; the cache's monotonic clock starts at 0; both advance together
_TOK_FIELDS = ((_F_KID, _F_NONCE, 1), (_F_KID_B, _F_NONCE_B, 2), (_F_KID_C, _F_NONCE_C, 3))  # token k: kid field, nonce field, configured kid it names


class _World:
    """The cache's monotonic clock (an int: NonceCache only adds the TTL to it and compares)."""

    def __init__(self) -> None:
        self.t = 0

    def __call__(self):  # type: ignore[no-untyped-def]
        return self.t


def _int_ttl_cache(ttl, clock):  # type: ignore[no-untyped-def]
    """NonceCache built as the gate builds it (ttl = skew, default capacity: no eviction in a history of a few presentations)
    whose public ttl_seconds attribute holds the integer model of the TTL (the constructor applies float() to it)."""
    cache = rp.NonceCache(ttl_seconds=1, clock=clock)
    try:
        cache.ttl_seconds = ttl
    except AttributeError as e:
        raise HarnessModelError("NonceCache.ttl_seconds is no longer a settable attribute") from e
    return cache


def _ttl_attribute_is_live() -> bool:
    try:
        w = _World()
        c = _int_ttl_cache(5, w)
        c.check_and_add("x")
        w.t = 3  # inside a 5-unit window, outside the constructor's 1-unit one
        return c.check_and_add("x") is False
    except Exception:  # noqa: BLE001
        return False


_TTL_LIVE = _ttl_attribute_is_live()


def _window_run(present, skew, toks: list, deltas: list, offs: list):  # type: ignore[no-untyped-def]
    """Walk one history; `present(k, ts, t)` -> reason | 'ok' for token k (timestamp ts) shown at world time t.
    Returns None when every outcome is the table's, else (index, got, want, kind)."""
    t = 0
    accepted: list = []  # (token, world time) of the presentations the verifier accepted
    for i in range(len(toks)):
        t = t + deltas[i]
        k = toks[i]
        ts = _W0 + offs[k]
        got = present(k, ts, t)
        want = _table(100, 5, "v1", True, True, True, True, _TOK_FIELDS[k][2], _W0 + t, ts, skew, True, True, True)  # rows 2-8
        if want != "ok":
            if got != want:
                return (i, got, want, "steps-6-7")
            continue
        inside = False
        boundary = False
        for kk, tj in accepted:
            if kk == k:
                if t - tj < skew:
                    inside = True
                elif t - tj == skew:
                    boundary = True  # "expire after skew seconds": the instant itself is left to the implementation
        if inside:
            if got != "replayed":
                return (i, got, "replayed", "accepted-inside-window")
        elif not boundary and got != "ok":
            return (i, got, "ok", "replayed-after-window" if got == "replayed" else "other")
        elif got != "ok" and got != "replayed":
            return (i, got, "ok or replayed", "other")
        if got == "ok":
            accepted.append((k, t))
    return None


def _window_stubbed(skew, toks: list, deltas: list, offs: list) -> bool:  # type: ignore[no-untyped-def]
    if not _TTL_LIVE:
        raise HarnessModelError("NonceCache no longer reads its ttl_seconds attribute: the integer-TTL model does not apply")
    world = _World()
    cache = _int_ttl_cache(skew, world)

    def present(k, ts, t):  # type: ignore[no-untyped-def]
        world.t = t
        kid_field, nonce_field, sel = _TOK_FIELDS[k]
        return _present(cache, kid_field, nonce_field, sel, True, ts=ts, wall=_W0 + t, skew=skew)

    try:
        return _window_run(present, skew, toks, deltas, offs) is None
    except HarnessModelError:
        raise
    except Exception:  # noqa: BLE001
        return False  # only ProofError may escape


def _window_real(skew: int, toks: list, deltas: list, offs: list):  # type: ignore[no-untyped-def]
    """The same history on the real verifier, the real NonceCache (real constructor, float clock), tokens from spec §3/§4."""
    real = {1: b"\x01" * 32, 2: b"\x02" * 32, 3: b"\x04" * 32}
    names = {1: "kid-one", 2: "kid-two", 3: "kid-three"}
    secrets = {"kid-one": (real[1], "proxy-A"), "kid-two": (real[2], "proxy-A"), "kid-three": (real[3], "proxy-B")}
    nonces = ("A" * 22, "B" * 22, "C" * 22)
    if skew <= 0 or sum(deltas) > _WALL_MAX or any(not (0 <= _W0 + o < _TS_MAX) for o in offs):
        return None, None
    world = _World()
    cache = rp.NonceCache(ttl_seconds=skew, clock=lambda: float(world.t))
    told: list = []

    def present(k, ts, t):  # type: ignore[no-untyped-def]
        world.t = t
        sel = _TOK_FIELDS[k][2]
        tok = _spec_token(real[sel], names[sel], ts, nonces[k], _ORIGIN)
        try:
            pf.verify_proof(tok, secrets=secrets, origin_id=_ORIGIN, skew_seconds=skew, nonce_cache=cache, now=_W0 + t)
            got = "ok"
        except pf.ProofError as e:
            got = e.reason
        except Exception as e:  # noqa: BLE001
            got = f"{type(e).__name__}: {e}"
        told.append(f"t={t}s: {names[sel]} nonce {nonces[k][0]}.. ts=t0{ts - _W0:+d} -> {got}")
        return got

    bad = _window_run(present, skew, toks, deltas, offs)
    if bad is None:
        return None, None
    i, got, want, kind = bad
    clause = {"replayed-after-window": f" (step 9: every acceptance of this nonce is more than skew={skew}s old, §10 entries expire after skew seconds)",
              "accepted-inside-window": f" (step 9: this nonce was accepted less than skew={skew}s ago)"}.get(kind, "")
    return (f"one worker, skew={skew}s, one replay cache (ttl=skew), wall and monotonic clocks advancing together from t0={_W0}: " + "; ".join(told)
            + f" — the decision table of docs/proxy-proof-spec.md §6 says {want}{clause}"), kind


def _window_args(a: dict, n: int, ntok: int) -> tuple:  # type: ignore[type-arg]
    toks = [0] + [_tok(int(a[f"x{i}"])) for i in range(1, n)]
    deltas = [0] + [int(a[f"d{i}"]) for i in range(1, n)]
    offs = [int(a[f"o{k}"]) for k in range(ntok)] + [0] * (3 - ntok)
    return int(a["skew"]), toks, deltas, offs


def _window_replay(n: int, ntok: int):  # type: ignore[no-untyped-def]
    return lambda a: _window_real(*_window_args(a, n, ntok))[0]


def _window_sig(n: int, ntok: int):  # type: ignore[no-untyped-def]
    def sig(a: dict, conc) -> str:  # type: ignore[no-untyped-def]
        kind = _window_real(*_window_args(a, n, ntok))[1]
        return "C22:verify_proof:nonce-window:" + (kind or "differs-from-decision-table")

    return sig


def _tok(x: int) -> int:
    if x == 1:
        return 1
    if x == 2:
        return 2
    return 0


_STUBS_W = _STUBS_B[:-1] + ["NonceCache := the REAL class (check_and_add / _sweep run as they are), its clock an int that advances with the wall clock, its ttl_seconds "
                            "attribute set to the int skew (import-time witness that the code reads that attribute)"]


@cond(q=300, t=600, stubs=_STUBS_W, encoded=[pf.verify_proof, rp.NonceCache.check_and_add, rp.NonceCache._sweep],
      bound="4 presentations of 2 valid tokens (A under kid 1, B under kid 2 — rotation overlap; first is A, the others any) at world times 0 <= t1 <= t2 <= t3 "
            "(unbounded int steps), skew > 0 unbounded, each token's timestamp any int offset from the first clock reading; the instant accepted+skew itself is free",
      replay=_window_replay(4, 2), signature=_window_sig(4, 2))
def nonce_window_expires_after_skew(skew: int, x1: int, x2: int, x3: int, d1: int, d2: int, d3: int, o0: int, o1: int) -> bool:
    """
    pre: skew > 0 and 0 <= x1 <= 1 and 0 <= x2 <= 1 and 0 <= x3 <= 1 and d1 >= 0 and d2 >= 0 and d3 >= 0
    pre: o0 >= -_W0 and o1 >= -_W0 and o0 < _TS_MAX - _W0 and o1 < _TS_MAX - _W0
    post: _
    """
    return _window_stubbed(skew, [0, _tok(x1), _tok(x2), _tok(x3)], [0, d1, d2, d3], [o0, o1, 0])


@cond(q=150, t=3000, tiers=("thorough",), stubs=_STUBS_W, encoded=[pf.verify_proof, rp.NonceCache.check_and_add, rp.NonceCache._sweep],
      bound="5 presentations of 3 valid tokens (kids 1, 2, 3; first is A, the others any) at nondecreasing world times (unbounded int steps), skew > 0 unbounded, "
            "each token's timestamp any int offset from the first clock reading",
      replay=_window_replay(5, 3), signature=_window_sig(5, 3))
def nonce_window_expires_after_skew_5(skew: int, x1: int, x2: int, x3: int, x4: int, d1: int, d2: int, d3: int, d4: int, o0: int, o1: int, o2: int) -> bool:
    """
    pre: skew > 0 and 0 <= x1 <= 2 and 0 <= x2 <= 2 and 0 <= x3 <= 2 and 0 <= x4 <= 2 and d1 >= 0 and d2 >= 0 and d3 >= 0 and d4 >= 0
    pre: o0 >= -_W0 and o1 >= -_W0 and o2 >= -_W0 and o0 < _TS_MAX - _W0 and o1 < _TS_MAX - _W0 and o2 < _TS_MAX - _W0
    post: _
    """
    return _window_stubbed(skew, [0, _tok(x1), _tok(x2), _tok(x3), _tok(x4)], [0, d1, d2, d3, d4], [o0, o1, o2])


# ---------------------------------------------------------------------------
# (c) canonical_string
# ---------------------------------------------------------------------------

_LC = pick(2, 3)
_CFIELDS = ["k1", "1700000000", "abcdefghijklmnopqrstuv", "worker-a"]
_NONCE_PREFIX = "abcdefghijklmnopqrst"  # 20 of the 22 nonce characters
_AL_KID = "ABCDEFGHIJKLMNOPQRSTUVWXYZabcdefghijklmnopqrstuvwxyz0123456789_-"  # §3 kid / base64url alphabet
_AL_ORIGIN = _AL_KID + "._:/"  # §4 origin_id alphabet


def _all_in(x: str, alphabet: str) -> bool:
    for c in x:
        if c not in alphabet:
            return False
    return True


@cond(q=40, t=200, encoded=[pf.canonical_string], bound="kid | ts | origin_id = any str len<=%d, or nonce = 20 fixed chars + any str len<=%d; the others fixed; a ValueError refusal is accepted for out-of-charset fields only" % (_LC, _LC))
def canonical_string_is_nul_join(which: int, x: str) -> bool:
    """
    pre: 0 <= which <= 3 and len(x) <= _LC
    post: _
    """
    f = list(_CFIELDS)
    # in_domain: the varied field satisfies its §3/§4 row (the nonce row needs 22 chars: fixed 20-char prefix + x)
    if which == 0:
        f[0] = x
        in_domain = len(x) >= 1 and _all_in(x, _AL_KID)
    elif which == 1:
        f[1] = x
        in_domain = len(x) >= 1 and _all_in(x, "0123456789")
    elif which == 2:
        f[2] = _NONCE_PREFIX + x
        in_domain = len(x) == 2 and _all_in(x, _AL_KID)
    else:
        f[3] = x
        in_domain = len(x) >= 1 and _all_in(x, _AL_ORIGIN)
    try:
        got = pf.canonical_string(f[0], f[1], f[2], f[3])
    except ValueError:
        # §4: "an out-of-charset value is a rejection, not something to encode around" — refusing such a field
        # (a lone surrogate cannot even be encoded) is allowed; refusing an in-charset one is not
        return not in_domain
    except Exception:  # noqa: BLE001
        return False
    want = b"vgi.proxy.proof.v1\x00" + f[0].encode() + b"\x00" + f[1].encode() + b"\x00" + f[2].encode() + b"\x00" + f[3].encode()
    if got != want:
        return False
    # framing: with NUL-free fields there are exactly four separators, so the fields can be read back
    return "\x00" in x or got.count(b"\x00") == 4


_LI = 1  # (two quadruples of fields of <= 2 characters did not exhaust within 300 s CPU: an item that is always INCONCLUSIVE says nothing)


@cond(q=60, t=300, tiers=("thorough",), encoded=[pf.canonical_string], bound="two quadruples of NUL-free ASCII fields, len<=%d each" % _LI)
def canonical_string_injective_on_nul_free_fields(k1: str, t1: str, n1: str, o1: str, k2: str, t2: str, n2: str, o2: str) -> bool:
    """
    pre: len(k1) <= _LI and len(t1) <= _LI and len(n1) <= _LI and len(o1) <= _LI and len(k2) <= _LI and len(t2) <= _LI and len(n2) <= _LI and len(o2) <= _LI
    post: _
    """
    for s in (k1, t1, n1, o1, k2, t2, n2, o2):
        if "\x00" in s or not s.isascii():
            return True
    try:
        a = pf.canonical_string(k1, t1, n1, o1)
        b = pf.canonical_string(k2, t2, n2, o2)
    except ValueError:
        return True  # a refused (out-of-charset / too short) field yields no canonical string to collide with (§4)
    except Exception:  # noqa: BLE001
        return False
    if a == b:
        return k1 == k2 and t1 == t2 and n1 == n2 and o1 == o2
    return True


# ---------------------------------------------------------------------------
# (d) the gate closure
# ---------------------------------------------------------------------------

_G: dict = {"outcome": 0, "calls": 0, "detail": ""}
_REASONS = ("malformed", "unknown_kid", "expired", "not_yet_valid", "bad_mac", "replayed")


_VSIG = inspect.signature(pf.verify_proof)


def _stub_verify_for_gate(*a, **k):  # type: ignore[no-untyped-def]
    ba = _VSIG.bind(*a, **k)  # the live signature: a positional or a keyword call are the same thing (a call that does not fit it is the gate's TypeError)
    ba.apply_defaults()
    p = ba.arguments
    try:
        token = p["token"]
        _G["args"] = (token, p["secrets"], p["origin_id"], p["skew_seconds"], p["nonce_cache"], p["now"])
    except KeyError as e:
        raise HarnessModelError(f"verify_proof parameter {e} no longer exists") from None
    _G["calls"] += 1
    # What the real verifier answers for these values whatever the rest of its input: every token of <= 6 characters is
    # 'malformed' (item real_short_tokens_are_malformed), and so is one containing a comma (item (a): no field charset
    # has a comma, field 0 must equal 'v1', a sixth field is a wrong count).  So a gate may hand them to the verifier.
    if token == "" or "," in token:
        raise pf.ProofError("malformed", "expected 5 fields, got 'claimed-kid-marker'")
    o = _G["outcome"]
    if o == 0:
        return {"verified": "true", "proxy": "L", "kid": "claimed-kid", "origin_id": p["origin_id"], "reason": "ok"}
    if 1 <= o <= 6:
        # like the real verifier, the detail may quote caller-controlled text
        raise pf.ProofError(_REASONS[o - 1], "no secret for kid 'claimed-kid-marker'")
    raise HarnessModelError("outcome outside the model")


_gate_factory = reglobalize(pf.proxy_proof_gate, verify_proof=_stub_verify_for_gate)
_SECRET_MAP = {"k1": (b"\x11" * 32, "proxy-one")}
_CFG = {rq: pf.ProxyProofConfig(mode="require" if rq else "allow", origin_id=_ORIGIN, secrets=_SECRET_MAP, skew_seconds=17) for rq in (False, True)}
_GATES = {rq: _gate_factory(_CFG[rq], now=lambda: 4242) for rq in (False, True)}
_GATES_REAL = {rq: pf.proxy_proof_gate(_CFG[rq]) for rq in (False, True)}


class _Req:
    def __init__(self, present: bool, raw: str) -> None:
        self._present, self._raw = present, raw
        self.remote_addr = "192.0.2.9"

    def get_header(self, name: str, default=None):  # type: ignore[no-untyped-def]
        if name.lower() == pf.PROOF_HEADER.lower():
            return self._raw if self._present else default
        return default

    def __getattr__(self, item: str):  # type: ignore[no-untyped-def]
        if item.startswith("__"):
            raise AttributeError(item)
        raise HarnessModelError(f"request.{item} is not modelled")


def _gate_expect(present: bool, raw: str, outcome: int) -> str:
    """docs/proxy-proof-spec.md §6 rows 1-2, then the verifier's verdict."""
    if not present:
        return "no_proof"  # row 1: header absent
    if raw == "" or "," in raw:
        return "malformed"  # row 2: value empty / more than one header instance (WSGI joins instances with ', ')
    return "ok" if outcome == 0 else _REASONS[outcome - 1]


def _refusal_of(gate, req):  # type: ignore[no-untyped-def]
    try:
        gate(req)
    except pf.ProofError as e:
        return e
    except Exception:  # noqa: BLE001
        return None
    return None


# the refusal a require-mode gate gives to a request without the header: every other refusal must read the same
_REF_REFUSAL = _refusal_of(_GATES[True], _Req(False, ""))


def _replay_gate(args: dict) -> str | None:
    """Real gate + real verifier + real Falcon request: the counterexample's own request and one request per table row;
    each must get the table's reason (allow: in the claims, require: on the refusal) and require-mode refusals must all read the same."""
    import falcon.testing

    require = bool(args["require"])
    t0 = 1_700_000_000
    gate = pf.proxy_proof_gate(_CFG[require], now=lambda: t0)  # real verifier, real replay cache; only the clock is injected (public parameter)
    good, other = _SECRET_MAP["k1"][0], b"\x22" * 32
    valid = pf.mint_proof(good, "k1", _ORIGIN, now=t0, nonce="R" * 22)
    # (header value | None, the reason the table of docs/proxy-proof-spec.md §6 gives it), one per row
    probes: list = [
        (None, "no_proof"),  # 1
        ("", "malformed"),  # 2 value empty
        ("v1.a,v1.b", "malformed"),  # 2 more than one instance
        ("garbage", "malformed"),  # 3
        ("v1.evil kid.100." + "A" * 22 + "." + "A" * 43, "malformed"),  # 4
        ("v1.evil-kid.100." + "A" * 22 + "." + "A" * 43, "unknown_kid"),  # 5
        (pf.mint_proof(good, "k1", _ORIGIN, now=t0 - 1000), "expired"),  # 6
        (pf.mint_proof(good, "k1", _ORIGIN, now=t0 + 1000), "not_yet_valid"),  # 7
        (pf.mint_proof(other, "k1", _ORIGIN, now=t0), "bad_mac"),  # 8
        (valid, "ok"),
        (valid, "replayed"),  # 9
    ]
    # the request of the counterexample itself: a value of <= 2 characters is row 2 (empty, comma) or row 3 (field count)
    if args["present"]:
        try:
            args["raw"].encode("latin-1")
            probes.insert(0, (args["raw"], "malformed"))
        except UnicodeError:
            pass  # no HTTP server can deliver this value
    seen = set()
    for p, table in probes:
        try:
            req = falcon.testing.create_req(headers={} if p is None else {pf.PROOF_HEADER: p})
        except Exception:  # noqa: BLE001
            continue  # not a deliverable header value
        delivered = req.get_header(pf.PROOF_HEADER)
        want = "no_proof" if delivered is None else table  # what the request object really carries decides row 1
        if delivered is not None and delivered != p and len(p) > 2:
            continue  # the test request builder altered a probe (a value of <= 2 characters stays row 2/3 whatever it did)
        try:
            claims = gate(req)
        except pf.ProofError as e:
            if not require:
                return f"allow-mode gate refused {p!r}"
            if want == "ok":
                return f"require-mode gate refused the valid proof {p!r} ({e.reason})"
            if e.reason != want:
                return f"gate reports {e.reason!r} for header {p!r}; the table of docs/proxy-proof-spec.md §6 says {want!r}"
            seen.add((str(e), classify_auth_failure(e)))
            if "evil" in str(e):
                return f"refusal echoes the claimed kid: {e}"
            continue
        except Exception as e:  # noqa: BLE001
            return f"gate raised {type(e).__name__}: {e} for header {p!r} (only ProofError may escape)"
        if want == "ok":
            if claims.get("verified") != "true" or claims.get("reason") != "ok":
                return f"valid proof {p!r} not attributed: {dict(claims)!r}"
            continue
        if require:
            return f"require-mode gate passed {p!r} ({want}): {dict(claims)!r}"
        if claims.get("verified") != "false" or claims.get("kid") or claims.get("proxy"):
            return f"allow-mode claims for unverified {p!r}: {dict(claims)!r}"
        if claims.get("reason") != want:
            return f"allow-mode claims carry reason {claims.get('reason')!r} for header {p!r}; the table of docs/proxy-proof-spec.md §6 says {want!r}"
    if require and len(seen) != 1:
        return f"require-mode refusals are not uniform: {sorted(map(str, seen))}"
    return None


def _gate_sig(args: dict) -> str:
    if args["present"] and args["raw"] == "":
        return "C22:gate:empty-header-not-reported-malformed"
    mode = "require" if args["require"] else "allow"
    return f"C22:gate:{mode}-mode:wrong-outcome-or-non-uniform-refusal:expected-" + _gate_expect(args["present"], args["raw"], args["outcome"])


@cond(q=40, t=120, stubs=["verify_proof := claims | ProofError(reason in spec set, detail quoting symbolic caller text); '' and values with a comma := ProofError(malformed), as items (a)/(e) establish for the real one"], encoded=[pf.proxy_proof_gate],
      bound="mode x header{absent, any str len<=2} x verifier outcome 0..6 (its detail carries a marker standing for caller text)",
      replay=_replay_gate, signature=lambda args, conc: _gate_sig(args))
def gate_reasons_and_uniform_refusal(require: bool, present: bool, raw: str, outcome: int) -> bool:
    """
    pre: len(raw) <= 2 and 0 <= outcome <= 6
    post: _
    """
    _G.update(outcome=outcome, calls=0, args=None)
    want = _gate_expect(present, raw, outcome)
    claims = None
    refusal = None
    try:
        claims = _GATES[require](_Req(present, raw))
    except pf.ProofError as e:
        refusal = e
    except HarnessModelError:
        raise
    except Exception:  # noqa: BLE001
        return False  # only ProofError may escape
    if _G["calls"]:
        # whenever the verifier is consulted it is about this header value, with the configured key map, origin, skew,
        # clock and a replay cache (whether an empty / multi-instance value is handed to it at all is the gate's choice)
        token, secrets, origin_id, skew, cache, now = _G["args"]
        if token is not raw and token != raw:
            return False
        if secrets != _SECRET_MAP or origin_id != _ORIGIN or skew != 17 or now != 4242 or cache is None:
            return False
    elif present and raw != "" and "," not in raw:
        raise HarnessModelError("the gate decided a non-empty single header value without consulting verify_proof: the verifier stub does not model that")
    if refusal is not None:
        if not require or want == "ok":
            return False
        # uniform: reads exactly like the refusal of a request with no header at all (another row of the table) and
        # echoes nothing the verifier said; the public reason is the coarse one; it is a 401-class exception
        ref = _REF_REFUSAL
        if ref is None or str(refusal) != str(ref) or refusal.args != ref.args or "marker" in str(refusal):
            return False
        if classify_auth_failure(refusal) is not AuthReason.PROXY_REQUIRED:
            return False
        # the table's code is kept on the exception for logs / metrics only
        return refusal.reason == want and isinstance(refusal, (ValueError, PermissionError))
    if want == "ok":
        return claims["verified"] == "true" and claims["proxy"] == "L" and claims["reason"] == "ok"
    if require:
        return False  # a failure must have been refused
    # allow mode: recorded, never denied, and nothing the caller claimed is attributed
    return bool(claims["verified"] == "false" and claims["proxy"] == "" and claims["kid"] == "" and claims["origin_id"] == _ORIGIN and claims["reason"] == want)


# (d') histories through the gate: the nonce history of step 9 is the WORKER's — one per gate, whatever kid a proof names.
# Two presentations through one gate object built by the real ``proxy_proof_gate`` bytecode, which calls the stubbed
# verifier of (b) and builds its replay memory itself from the real NonceCache class.

_F_KID_X = _Field("kid-unknown")  # a kid string that is not in the key map
_GATE_KIDS = {0: _F_KID_X, 1: _F_KID, 2: _F_KID_B, 3: _F_KID_C}
_GATE_SECRETS = {_F_KID: (_KEYS[1], _LABELS[1]), _F_KID_B: (_KEYS[2], _LABELS[2]), _F_KID_C: (_KEYS[3], _LABELS[3])}  # keyed by the opaque kid strings


class _GateToken(_Token):
    """The header value as a gate may look at it: not empty, no comma, five fields; besides the verifier's own
    ``split('.')`` a gate may peek at leading fields with ``split('.', n)`` (the rest is one opaque remainder)."""

    def __contains__(self, item) -> bool:  # type: ignore[no-untyped-def]
        if item == ",":
            return False
        raise HarnessModelError("header value searched for something other than a comma")

    def __eq__(self, other) -> bool:  # type: ignore[no-untyped-def]
        return other is self  # in particular: not equal to ''

    def __hash__(self) -> int:
        return id(self)

    def split(self, sep=None, maxsplit=-1):  # type: ignore[no-untyped-def]
        if sep != ".":
            raise HarnessModelError("token split other than on '.'")
        full = _Token.split(self, ".")
        if maxsplit < 0 or maxsplit >= len(full) - 1:
            return full
        return full[:maxsplit] + [_Field("rest-of-header")]

    def __getattr__(self, item: str):  # type: ignore[no-untyped-def]
        if item.startswith("__"):
            raise AttributeError(item)
        raise HarnessModelError(f"header value used through .{item} (not modelled)")


class _GateCfg:
    """The six documented fields of ProxyProofConfig (its eager validation applies real regexes to the kids; not what is judged here)."""

    def __init__(self, require: bool) -> None:
        self.mode = "require" if require else "allow"
        self.origin_id = _ORIGIN
        self.secrets = _GATE_SECRETS
        self.skew_seconds = 30
        self.replay_capacity = 1000
        self.enable_replay_cache = True

    def __getattr__(self, item: str):  # type: ignore[no-untyped-def]
        if item.startswith("__"):
            raise AttributeError(item)
        raise HarnessModelError(f"ProxyProofConfig.{item} is not modelled")


def _frozen_clock_cache(*a, **k):  # type: ignore[no-untyped-def]
    """The real NonceCache, built with whatever the gate passes; its monotonic clock stands still (both presentations are inside the window)."""
    k.setdefault("clock", lambda: 0.0)
    return rp.NonceCache(*a, **k)


_gate_hist_factory = reglobalize(pf.proxy_proof_gate, verify_proof=_verify_stubbed, NonceCache=_frozen_clock_cache)


def _gate_present(gate, require: bool, kid_sel: int, nonce_field, mac_ok: bool):  # type: ignore[no-untyped-def]
    """One well-formed in-window presentation through the gate: what the caller of the gate can tell ('ok' | reason | 'refused')."""
    kid_field = _GATE_KIDS[kid_sel]
    _H.clear()
    _H.update(length=100, nfields=5, version="v1", kid_ok=True, ts_ok=True, nonce_ok=True, mac_cs=True, kid_sel=kid_sel, ts=1000, wall=1000,
              mac_ok=mac_ok, fresh=True, order=[], macs=[], compared=[], cache_args=[], kid_field=kid_field, nonce_field=nonce_field)
    try:
        claims = gate(_Req(True, _GateToken()))
    except pf.ProofError:
        return "refused" if require else "allow-mode gate refused"
    if claims["verified"] == "true":
        return "ok" if claims["reason"] == "ok" else "verified with reason " + str(claims["reason"])
    return "passed unverified" if require else claims["reason"]


def _gate_want(require: bool, want: str) -> str:
    """Require mode: every failure is the same refusal (which row failed is not observable); allow mode: the table's reason in the claims."""
    return want if (want == "ok" or not require) else "refused"


def _replay_gate_history(args: dict) -> str | None:
    """Real gate (real config, real verifier, real NonceCache, Falcon request), tokens computed from spec §3/§4."""
    import falcon.testing

    real = {1: b"\x01" * 32, 2: b"\x02" * 32, 3: b"\x04" * 32}
    wrong = b"\x03" * 32
    names = {0: "kid-none", 1: "kid-one", 2: "kid-two", 3: "kid-three"}
    secrets = {"kid-one": (real[1], "proxy-A"), "kid-two": (real[2], "proxy-A"), "kid-three": (real[3], "proxy-B")}
    require = bool(args["require"])
    gate = pf.proxy_proof_gate(pf.ProxyProofConfig(mode="require" if require else "allow", origin_id=_ORIGIN, secrets=secrets, skew_seconds=30), now=lambda: 1000)
    n1 = "H" * 22
    n2 = n1 if args["same_nonce"] else "J" * 22
    wants = _history_expect(args["kid_sel1"], args["mac_ok1"], args["kid_sel2"], args["mac_ok2"], args["same_nonce"])
    told = []
    for sel, mac_ok, nonce, want in ((args["kid_sel1"], args["mac_ok1"], n1, wants[0]), (args["kid_sel2"], args["mac_ok2"], n2, wants[1])):
        tok = _spec_token(real.get(sel, wrong) if mac_ok else wrong, names[sel], 1000, nonce, _ORIGIN)
        req = falcon.testing.create_req(headers={pf.PROOF_HEADER: tok})
        try:
            claims = gate(req)
            got = "ok" if claims.get("verified") == "true" and claims.get("reason") == "ok" else ("passed unverified" if require else str(claims.get("reason")))
        except pf.ProofError:
            got = "refused" if require else "allow-mode gate refused"
        except Exception as e:  # noqa: BLE001
            got = f"{type(e).__name__}: {e}"
        told.append(f"{pf.PROOF_HEADER}: {tok} -> {got}")
        if got != _gate_want(require, want):
            return (f"one {'require' if require else 'allow'}-mode gate (proxy_proof_gate), kids " + ", ".join(sorted(secrets)) + ", clock 1000: " + "; then ".join(told)
                    + f" — the decision table of docs/proxy-proof-spec.md §6 says {want}" + (" (step 9: nonce already seen within the window)" if want == "replayed" else ""))
    return None


def _gate_history_sig(args: dict, conc) -> str:  # type: ignore[no-untyped-def]
    if args["same_nonce"] and args["kid_sel1"] != args["kid_sel2"]:
        return "C22:gate:nonce-history-depends-on-kid"
    return "C22:gate:nonce-history:differs-from-decision-table"


@cond(q=120, t=300, stubs=_STUBS_B[:-1] + ["gate's verify_proof := the stubbed verifier of (b) (real bytecode)", "header value := abstract five-field token, no comma, may be peeked at with split('.', n)",
                                           "ProxyProofConfig := record of its six fields (key map keyed by the opaque kid strings)", "NonceCache := the REAL class as the gate constructs it, monotonic clock frozen"],
      encoded=[pf.proxy_proof_gate, pf.verify_proof, rp.NonceCache.check_and_add],
      bound="mode x two well-formed in-window presentations through one gate object: kid 0..3 each (3 configured, two sharing a label, 0 = unknown), MAC right/wrong each, same or another nonce; "
            "require mode observes accepted/refused only",
      replay=_replay_gate_history, signature=_gate_history_sig)
def gate_nonce_history_is_per_worker(require: bool, kid_sel1: int, mac_ok1: bool, kid_sel2: int, mac_ok2: bool, same_nonce: bool) -> bool:
    """
    pre: 0 <= kid_sel1 <= 3 and 0 <= kid_sel2 <= 3
    post: _
    """
    want1, want2 = _history_expect(kid_sel1, mac_ok1, kid_sel2, mac_ok2, same_nonce)
    k1 = 0
    k2 = 0
    for k in (1, 2, 3):
        if kid_sel1 == k:
            k1 = k
        if kid_sel2 == k:
            k2 = k
    try:
        gate = _gate_hist_factory(_GateCfg(require), now=lambda: _SymInt(1000))
        got1 = _gate_present(gate, require, k1, _F_NONCE, mac_ok1)
        got2 = _gate_present(gate, require, k2, _F_NONCE if same_nonce else _F_NONCE_B, mac_ok2)
    except HarnessModelError:
        raise
    except Exception:  # noqa: BLE001
        return False  # only ProofError may escape the gate
    return got1 == _gate_want(require, want1) and got2 == _gate_want(require, want2)


# ---------------------------------------------------------------------------
# (e) nothing stubbed
# ---------------------------------------------------------------------------

_LE = pick(6, 8)


class _ScanMap:
    """A plain Mapping that looks keys up by linear == scan (a real dict would hash, i.e. realise, a symbolic key)."""

    def __init__(self, items: list) -> None:  # type: ignore[type-arg]
        self._items = items

    def get(self, k, default=None):  # type: ignore[no-untyped-def]
        for kk, v in self._items:
            if kk == k:
                return v
        return default


_REAL_SECRETS = _ScanMap([("k1", (b"\x11" * 32, "proxy-one")), ("k2", (b"\x22" * 32, "proxy-one"))])


@cond(q=60, t=600, encoded=[pf.verify_proof], bound="every token of <=%d characters" % _LE)
def real_short_tokens_are_malformed(token: str, now: int) -> bool:
    """
    pre: len(token) <= _LE
    post: _
    """
    # too short for five non-empty fields with a 22-char nonce and a 43-char mac: whatever the dots, some row 2-4 fails
    try:
        pf.verify_proof(token, secrets=_REAL_SECRETS, origin_id=_ORIGIN, now=now)  # type: ignore[arg-type]
    except pf.ProofError as e:
        return e.reason == "malformed"
    except Exception:  # noqa: BLE001
        return False
    return False


_NOW0 = 1_700_000_000
_MINTED = pf.mint_proof(b"\x11" * 32, "k1", _ORIGIN, now=_NOW0, nonce="abcdefghijklmnopqrstuv").split(".")


def _x_of(args: dict) -> str:
    return "".join(chr(args[k]) for k in ("i0", "i1")[: args["n"]])


def _replay_mutation(args: dict) -> str | None:
    x, which = _x_of(args), args["which"]
    f = list(_MINTED)
    f[which] = x
    token = ".".join(f)
    want = _mutation_expect(which, x)
    try:
        pf.verify_proof(token, secrets={"k1": (b"\x11" * 32, "proxy-one"), "k2": (b"\x22" * 32, "proxy-one")}, origin_id=_ORIGIN, now=_NOW0 + 1000)
        got = "ok"
    except pf.ProofError as e:
        got = e.reason
    except Exception as e:  # noqa: BLE001
        got = f"{type(e).__name__}: {e}"
    return None if got == want else f"verify_proof({token!r}, now=ts+1000) -> {got}; the decision table says {want}"


def _mutation_expect(which: int, x: str) -> str:
    """First failing table row for the minted token (ts = now-1000, i.e. expired at row 6) with field `which` := x."""
    if "." in x:
        return "malformed"  # row 3: field count
    if which == 0:
        return "expired" if x == "v1" else "malformed"
    if which == 1:
        if len(x) == 0 or not _all_in(x, _AL_KID):
            return "malformed"
        return "expired" if (x == "k1" or x == "k2") else "unknown_kid"
    if which == 2:
        if len(x) == 0 or not _all_in(x, "0123456789"):
            return "malformed"
        return "expired"  # any 1..2 digit timestamp is far in the past too
    return "malformed"  # a nonce / mac of <= 2 characters has the wrong length


@cond(q=60, t=300, encoded=[pf.verify_proof], bound="minted token with field 0..4 replaced by any 0..2 code points; clock = ts+1000 (outcomes before the MAC)",
      replay=_replay_mutation, signature=lambda args, conc: "C22:verify_proof:field-mutation-wrong-reason")
def real_field_mutation_first_failing_step(which: int, n: int, i0: int, i1: int) -> bool:
    """
    pre: 0 <= which <= 4 and 0 <= n <= 2 and 0 <= i0 < 0x110000 and 0 <= i1 < 0x110000
    post: _
    """
    x = ""
    if n >= 1:
        x = chr(i0)
    if n >= 2:
        x = x + chr(i1)
    f = list(_MINTED)
    for k in range(5):
        if which == k:
            f[k] = x
    token = f[0] + "." + f[1] + "." + f[2] + "." + f[3] + "." + f[4]
    try:
        pf.verify_proof(token, secrets=_REAL_SECRETS, origin_id=_ORIGIN, now=_NOW0 + 1000)  # type: ignore[arg-type]
        got = "ok"
    except pf.ProofError as e:
        got = e.reason
    except Exception:  # noqa: BLE001
        return False
    return got == _mutation_expect(which, x)
