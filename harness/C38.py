"""C38 — HTTP retries are bounded and never duplicate non-idempotent calls.

(a) xh : ``_post_with_retry`` -> ``_request_with_retry`` (real bytecode; ``_compute_delay`` and
         ``_get_retry_after`` re-globalised to recording contract stubs, covered by (b) / OUTSIDE):
         for every scripted fault sequence the property is judged as an *upper bound*: at most
         max_retries+1 requests; a request k+1 only after a retryable outcome at k (retryable status,
         or - connection-level retry on - connect error / timeout / disconnect before any response
         byte; never another protocol error); the caller sees the last outcome; every wait is a value
         of ``_compute_delay`` (range decided in (b)) or a number in [0, backoff_max].  Retrying less
         than the current loop does is allowed.
(b) fp : ``_compute_delay`` translated at run time from its live AST into IEEE-754 binary64 terms:
         0 <= delay <= backoff_max and delay is not NaN for all finite base,max >= 0, attempt 0..3,
         any double / None retry_after.  z3 and cvc5 must agree.
(c) xh : ``HttpStreamSession.exchange`` / ``cancel`` (real methods, real pyarrow on concrete data) with
         a counting client whose answers are symbolic: exchange posts <= 1, or exactly 2 with the
         first answer 413; cancel posts <= 1, also over two cancel() calls.
"""

from __future__ import annotations

import ast
import inspect
import math
import random as _pyrandom
import struct
import textwrap
import time as _time
from io import BytesIO

import httpx2
import pyarrow as pa
from engine.api import QUICK, SEED, HarnessModelError, cond, pick, task
from engine.reglob import reglobalize
from pyarrow import ipc

from vgi_rpc.http import _client as cl
from vgi_rpc.http import _retry as rt
from vgi_rpc.rpc import AnnotatedBatch, RpcError

PROPERTY = "C38"
ENCODED = [rt._request_with_retry, rt._post_with_retry, rt._compute_delay, cl.HttpStreamSession.exchange, cl.HttpStreamSession.cancel]
BOUNDS = (
    "retry loop: max_retries 0..%d (quick 2, thorough 3), every fault script over {ConnectError, ReadTimeout, RemoteProtocolError(no response), "
    "RemoteProtocolError(other), any status 100..999 with Retry-After absent/any int} per attempt, both config flags, default "
    "retryable set plus one symbolic extra code; delay: all binary64 inputs (finite base,max >= 0), attempt 0..3; "
    "exchange/cancel: any status 100..999 for both answers, transport failure on either post, session retry config None / max_retries 0..3"
) % pick(2, 3)
OUTSIDE = (
    "float()/parsedate_to_datetime parsing of the Retry-After text (its result is the symbolic input of (b)); "
    "random.uniform is modelled by its documented range 0 <= u <= x (for base*2^a = +inf the CPython formula "
    "a+(b-a)*random() can give NaN when random()==0.0 — outside the model); init/unary/continuation callers of "
    "_post_with_retry; httpx2's own classification of exceptions"
)
ASSUMPTIONS = [
    "_compute_delay stub in (a) = 'records (attempt, config, retry_after), returns a fresh token' — its numeric range is decided in (b)",
    "_get_retry_after stub in (a) = 'returns the scripted value for that response (None or a number)'",
    "random.uniform(0,x) in (b) = nondeterministic u with 0 <= u <= x",
    "_externalize_request_body in (c) = storage I/O stub returning an opaque pointer body (its uploads are not exchange requests)",
]

# ---------------------------------------------------------------------------
# (a) retry loop
# ---------------------------------------------------------------------------

K_CONNECT, K_TIMEOUT, K_DISC, K_PROTO, K_STATUS = 0, 1, 2, 3, 4

_REC: dict = {}


class _Token:
    """Opaque delay value handed from the _compute_delay stub to the sleep recorder."""

    __slots__ = ("attempt", "config", "retry_after")

    def __init__(self, attempt, config, retry_after):  # type: ignore[no-untyped-def]
        self.attempt, self.config, self.retry_after = attempt, config, retry_after

    def __format__(self, spec: str) -> str:  # logging is disabled; never formatted in practice
        return "0.00"


def _stub_compute_delay(attempt, config, retry_after=None, *_a, **_k):  # type: ignore[no-untyped-def]
    t = _Token(attempt, config, retry_after)
    _REC["delays"].append(t)
    return t


def _stub_get_retry_after(headers, *_a, **_k):  # type: ignore[no-untyped-def]
    if not isinstance(headers, _Headers):
        raise HarnessModelError("_get_retry_after stub called with foreign headers")
    return headers.ra


class _Headers:
    def __init__(self, ra):  # type: ignore[no-untyped-def]
        self.ra = ra

    def __getattr__(self, name: str):  # type: ignore[no-untyped-def]
        raise HarnessModelError(f"C38 response-headers fake: .{name} is not modelled (read through _get_retry_after only)")


class _Resp:
    def __init__(self, status_code, ra):  # type: ignore[no-untyped-def]
        self.status_code = status_code
        self.headers = _Headers(ra)
        self.content = b"body"

    def __getattr__(self, name: str):  # type: ignore[no-untyped-def]
        raise HarnessModelError(f"C38 response fake: .{name} is not modelled (status_code / headers / content)")


class _Codes:
    """Linear-scan container over the live default retryable set plus one symbolic extra code."""

    def __init__(self, extra):  # type: ignore[no-untyped-def]
        self.extra = extra

    def __contains__(self, x):  # type: ignore[no-untyped-def]
        hit = x == self.extra
        for c in _DEFAULT_CODES:
            hit = hit | (x == c)  # non-short-circuit: one symbolic bool, one fork
        return hit


_DEFAULT_CODES = sorted(rt._DEFAULT_RETRYABLE)

_DISC_TEXT = "Server disconnected without sending a response."


def _make_fault(kind: int):  # type: ignore[no-untyped-def]
    if kind == K_CONNECT:
        return httpx2.ConnectError("connect failed")
    if kind == K_TIMEOUT:
        return httpx2.ReadTimeout("timed out")
    if kind == K_DISC:
        return httpx2.RemoteProtocolError(_DISC_TEXT)
    return httpx2.RemoteProtocolError("peer closed connection without sending complete message body")


class _ScriptClient:
    def __init__(self, script):  # type: ignore[no-untyped-def]
        self.script = script
        self.sent = 0
        self.outcomes: list = []

    def post(self, url, *, content, headers):  # type: ignore[no-untyped-def]
        if url != "http://h/m" or content != b"req" or headers != {"A": "b"}:
            raise HarnessModelError("request altered between attempts")
        i = self.sent
        self.sent += 1
        if i >= len(self.script):
            # a request beyond the script (the script is as long as max_retries+1 can be): answered 200 so that
            # the loop ends; the *count* is what the condition judges (not a model error)
            if i >= len(self.script) + 4:
                raise HarnessModelError("runaway retry loop (more than 4 requests beyond max_retries+1)")
            r = _Resp(200, None)
            self.outcomes.append(r)
            return r
        kind, status, ra = self.script[i]
        if kind == K_STATUS:
            r = _Resp(status, None if ra < 0 else ra)  # Retry-After absent / any int (decided lazily)
            self.outcomes.append(r)
            return r
        e = _make_fault(kind)
        self.outcomes.append(e)
        raise e


_MAXR = pick(2, 3)
_rwr = reglobalize(rt._request_with_retry, _compute_delay=_stub_compute_delay, _get_retry_after=_stub_get_retry_after)
_pwr = reglobalize(rt._post_with_retry, _request_with_retry=_rwr)


def _retry_breach(script, n: int, max_retries: int, retry_conn: bool, codes, terminal: str, term_status):  # type: ignore[no-untyped-def]
    """The property as an upper bound (None = holds, else what is breached) - NOT the loop's own algorithm:
      * at most max_retries+1 requests;
      * request k+1 only after a retryable outcome at k: a status in the configured set, or - with connection-level
        retry on - a connect error, a timeout or a disconnect before any response byte; never after another
        protocol error (bytes were flowing), never after a non-retryable status;
      * the caller sees the last outcome: a transport fault is not swallowed, a response is not turned into a
        transport exception, the returned / reported status is the last one received, HttpTransientError only
        for a status of the retryable set.
    Retrying *less* (time budget, giving up early, not replaying a POST after a timeout) is allowed.
    ``terminal`` = 'ret' | 'transient' | 'raise'; ``term_status`` = status returned / carried by HttpTransientError."""
    if n < 1:
        return "no request sent"
    if n > max_retries + 1:
        return f"{n} requests > max_retries+1 = {max_retries + 1}"
    for k in range(n - 1):
        kind, status, _ra = script[k]
        ok = (status in codes) if kind == K_STATUS else (retry_conn and kind != K_PROTO)
        if not ok:
            return f"request {k + 2} sent after a non-retryable outcome at request {k + 1}"
    kind, status, _ra = script[n - 1]
    if kind == K_STATUS:
        if terminal == "raise":
            return "the last request was answered, yet a transport exception reached the caller"
        if term_status != status:
            return "the status handed to the caller is not the last one received"
        if terminal == "transient" and not (status in codes):
            return "HttpTransientError for a status outside the retryable set"
    elif terminal != "raise":
        return "the last request failed at transport level, yet no exception reached the caller"
    return None


def _replay_retry(args: dict) -> str | None:
    """Un-stubbed _post_with_retry (real _compute_delay/_get_retry_after, real frozenset) on the concrete script."""
    mr = args["max_retries"]
    script = [(args["k%d" % i], args["s%d" % i], None if args["ra%d" % i] < 0 else args["ra%d" % i]) for i in range(4)]
    script = script + [(K_STATUS, 200, None)] * 4  # requests beyond the bound are answered 200 and counted
    codes = frozenset(_DEFAULT_CODES) | {args["extra"]}
    cfg = rt.HttpRetryConfig(max_retries=mr, backoff_base=0.5, backoff_max=2.0, retryable_status_codes=codes,
                             retry_on_connection_error=args["retry_conn"], respect_retry_after=args["respect_ra"])
    sent: list = []
    sleeps: list = []

    class C:
        def post(self, url, *, content, headers):  # type: ignore[no-untyped-def]
            i = len(sent)
            sent.append(i)
            if i >= len(script):
                raise AssertionError("runaway retry loop")
            kind, status, ra = script[i]
            if kind == K_STATUS:
                return httpx2.Response(status, headers=({} if ra is None else {"Retry-After": str(ra)}), content=b"body")
            raise _make_fault(kind)

    got, term_status = "raise", None
    try:
        r = rt._post_with_retry(C(), "http://h/m", content=b"req", headers={"A": "b"}, config=cfg, _sleep=sleeps.append)  # type: ignore[arg-type]
        got, term_status = "ret", getattr(r, "status_code", None)
    except rt.HttpTransientError as e:
        got, term_status = "transient", e.status_code
    except Exception:  # noqa: BLE001  (whatever class reaches the caller: the property does not name it)
        got = "raise"
    n = len(sent)
    bad = _retry_breach(script, min(n, len(script)), mr, args["retry_conn"], codes, got, term_status)
    if bad is None:
        off = [s for s in sleeps if not (isinstance(s, (int, float)) and 0 <= s <= cfg.backoff_max)]
        if off:
            bad = f"wait(s) outside [0, backoff_max={cfg.backoff_max}]: {off}"
    return f"{bad} (outcomes={script[:max(1, min(n, 5))]}, max_retries={mr}, retry_on_connection_error={args['retry_conn']}, requests sent={n}, waits={sleeps})" if bad else None


def _sig_retry(args: dict, conc) -> str:  # type: ignore[no-untyped-def]
    r = _replay_retry(args) or ""
    for key, sig in (("> max_retries+1", "more-than-max-retries"), ("non-retryable outcome", "retry-after-non-retryable"),
                     ("outside [0, backoff_max", "wait-out-of-range")):
        if key in r:
            return "C38:retry-loop:" + sig
    return "C38:retry-loop:terminal-not-last-outcome"


@cond(q=60, t=300, stubs=["_compute_delay := recording token stub", "_get_retry_after := scripted value"],
      encoded=[rt._request_with_retry, rt._post_with_retry], bound="max_retries 0..%d, scripts <= %d attempts" % (_MAXR, _MAXR + 1),
      replay=_replay_retry, signature=_sig_retry)
def retry_loop_bounded_and_only_after_retryable(max_retries: int, retry_conn: bool, respect_ra: bool, extra: int,
                             k0: int, s0: int, ra0: int, k1: int, s1: int, ra1: int,
                             k2: int, s2: int, ra2: int, k3: int, s3: int, ra3: int) -> bool:
    """
    pre: 0 <= max_retries <= _MAXR
    pre: 0 <= k0 <= 4 and 0 <= k1 <= 4 and 0 <= k2 <= 4 and 0 <= k3 <= 4
    pre: 100 <= s0 <= 999 and 100 <= s1 <= 999 and 100 <= s2 <= 999 and 100 <= s3 <= 999
    post: _
    """
    script = [(k0, s0, ra0), (k1, s1, ra1), (k2, s2, ra2), (k3, s3, ra3)]
    codes = _Codes(extra)
    cfg = rt.HttpRetryConfig(max_retries=max_retries, backoff_base=1, backoff_max=8, retryable_status_codes=codes,  # type: ignore[arg-type]
                             retry_on_connection_error=retry_conn, respect_retry_after=respect_ra)
    client = _ScriptClient(script)
    _REC["delays"] = []
    sleeps: list = []
    terminal, term_status = "raise", None
    try:
        ret = _pwr(client, "http://h/m", content=b"req", headers={"A": "b"}, config=cfg, _sleep=sleeps.append)
        terminal, term_status = "ret", ret.status_code
    except HarnessModelError:
        raise  # altered request / runaway loop: outside the model (INCONCLUSIVE), not a verdict
    except rt.HttpTransientError as e:
        terminal, term_status = "transient", e.status_code
    except Exception:  # noqa: BLE001  (the class reaching the caller is not named by the property)
        terminal = "raise"
    n = client.sent
    if n > len(script) or _retry_breach(script, n, max_retries, retry_conn, codes, terminal, term_status) is not None:
        return False
    # every wait is a value of _compute_delay (whose range [0, backoff_max] is decided by the fp task for attempt
    # 0..3 and this backoff_max) or a plain number within the range; how many waits there are is not stated
    for s in sleeps:
        if isinstance(s, _Token):
            c = s.config
            if not (c is cfg or getattr(c, "backoff_max", None) == cfg.backoff_max):
                return False
            if not (isinstance(s.attempt, int) and 0 <= s.attempt <= 3):
                return False
        elif isinstance(s, (int, float)):
            if not (0 <= s <= cfg.backoff_max):
                return False
        else:
            return False
    return True


@cond(q=20, t=60, encoded=[rt._post_with_retry], bound="any fault kind / status", stubs=[])
def no_config_means_single_post(k0: int, s0: int) -> bool:
    """
    pre: 0 <= k0 <= 4 and 100 <= s0 <= 999
    post: _
    """
    client = _ScriptClient([(k0, s0, -1)])
    # without a retry configuration: exactly the one request, and its outcome reaches the caller (a response is
    # returned with its status, a transport fault is raised - as whatever class, wrapped or not)
    try:
        r = rt._post_with_retry(client, "http://h/m", content=b"req", headers={"A": "b"}, config=None)  # type: ignore[arg-type]
        ok = k0 == K_STATUS and r.status_code == s0
    except HarnessModelError:
        raise
    except Exception:  # noqa: BLE001
        ok = k0 != K_STATUS
    return ok and client.sent == 1


# ---------------------------------------------------------------------------
# (b) fp: _compute_delay as IEEE-754 terms, from the live AST
# ---------------------------------------------------------------------------


class Unsupported(Exception):
    pass


class _FpTranslator:
    """Tiny AST -> SMT(FP) translator for straight-line float kernels.

    Value kinds: ("f", term) binary64; ("i", python int) concrete; ("b", boolterm);
    ("o", is_none_bool, term) Optional[float].  ``S`` is z3 or cvc5.pythonic (same surface).
    """

    def __init__(self, S, attempt: int):  # type: ignore[no-untyped-def]
        self.S = S
        self.sort = S.FPSort(11, 53)
        self.rm = S.RNE()
        self.attempt = attempt
        self.side: list = []  # side constraints (range of nondeterministic values)
        self.nondet: list = []
        self.vars: dict = {}

    # -- symbols -----------------------------------------------------------
    def fp(self, name: str):  # type: ignore[no-untyped-def]
        v = self.S.FP(name, self.sort)
        self.vars[name] = v
        return v

    def boolv(self, name: str):  # type: ignore[no-untyped-def]
        v = self.S.Bool(name)
        self.vars[name] = v
        return v

    def const(self, x: float):  # type: ignore[no-untyped-def]
        return self.S.FPVal(x, self.sort)

    def as_f(self, v):  # type: ignore[no-untyped-def]
        if v[0] == "f":
            return v[1]
        if v[0] == "i":
            if abs(v[1]) > 2**53:
                raise Unsupported("int constant not exactly representable")
            return self.const(float(v[1]))
        raise Unsupported(f"not a float: {v[0]}")

    # -- expressions -------------------------------------------------------
    def expr(self, node: ast.AST, env: dict):  # type: ignore[no-untyped-def]
        S = self.S
        if isinstance(node, ast.Constant):
            if isinstance(node.value, bool):
                return ("b", S.BoolVal(node.value))
            if isinstance(node.value, int):
                return ("i", node.value)
            if isinstance(node.value, float):
                return ("f", self.const(node.value))
            if node.value is None:
                return ("none",)
            raise Unsupported(f"constant {node.value!r}")
        if isinstance(node, ast.Name):
            if node.id not in env:
                raise Unsupported(f"free name {node.id}")
            return env[node.id]
        if isinstance(node, ast.Attribute) and isinstance(node.value, ast.Name) and node.value.id == "config":
            key = "config." + node.attr
            if key not in env:
                raise Unsupported(f"config attribute {node.attr} not modelled")
            return env[key]
        if isinstance(node, ast.BinOp):
            a, b = self.expr(node.left, env), self.expr(node.right, env)
            if isinstance(node.op, ast.Pow):
                if a[0] == "i" and b[0] == "i" and b[1] >= 0:
                    return ("i", a[1] ** b[1])
                raise Unsupported("** on non-concrete ints")
            if a[0] == "i" and b[0] == "i":
                if isinstance(node.op, ast.Mult):
                    return ("i", a[1] * b[1])
                if isinstance(node.op, ast.Add):
                    return ("i", a[1] + b[1])
                if isinstance(node.op, ast.Sub):
                    return ("i", a[1] - b[1])
                raise Unsupported("int op")
            fa, fb = self.as_f(a), self.as_f(b)
            if isinstance(node.op, ast.Mult):
                return ("f", S.fpMul(self.rm, fa, fb))
            if isinstance(node.op, ast.Add):
                return ("f", S.fpAdd(self.rm, fa, fb))
            if isinstance(node.op, ast.Sub):
                return ("f", S.fpSub(self.rm, fa, fb))
            if isinstance(node.op, ast.Div):
                raise Unsupported("division (ZeroDivisionError semantics not modelled)")
            raise Unsupported(f"binop {type(node.op).__name__}")
        if isinstance(node, ast.BoolOp):
            vals = [self.expr(v, env) for v in node.values]
            if any(v[0] != "b" for v in vals):
                raise Unsupported("and/or over non-bool operands (truthiness not modelled)")
            terms = [v[1] for v in vals]
            return ("b", S.And(*terms) if isinstance(node.op, ast.And) else S.Or(*terms))
        if isinstance(node, ast.UnaryOp) and isinstance(node.op, ast.Not):
            v = self.expr(node.operand, env)
            if v[0] != "b":
                raise Unsupported("not over non-bool")
            return ("b", S.Not(v[1]))
        if isinstance(node, ast.Compare) and len(node.ops) == 1:
            left, right = self.expr(node.left, env), self.expr(node.comparators[0], env)
            op = node.ops[0]
            if isinstance(op, (ast.Is, ast.IsNot)):
                if right[0] != "none" or left[0] not in ("o", "f", "i"):
                    raise Unsupported("is/is not only against None")
                isnone = left[1] if left[0] == "o" else S.BoolVal(False)
                return ("b", isnone if isinstance(op, ast.Is) else S.Not(isnone))
            fa = self.as_f(self.unopt(left))
            fb = self.as_f(self.unopt(right))
            table = {ast.Lt: S.fpLT, ast.LtE: S.fpLEQ, ast.Gt: S.fpGT, ast.GtE: S.fpGEQ, ast.Eq: S.fpEQ}
            for k, f in table.items():
                if isinstance(op, k):
                    return ("b", f(fa, fb))
            if isinstance(op, ast.NotEq):
                return ("b", S.Not(S.fpEQ(fa, fb)))
            raise Unsupported("comparison")
        if isinstance(node, ast.Call):
            return self.call(node, env)
        raise Unsupported(type(node).__name__)

    def unopt(self, v):  # type: ignore[no-untyped-def]
        """Value of an Optional used where the code has established it is not None (guarded by ite)."""
        return ("f", v[2]) if v[0] == "o" else v

    def call(self, node: ast.Call, env: dict):  # type: ignore[no-untyped-def]
        S = self.S
        if node.keywords:
            raise Unsupported("keyword arguments")
        f = node.func
        if isinstance(f, ast.Name) and f.id in ("min", "max") and len(node.args) >= 2:
            # CPython min/max: keep the first item; a later item replaces it iff item < cur (min) / item > cur (max)
            vals = [self.as_f(self.unopt(self.expr(a, env))) for a in node.args]
            cur = vals[0]
            for item in vals[1:]:
                c = S.fpLT(item, cur) if f.id == "min" else S.fpGT(item, cur)
                cur = S.If(c, item, cur)
            return ("f", cur)
        if isinstance(f, ast.Attribute) and isinstance(f.value, ast.Name) and f.value.id == "random" and f.attr == "uniform" and len(node.args) == 2:
            lo = self.as_f(self.expr(node.args[0], env))
            hi = self.as_f(self.expr(node.args[1], env))
            u = self.fp("u%d" % len(self.nondet))
            self.nondet.append((u, lo, hi))
            self.side.append(S.And(S.fpLEQ(lo, u), S.fpLEQ(u, hi)))
            return ("f", u)
        raise Unsupported("call " + ast.dump(f)[:60])

    # -- statements --------------------------------------------------------
    def block(self, stmts: list, env: dict):  # type: ignore[no-untyped-def]
        """Returns (env, ret) where ret is None or ("f", term) — early returns are merged by the caller."""
        S = self.S
        for i, st in enumerate(stmts):
            if isinstance(st, ast.Expr) and isinstance(st.value, ast.Constant) and isinstance(st.value.value, str):
                continue  # docstring
            if isinstance(st, ast.Assign) and len(st.targets) == 1 and isinstance(st.targets[0], ast.Name):
                env = dict(env)
                env[st.targets[0].id] = self.expr(st.value, env)
                continue
            if isinstance(st, ast.Return):
                if st.value is None:
                    raise Unsupported("bare return")
                return env, self.expr(st.value, env)
            if isinstance(st, ast.If):
                c = self.expr(st.test, env)
                if c[0] != "b":
                    raise Unsupported("if over non-bool")
                env_t, ret_t = self.block(st.body, env)
                env_e, ret_e = self.block(st.orelse, env)
                rest = stmts[i + 1 :]
                if ret_t is None and ret_e is None:
                    merged = dict(env)
                    for k in set(env_t) | set(env_e):
                        a, b = env_t.get(k), env_e.get(k)
                        if a is b:
                            merged[k] = a
                            continue
                        if a is None or b is None:
                            continue  # defined on one side only: unusable afterwards
                        merged[k] = ("f", S.If(c[1], self.as_f(self.unopt(a)), self.as_f(self.unopt(b))))
                    env = merged
                    continue
                # a branch returns: evaluate the continuation on each side and merge the results
                if ret_t is None:
                    _, ret_t = self.block(rest, env_t)
                if ret_e is None:
                    _, ret_e = self.block(rest, env_e)
                if ret_t is None or ret_e is None:
                    raise Unsupported("path without return")
                return env, ("f", S.If(c[1], self.as_f(ret_t), self.as_f(ret_e)))
            raise Unsupported("statement " + type(st).__name__)
        return env, None


def _delay_ast() -> ast.FunctionDef:
    tree = ast.parse(textwrap.dedent(inspect.getsource(rt._compute_delay)))
    fn = tree.body[0]
    assert isinstance(fn, ast.FunctionDef)
    return fn


def _encode_delay(S, attempt: int):  # type: ignore[no-untyped-def]
    """Encode _compute_delay(attempt, config, retry_after) -> (translator, inputs, result term)."""
    fn = _delay_ast()
    names = [a.arg for a in fn.args.args]
    if names != ["attempt", "config", "retry_after"]:
        raise Unsupported(f"signature changed: {names}")
    tr = _FpTranslator(S, attempt)
    env = {
        "attempt": ("i", attempt),
        "config.backoff_base": ("f", tr.fp("base")),
        "config.backoff_max": ("f", tr.fp("bmax")),
        "config.respect_retry_after": ("b", tr.boolv("respect")),
        "retry_after": ("o", tr.boolv("ra_none"), tr.fp("ra")),
    }
    _, ret = tr.block(fn.body, env)
    if ret is None:
        raise Unsupported("no return")
    return tr, tr.as_f(ret)


class _Cfg:
    def __init__(self, base, bmax, respect):  # type: ignore[no-untyped-def]
        self.backoff_base, self.backoff_max, self.respect_retry_after = base, bmax, respect


class _RandomStub:
    """random with uniform(a,b) returning the preset value (checked against the documented range)."""

    def __init__(self) -> None:
        self.queue: list = []
        self.calls: list = []

    def uniform(self, a, b):  # type: ignore[no-untyped-def]
        u = self.queue.pop(0)
        self.calls.append((a, b, u))
        return u

    def __getattr__(self, name: str):  # type: ignore[no-untyped-def]
        raise HarnessModelError(f"random.{name} not modelled")


_RAND = _RandomStub()
_delay_scripted = reglobalize(rt._compute_delay, random=_RAND)


def _bits(x: float) -> int:
    return struct.unpack("<Q", struct.pack("<d", x))[0]


def _from_bits(b: int) -> float:
    return struct.unpack("<d", struct.pack("<Q", b & (2**64 - 1)))[0]


def _same(a: float, b: float) -> bool:
    return (math.isnan(a) and math.isnan(b)) or _bits(a) == _bits(b)


_SPECIALS = [0.0, -0.0, 1.0, -1.0, 0.5, 30.0, float("inf"), float("-inf"), float("nan"), 5e-324, -5e-324, 2.2250738585072014e-308,
             1.7976931348623157e308, -1.7976931348623157e308, 1e-3, 3600.0, 1e300]


def _rand_double(rng: _pyrandom.Random, nonneg_finite: bool = False) -> float:
    while True:
        r = rng.random()
        if r < 0.3:
            x = rng.choice(_SPECIALS)
        elif r < 0.6:
            x = _from_bits(rng.getrandbits(64))
        else:
            x = rng.uniform(-100, 100) * 10 ** rng.randint(-5, 5)
        if nonneg_finite and not (math.isfinite(x) and x >= 0):
            x = abs(x)
            if not math.isfinite(x):
                continue
        return x


def _validate_translator(n: int) -> dict:
    """Real _compute_delay vs the z3 term on n random concrete vectors (constant folding of the same term)."""
    import z3

    rng = _pyrandom.Random(1234 + SEED)
    enc = {a: _encode_delay(z3, a) for a in range(4)}
    bad: list = []
    done = 0
    for _ in range(n):
        a = rng.randrange(4)
        tr, term = enc[a]
        base, bmax = _rand_double(rng, True), _rand_double(rng, True)
        respect = rng.random() < 0.7
        ra = None if rng.random() < 0.25 else _rand_double(rng)
        exp = base * (2**a)
        u = rng.choice([0.0, exp, exp * rng.random()]) if math.isfinite(exp) else rng.choice([0.0, 1e300, float("inf")])
        _RAND.queue[:] = [u]
        _RAND.calls.clear()
        real = _delay_scripted(a, _Cfg(base, bmax, respect), ra)
        if len(_RAND.calls) != len(tr.nondet):
            bad.append(("uniform-call-count", len(_RAND.calls), len(tr.nondet)))
            break
        sub = [(tr.vars["base"], z3.FPVal(base, tr.sort)), (tr.vars["bmax"], z3.FPVal(bmax, tr.sort)),
               (tr.vars["respect"], z3.BoolVal(respect)), (tr.vars["ra_none"], z3.BoolVal(ra is None)),
               (tr.vars["ra"], z3.FPVal(0.0 if ra is None else ra, tr.sort)), (tr.vars["u0"], z3.FPVal(u, tr.sort))]
        folded = z3.simplify(z3.substitute(term, *sub))
        model = _z3_fp_to_float(folded)
        # the uniform bounds the encoding imposed must be those the real call saw
        lo_hi = z3.simplify(z3.substitute(tr.nondet[0][2], *sub))
        if not _same(_z3_fp_to_float(lo_hi), float(_RAND.calls[0][1])):
            bad.append(("uniform-hi", a, base))
        if model is None or not _same(model, float(real)):
            bad.append({"attempt": a, "base": repr(base), "bmax": repr(bmax), "respect": respect, "ra": repr(ra), "u": repr(u), "real": repr(real), "model": repr(model)})
        done += 1
        if len(bad) > 3:
            break
    return {"n": done, "n_disagree": len(bad), "disagreements": bad[:4]}


def _z3_fp_to_float(t):  # type: ignore[no-untyped-def]
    import z3

    if not z3.is_fp_value(t):
        t = z3.simplify(t)
    if not z3.is_fp_value(t):
        return None
    if t.isNaN():
        return float("nan")
    if t.isInf():
        return float("-inf") if t.isNegative() else float("inf")
    bv = z3.simplify(z3.fpToIEEEBV(t))
    return _from_bits(bv.as_long())


def _query(S, attempt: int, timeout_s: float):  # type: ignore[no-untyped-def]
    """exists finite base,max >= 0, u in range, any ra: not (0 <= delay <= max) or isNaN(delay)."""
    tr, term = _encode_delay(S, attempt)
    base, bmax = tr.vars["base"], tr.vars["bmax"]
    zero = tr.const(0.0)
    s = S.Solver()
    if S.__name__.startswith("z3"):
        s.set("timeout", int(timeout_s * 1000))
    else:
        try:
            s.setOption("tlimit-per", str(int(timeout_s * 1000)))
        except Exception:  # noqa: BLE001
            pass
    pre = [S.Not(S.fpIsNaN(base)), S.Not(S.fpIsInf(base)), S.Not(S.fpIsNaN(bmax)), S.Not(S.fpIsInf(bmax)), S.fpGEQ(base, zero), S.fpGEQ(bmax, zero)]
    good = S.And(S.fpLEQ(zero, term), S.fpLEQ(term, bmax), S.Not(S.fpIsNaN(term)))
    s.add(*pre)
    s.add(*tr.side)
    s.add(S.Not(good))
    t0 = _time.monotonic()
    r = s.check()
    dt = _time.monotonic() - t0
    verdict = str(r)
    wit = None
    if verdict == "sat":
        m = s.model()
        wit = {"attempt": attempt}
        for k, v in tr.vars.items():
            val = m.eval(v, True) if S.__name__.startswith("z3") else m[v]
            wit[k] = _model_value(S, val)
    return verdict, dt, wit


def _model_value(S, val):  # type: ignore[no-untyped-def]
    if S.__name__.startswith("z3"):
        import z3

        if z3.is_bool(val):
            return bool(z3.is_true(val))
        return _z3_fp_to_float(val)
    # cvc5.pythonic
    try:
        if S.is_bool(val):
            return bool(S.is_true(val))
    except Exception:  # noqa: BLE001
        pass
    try:
        t = val.ast  # cvc5 Term
        if t.isFloatingPointValue():
            _e, _s, bv = t.getFloatingPointValue()
            return _from_bits(int(bv.getBitVectorValue(2), 2))
    except Exception:  # noqa: BLE001
        pass
    return None


def _replay_delay(w: dict) -> dict:
    """Run the real function (random.uniform scripted to the witness u, inside its documented range)."""
    base, bmax, u = w["base"], w["bmax"], w["u0"]
    ra = None if w["ra_none"] else w["ra"]
    if None in (base, bmax, u) or (ra is None and not w["ra_none"]):
        return {"verdict": "INCONCLUSIVE", "detail": f"witness could not be decoded: {w}"}
    exp = base * (2 ** w["attempt"])
    if not (0 <= u <= exp):
        return {"verdict": "INCONCLUSIVE", "detail": f"witness u={u!r} outside uniform's range [0,{exp!r}]"}
    _RAND.queue[:] = [u]
    cfg = rt.HttpRetryConfig(max_retries=3, backoff_base=base, backoff_max=bmax, respect_retry_after=w["respect"])
    d = _delay_scripted(w["attempt"], cfg, ra)
    if not (0 <= d <= bmax):
        kind = "nan" if math.isnan(d) else ("negative" if d < 0 else "above-max")
        return {"verdict": "VIOLATION", "replayed": True, "signature": "C38:compute-delay:" + kind,
                "detail": f"_compute_delay(attempt={w['attempt']}, base={base!r}, max={bmax!r}, respect={w['respect']}, retry_after={ra!r}; uniform->{u!r}) = {d!r} not in [0, backoff_max]"}
    return {"verdict": "INCONCLUSIVE", "detail": f"solver witness did not reproduce: delay={d!r} for {w}"}


@task(q=60, t=300, encoded=[rt._compute_delay], engine="fp", stubs=["random.uniform(0,x) := any u with 0 <= u <= x"],
      bound="all binary64 base,max finite >= 0; any binary64/None retry_after; attempt 0..3")
def delay_within_zero_and_backoff_max(budget: float, replay=None) -> dict:
    if replay is not None:
        return _replay_delay(replay)
    import z3

    try:
        _encode_delay(z3, 0)
    except Unsupported as e:
        return {"verdict": "INCONCLUSIVE", "detail": f"_compute_delay uses a construct outside the translator: {e}", "queries": 0, "discharged": 0}
    val = _validate_translator(pick(10_000, 30_000))
    if val["n_disagree"]:
        return {"verdict": "ERROR", "detail": f"AST->FP translator disagrees with the real function: {val['disagreements']}"}
    try:
        import cvc5.pythonic as cv
    except Exception as e:  # noqa: BLE001
        cv = None
        cv_err = repr(e)
    cap = min(60.0, max(5.0, budget / 10))
    log: list = []
    queries = discharged = 0
    solver_s = 0.0
    for a in range(4):
        rz, dz, wz = _query(z3, a, cap)
        queries += 1
        solver_s += dz
        rc, dc, wc = ("skipped", 0.0, None)
        if cv is not None:
            try:
                rc, dc, wc = _query(cv, a, cap)
            except Exception as e:  # noqa: BLE001
                rc = "error:" + type(e).__name__ + ":" + str(e)[:120]
            queries += 1
            solver_s += dc
        log.append({"attempt": a, "z3": rz, "z3_s": round(dz, 3), "cvc5": rc, "cvc5_s": round(dc, 3)})
        res = {"queries": queries, "solver_s": round(solver_s, 3), "samples": log, "translator_validation": val}
        if "sat" in (rz, rc):
            w = wz if rz == "sat" else wc
            out = _replay_delay(w) if w else {"verdict": "INCONCLUSIVE", "detail": "sat without decodable model"}
            if rz != rc and out["verdict"] != "VIOLATION":
                out = {"verdict": "INCONCLUSIVE", "detail": f"solvers disagree at attempt {a}: z3={rz} cvc5={rc}; witness did not replay"}
            res.update(out)
            res["cex"] = w
            res["discharged"] = discharged
            return res
        if rz != "unsat" or rc != "unsat":
            res.update(verdict="INCONCLUSIVE", detail=f"attempt {a}: z3={rz}, cvc5={rc} (both must answer unsat)", discharged=discharged)
            return res
        discharged += 2
    return {"verdict": "CONFIRMED", "queries": queries, "discharged": discharged, "solver_s": round(solver_s, 3), "samples": log, "translator_validation": val}


# ---------------------------------------------------------------------------
# (c) exchange / cancel are sent at most once (one resend after 413)
# ---------------------------------------------------------------------------

_SCHEMA = pa.schema([pa.field("v", pa.int64())])
_IN = AnnotatedBatch(batch=pa.RecordBatch.from_pydict({"v": [1]}, schema=_SCHEMA))


def _ok_body() -> bytes:
    from vgi_rpc.metadata import STATE_KEY

    buf = BytesIO()
    with ipc.new_stream(buf, _SCHEMA) as w:
        w.write_batch(pa.RecordBatch.from_pydict({"v": [2]}, schema=_SCHEMA), custom_metadata=pa.KeyValueMetadata({STATE_KEY: b"next"}))
    return buf.getvalue()


_OK_BODY = _ok_body()
_URL = "http://h/p/m/exchange"


class _SResp:
    def __init__(self, status_code, content):  # type: ignore[no-untyped-def]
        self.status_code, self.content, self.headers = status_code, content, {}


class _CountingClient:
    """Every verb is recorded; only POST to the exchange URL is expected from exchange()/cancel()."""

    def __init__(self, answers):  # type: ignore[no-untyped-def]
        self.answers = answers  # list of (raise?, status, good_body?)
        self.posts: list = []
        self.other: list = []

    def post(self, url, *, content, headers):  # type: ignore[no-untyped-def]
        if url != _URL:
            raise HarnessModelError(f"POST to {url!r}: only the exchange URL is modelled")
        i = len(self.posts)
        self.posts.append(url)
        if i >= len(self.answers):
            # beyond the symbolic answers: answered 200 and *counted* (the count is what is judged)
            if i >= len(self.answers) + 8:
                raise HarnessModelError("runaway resend loop")
            return _SResp(200, _OK_BODY)
        boom, status, good = self.answers[i]
        if boom:
            raise httpx2.ConnectError("down")
        return _SResp(status, _OK_BODY if good else b"garbage")

    def __getattr__(self, name: str):  # type: ignore[no-untyped-def]
        def verb(*a, **k):  # type: ignore[no-untyped-def]
            self.other.append(name)
            raise HarnessModelError(f"client.{name} used by exchange/cancel")

        return verb


class _Session(cl.HttpStreamSession):
    """Real session; only the storage round-trip of the 413 fallback is replaced (not an exchange request)."""

    externalized = 0

    def _externalize_request_body(self, body: bytes) -> bytes:
        self.externalized += 1
        return body


def _mk_session(client, state, finished=False, retry=None):  # type: ignore[no-untyped-def]
    return _Session(client, "http://h/p", "m", state, _SCHEMA, finished=finished, retry_config=retry)


def _retry_cfg(has_retry, mr):  # type: ignore[no-untyped-def]
    """The session's retry configuration (None or max_retries = mr); zero backoff so that a retry loop reached by
    mistake does not really sleep."""
    if not has_retry:
        return None
    return rt.HttpRetryConfig(max_retries=mr, backoff_base=0.0, backoff_max=0.0)


def _replay_exchange(args: dict) -> str | None:
    client = _CountingClient([(args["boom0"], args["st0"], args["good0"]), (args["boom1"], args["st1"], args["good1"])])
    s = _mk_session(client, b"tok", retry=_retry_cfg(args["has_retry"], args["mr"]))
    try:
        s.exchange(_IN)
    except HarnessModelError:
        raise
    except Exception:  # noqa: BLE001
        pass
    n = len(client.posts)
    first = "a transport failure" if args["boom0"] else args["st0"]
    if n > 2 or (n == 2 and (args["boom0"] or args["st0"] != 413)):
        return (f"exchange() sent {n} POSTs to the exchange URL (first answer {first}, second {'a transport failure' if args['boom1'] else args['st1']}, "
                f"session retry config max_retries={args['mr'] if args['has_retry'] else None}); at most one, or two when the first answer is 413")
    return None


@cond(q=60, t=200, stubs=["_externalize_request_body := storage I/O stub"], encoded=[cl.HttpStreamSession.exchange],
      bound="any status 100..999 on both answers; transport failure / undecodable body on either; session retry config None or max_retries 0..3", replay=_replay_exchange,
      signature=lambda a, c: "C38:exchange:resent")
def exchange_sent_once_or_twice_after_413(st0: int, st1: int, boom0: bool, boom1: bool, good0: bool, good1: bool, has_retry: bool, mr: int) -> bool:
    """
    pre: 100 <= st0 <= 999 and 100 <= st1 <= 999 and 0 <= mr <= 3
    post: _
    """
    client = _CountingClient([(boom0, st0, good0), (boom1, st1, good1)])
    s = _mk_session(client, b"tok", retry=_retry_cfg(has_retry, mr))
    try:
        s.exchange(_IN)
    except HarnessModelError:
        raise
    except Exception:  # noqa: BLE001
        pass
    n = len(client.posts)
    # at most once; a second request only as the single resend after a 413 answer (whether the resend is made at
    # all, and what the storage round trip looks like, is not the property's business)
    return n <= 1 or (n == 2 and not boom0 and st0 == 413)


def _replay_cancel(args: dict) -> str | None:
    client = _CountingClient([(args["boom0"], args["st0"], args["good0"])])
    s = _mk_session(client, b"tok" if args["has_state"] else None, finished=args["finished"], retry=_retry_cfg(args["has_retry"], args["mr"]))
    counts = []
    for _ in range(2):
        try:
            s.cancel()
        except HarnessModelError:
            raise
        except Exception:  # noqa: BLE001  (whether a failed cancel is swallowed is not the property's business)
            pass
        counts.append(len(client.posts))
    if counts[0] > 1 or counts[1] > 1:
        return (f"cancel() sent {counts[0]} POSTs, {counts[1]} after a second cancel(); at most one cancel request per session (first answer: "
                f"{'transport error' if args['boom0'] else args['st0']}, retry config max_retries={args['mr'] if args['has_retry'] else None})")
    return None


@cond(q=30, t=120, replay=_replay_cancel, signature=lambda a, c: "C38:cancel:resent-or-not-final",
      encoded=[cl.HttpStreamSession.exchange, cl.HttpStreamSession.cancel], bound="state present/absent, finished flag, any status 100..999, transport failure; session retry config None or max_retries 0..3")
def cancel_sent_at_most_once_and_final(has_state: bool, finished: bool, st0: int, boom0: bool, good0: bool, has_retry: bool, mr: int) -> bool:
    """
    pre: 100 <= st0 <= 999 and 0 <= mr <= 3
    post: _
    """
    client = _CountingClient([(boom0, st0, good0)])
    s = _mk_session(client, b"tok" if has_state else None, finished=finished, retry=_retry_cfg(has_retry, mr))
    # "cancel requests are sent at most once": one cancel() posts at most once (whatever the answer, whatever the
    # session's retry config), and a second cancel() does not post again.  Whether a failing cancel raises, and the
    # session's private flags, are not the property's business.
    for _ in range(2):
        try:
            s.cancel()
        except HarnessModelError:
            raise
        except Exception:  # noqa: BLE001
            pass
        if len(client.posts) > 1:
            return False
    return True
