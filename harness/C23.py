"""C23 — proof nonces cannot be replayed within the window (NonceCache), for every schedule.

coop engine: the real source of NonceCache.check_and_add / _sweep / __len__ is rewritten at
import time into interleavable generators (a preemption point before every statement, the
lock taken where the source takes it); the schedule (start thread + k preemption points),
the clock values, ttl, capacity and the equality pattern of the nonces are symbolic.
"""

from __future__ import annotations

from engine import coop
from engine.api import QUICK, SEED, HarnessModelError, cond, pick, task

from vgi_rpc.http import _replay as rp

PROPERTY = "C23"
LEVEL = "model_checking"
ENCODED = [rp.NonceCache.check_and_add, rp.NonceCache._sweep, rp.NonceCache.__len__]
BOUNDS = "quick: 2 threads, start thread + 1 preemption; thorough: 2 threads k=2, 3 threads k=2; one check_and_add per thread; statement granularity; capacity 1..2 in the concurrent items, 1..3 sequentially; unbounded integer clocks and ttl; plus sequential histories of 3, 5 and (thorough) 6 calls judged by the property"
OUTSIDE = "acceptance of fresh nonces, the exact instant t+ttl and the eviction policy (the property only says when a replay MUST be refused); preemption inside a single statement; float clocks (ints used: only + and comparisons are applied to them); more calls per thread"
ASSUMPTIONS = [
    "clock stub: each read returns the previous value plus a symbolic non-negative int (monotonic clock contract)",
    "ttl_seconds (a public, documented attribute) is set to a symbolic positive int after construction (the code only adds and compares it); an import-time witness checks that the code reads that attribute, otherwise the harness reports a model error; real-thread replays use the real constructor",
    "the window is measured from the first acceptance's own clock reading to the (real) time at which the second acceptance completed: the source reads the clock before taking the lock, so a call may act on a stale reading (an earlier, stricter oracle that compared the two calls' own readings raised a false alarm in the 3-thread thorough item and was corrected)",
]

UNIT = coop.Unit(ENCODED)
CHECK = UNIT.twin(rp.NonceCache.check_and_add)


def _mk_cache(ttl, cap, clock):  # type: ignore[no-untyped-def]
    """A NonceCache whose (public, documented) ttl_seconds attribute holds the integer model of the TTL.
    The constructor applies float() to it, which would make every comparison a float one; the code
    under test only adds and compares the attribute.  If the attribute stops being what the code
    reads, that is a harness-model problem (INCONCLUSIVE), never a finding."""
    cache = rp.NonceCache(ttl_seconds=1, capacity=cap, clock=clock)
    try:
        cache.ttl_seconds = ttl
    except AttributeError as e:
        raise HarnessModelError("NonceCache.ttl_seconds is no longer a settable attribute") from e
    return cache


def _ttl_attribute_is_live() -> bool:
    t = [0]
    c = _mk_cache(5, 2, lambda: t[0])
    c.check_and_add("x")
    t[0] = 3  # inside a 5-unit window, outside the constructor's 1-unit one
    return c.check_and_add("x") is False


if not _ttl_attribute_is_live():
    raise HarnessModelError("NonceCache no longer reads its ttl_seconds attribute: the integer-TTL model does not apply")



class _Clock:
    def __init__(self, deltas: list[int]) -> None:
        self.deltas = deltas
        self.now = 0
        self.reads = 0
        self.by_thread: dict[int, int] = {}
        self.order = 0

    def __call__(self) -> int:
        d = self.deltas[self.reads] if self.reads < len(self.deltas) else 0
        self.reads += 1
        self.now = self.now + d
        if coop._ACTIVE:
            self.by_thread[coop.sched().current] = self.now
        return self.now


@coop._mark
def _body(cache, nonce, out, idx, clock):  # a scenario thread: one call, recording (accepted, clock it read)
    r = yield from coop._cc(cache.check_and_add, nonce)
    # (accepted, clock value this call read, clock value when it returned, completion order)
    clock.order += 1
    out[idx] = (r, clock.by_thread[idx], clock.now, clock.order)
    return r


def _scenario(n_threads: int, same01: bool, same02: bool, cap: int, ttl: int, d: list[int], first: int, pre: list[tuple[int, int]]):
    s = coop.Scheduler(max_steps=200)
    try:
        clock = _Clock(d)
        cache = _mk_cache(ttl, cap, clock)  # integer model of the TTL
        if "_lock" not in rp.NonceCache.__slots__ or "_entries" not in rp.NonceCache.__slots__:
            raise HarnessModelError("NonceCache no longer keeps its lock / entries where the scheduler model puts its own")
        cache._lock = s.Lock()
        nonces = ["a", "a" if same01 else "b", "a" if same02 else "c"]
        out: list = [None] * n_threads
        for i in range(n_threads):
            s.spawn(_body, cache, nonces[i], out, i, clock)
        def inv() -> bool:
            return len(cache._entries) <= cap

        s.invariant = inv
        s.run(first, pre)
        return s, cache, clock, out, nonces
    finally:
        s.close()


def _verdict(s, cache, clock, out, nonces, cap: int, ttl: int) -> bool:
    if s.deadlocked or s.invariant_failed_at is not None:
        return False
    for t in s.threads:
        if t.exc is not None or not t.done:
            return False
    n = len(out)
    # (i) two acceptances of the same nonce => >= ttl apart on the clocks they read,
    #     or >= capacity distinct nonces were inserted (only possible when cap < n here)
    for i in range(n):
        for j in range(i + 1, n):
            if nonces[i] == nonces[j] and out[i][0] and out[j][0]:
                # The clock is read *before* the lock is taken, so a call may act on a stale reading.
                # What the window guarantees is measured in real time: the second acceptance (the one
                # that completed later) happened no earlier than `ttl` after the first call's own clock
                # reading — the entry it left expires at (its reading + ttl) and only a sweep by a
                # caller whose clock had reached that value removes it.
                a, b = (i, j) if out[i][3] < out[j][3] else (j, i)
                gap = out[b][2] - out[a][1]
                if gap < ttl:
                    distinct = len(set(nonces[:n]))
                    if not (cap < distinct):
                        return False
    return True


def _replay_threads(n: int, nonces_sel, cap: int, ttl: int, d: list[int], first: int, pre) -> str | None:
    """Replay the counterexample schedule on genuine threads running the unmodified NonceCache."""
    import threading

    same01, same02 = nonces_sel
    s, cache, clock, out, nonces = _scenario(n, same01, same02, cap, ttl, d, first, pre)
    model_bad = not _verdict(s, cache, clock, out, nonces, cap, ttl)
    if not model_bad:
        return None
    seen = dict(clock.by_thread)
    idx_of: dict[int, int] = {}

    def real_clock() -> int:
        return seen.get(idx_of.get(threading.get_ident(), -1), 0)

    real = rp.NonceCache(ttl_seconds=ttl, capacity=cap, clock=real_clock)  # the real constructor, concrete ttl
    rout: list = [None] * n
    order = [0]
    max_len = [0]

    def body(i: int):
        def run():
            idx_of[threading.get_ident()] = i
            r = real.check_and_add(nonces[i])
            order[0] += 1
            rout[i] = (r, seen.get(i, 0), max(seen.values()) if seen else 0, order[0])
            max_len[0] = max(max_len[0], len(real._entries))
            return r

        return run

    res = coop.replay_real(UNIT, [body(i) for i in range(n)], s.trace, s.seg_ends)
    if res["diverged"] or not res["completed"]:
        return None

    class _S:  # the verdict function reads these
        deadlocked = False
        invariant_failed_at = None if len(real._entries) <= cap and max_len[0] <= cap else 1
        threads = [type("T", (), {"exc": None, "done": True})() for _ in range(n)]

    if any(r is None for r in rout):
        return None
    if not _verdict(_S, real, None, rout, nonces, cap, ttl):
        return f"real threads, schedule of {len(s.trace)} statements in {res['segments']} segments: results={rout}, retained={len(real._entries)} (capacity {cap}), nonces={nonces[:n]}"
    return None


def _replay_k1(a: dict) -> str | None:
    return _replay_threads(2, (a["same"], False), a["cap"], a["ttl"], [a["d0"], a["d1"]], a["first"], [(a["p1"], 1 - a["first"])])


def _replay_k2(a: dict) -> str | None:
    return _replay_threads(2, (a["same"], False), a["cap"], a["ttl"], [a["d0"], a["d1"]], a["first"], [(a["p1"], 1 - a["first"]), (a["p2"], a["first"])])


def _replay_3(a: dict) -> str | None:
    return _replay_threads(3, (a["same01"], a["same02"]), a["cap"], a["ttl"], [a["d0"], a["d1"], a["d2"]], a["first"], [(a["p1"], a["t1"]), (a["p2"], a["t2"])])


@cond(q=90, t=300, engine="coop", replay=_replay_k1, encoded=ENCODED, bound="2 threads, start thread + 1 preemption (covers A|B|A), cap 1..2, unbounded int clocks/ttl")
def two_threads_k1(same: bool, cap: int, ttl: int, d0: int, d1: int, first: int, p1: int) -> bool:
    """
    pre: 1 <= cap <= 2 and ttl > 0 and d0 >= 0 and d1 >= 0
    pre: 0 <= first <= 1 and 0 <= p1 <= 40
    post: _
    """
    d = [d0, d1]
    s, cache, clock, out, nonces = _scenario(2, same, False, cap, ttl, d, first, [(p1, 1 - first)])
    return _verdict(s, cache, clock, out, nonces, cap, ttl)


@cond(q=60, t=1200, tiers=("thorough",), engine="coop", replay=_replay_k2, encoded=ENCODED, bound="2 threads, 2 preemptions, cap 1..2, unbounded int clocks/ttl")
def two_threads_k2(same: bool, cap: int, ttl: int, d0: int, d1: int, first: int, p1: int, p2: int) -> bool:
    """
    pre: 1 <= cap <= 2 and ttl > 0 and d0 >= 0 and d1 >= 0
    pre: 0 <= first <= 1 and 0 <= p1 < p2 <= 40
    post: _
    """
    d = [d0, d1]
    s, cache, clock, out, nonces = _scenario(2, same, False, cap, ttl, d, first, [(p1, 1 - first), (p2, first)])
    return _verdict(s, cache, clock, out, nonces, cap, ttl)


@cond(q=60, t=4500, tiers=("thorough",), engine="coop", replay=_replay_3, encoded=ENCODED, bound="3 threads, 2 preemptions, cap 1..2, ttl and clocks symbolic")
def three_threads_k2(same01: bool, same02: bool, cap: int, ttl: int, d0: int, d1: int, d2: int, first: int, p1: int, t1: int, p2: int, t2: int) -> bool:
    """
    pre: 1 <= cap <= 2 and ttl > 0 and d0 >= 0 and d1 >= 0 and d2 >= 0
    pre: 0 <= first <= 2 and 0 <= t1 <= 2 and 0 <= t2 <= 2 and 0 <= p1 < p2 <= 45
    post: _
    """
    d = [d0, d1, d2]
    s, cache, clock, out, nonces = _scenario(3, same01, same02, cap, ttl, d, first, [(p1, t1), (p2, t2)])
    return _verdict(s, cache, clock, out, nonces, cap, ttl)


@cond(q=40, t=120, engine="xh", encoded=ENCODED, bound="3 sequential calls, cap 1..3, unbounded int clocks/ttl")
def sequential_window(same01: bool, same02: bool, same12: bool, cap: int, ttl: int, d0: int, d1: int, d2: int) -> bool:
    """
    pre: 1 <= cap <= 3 and ttl > 0 and d0 >= 0 and d1 >= 0 and d2 >= 0
    post: _
    """
    # the un-rewritten real methods, single thread, judged by the property alone
    clock = _Clock([d0, d1, d2])
    cache = _mk_cache(ttl, cap, clock)
    n0 = "a"
    n1 = "a" if same01 else "b"
    n2 = "a" if same02 else ("b" if (same12 and not same01) else "c")
    names = [n0, n1, n2]
    times = [d0, d0 + d1, d0 + d1 + d2]
    got = [cache.check_and_add(n0), cache.check_and_add(n1), cache.check_and_add(n2)]
    return _seq_property(names, times, got, cap, ttl) and len(cache) <= cap


@task(q=60, t=120, engine="coop-validation", encoded=ENCODED, bound="model validation: concrete schedules replayed on genuine threads")
def model_matches_real_threads(budget: float, replay=None) -> dict:
    """Translator validation for the coop encoding (not the deciding step): concrete schedules are
    run on the rewritten generators and then forced onto real threads running the unmodified
    methods; results and retained-entry counts must agree."""
    import random
    import threading

    rnd = random.Random(SEED)
    cases = [(f, p, same, cap) for f in (0, 1) for p in (1, 4, 7, 9, 12, 15) for same in (False, True) for cap in (1, 2)]
    rnd.shuffle(cases)
    cases = cases[: pick(10, 40)]
    agree, samples, bad = 0, [], []
    attempts: dict = {}
    for first, p1, same, cap in cases:
        d = [rnd.randint(0, 3), rnd.randint(0, 3)]
        ttl = rnd.randint(1, 3)
        s, cache, clock, out, nonces = _scenario(2, same, False, cap, ttl, d, first, [(p1, 1 - first)])
        seen = dict(clock.by_thread)
        idx_of: dict[int, int] = {}

        def real_clock() -> int:
            return seen.get(idx_of.get(threading.get_ident(), -1), 0)

        real = rp.NonceCache(ttl_seconds=ttl, capacity=cap, clock=real_clock)
        rout: list = [None, None]

        def body(i: int):
            def run():
                idx_of[threading.get_ident()] = i
                rout[i] = real.check_and_add(nonces[i])

            return run

        res = coop.replay_real(UNIT, [body(0), body(1)], s.trace, s.seg_ends)
        model = [out[0][0], out[1][0]]
        forced = not res["diverged"] and res["completed"]  # was the recorded schedule really imposed on the threads?
        ok = forced and rout == model and len(real) == len(cache._entries)
        if not forced and attempts.get(repr((first, p1, same, cap)), 0) >= 2:
            coop.STATS["real_replays_not_forced"] = coop.STATS.get("real_replays_not_forced", 0) + 1  # timing: the schedule could not be imposed; says nothing either way
            continue
        if ok:
            agree += 1
            coop.STATS["real_replays_agree"] += 1
        elif attempts.setdefault(repr((first, p1, same, cap)), 0) < 2:
            attempts[repr((first, p1, same, cap))] += 1
            cases.append((first, p1, same, cap))  # the replay is timing-sensitive: retry before calling it a disagreement
        else:
            bad.append({"case": [first, p1, same, cap, ttl, d], "model": model, "real": rout, "replay": {k: res[k] for k in ("diverged", "completed", "segments")}})
        if len(samples) < 3:
            samples.append({"schedule": {"first": first, "preempt_after_statement": p1}, "segments": res["segments"], "model_results": model, "real_thread_results": rout})
    verdict = "CONFIRMED" if not bad else "ERROR"
    return {"verdict": verdict, "queries": len(cases), "discharged": agree, "solver_s": 0.0, "samples": samples, "detail": f"model/real-thread disagreement: {bad[:2]}" if bad else ""}


def _seq_property(names: list[str], times: list, got: list, cap, ttl) -> bool:  # type: ignore[no-untyped-def]
    """The property for a single caller, and nothing else: once a nonce has been ACCEPTED (at time
    t_j), presenting it again at t_k with t_k - t_j < ttl must be REFUSED as long as fewer than
    `cap` distinct other nonces arrived in between.  Nothing is demanded of fresh nonces, of the
    instant t_j + ttl itself, or of which entry leaves at capacity."""
    n = len(names)
    for k in range(n):
        j = -1
        for i in range(k):
            if names[i] == names[k] and got[i]:
                j = i  # the most recent acceptance of this nonce
        if j < 0:
            continue
        if not (times[k] - times[j] < ttl):
            continue
        others: list[str] = []
        for i in range(j + 1, k):
            if names[i] != names[k] and names[i] not in others:
                others.append(names[i])
        if len(others) < cap and got[k]:
            return False
    return True


_NAMES = ("a", "b", "c", "d")


def _pick_name(i: int) -> str:
    if i == 0:
        return "a"
    if i == 1:
        return "b"
    if i == 2:
        return "c"
    return "d"


def _history(cap: int, ttl, names: list[str], deltas: list) -> bool:  # type: ignore[no-untyped-def]
    clock = _Clock(deltas)
    cache = _mk_cache(ttl, cap, clock)
    times: list = []
    acc = 0
    for dd in deltas:
        acc = acc + dd
        times.append(acc)
    got = [cache.check_and_add(nz) for nz in names]
    return _seq_property(names, times, got, cap, ttl) and len(cache) <= cap


@cond(q=90, t=200, engine="xh", encoded=ENCODED, bound="5 sequential calls a, b, x, y, z with x,y,z any of {a,b,c}; capacity 2; ttl 3; each clock step 0 or 2 (so entries expire inside the history and a replay can fall inside or outside its window)")
def sequential_history_eviction_order(n2: int, n3: int, n4: int, j1: bool, j2: bool, j3: bool, j4: bool) -> bool:
    """
    pre: 0 <= n2 <= 2 and 0 <= n3 <= 2 and 0 <= n4 <= 2
    post: _
    """
    # long enough for eviction ORDER to matter (fill, replay, overflow, replay again): the
    # un-rewritten real methods judged by the property (_seq_property)
    names = ["a", "b", _pick_name(n2), _pick_name(n3), _pick_name(n4)]
    deltas = [0, 2 if j1 else 0, 2 if j2 else 0, 2 if j3 else 0, 2 if j4 else 0]
    return _history(2, 3, names, deltas)


@cond(q=120, t=1800, tiers=("thorough",), engine="xh", encoded=ENCODED, bound="5 sequential calls over 4 nonce names (first two fixed a, b), capacity 2..3, unbounded integer clock steps and ttl")
def sequential_history_replays_refused(cap3: bool, ttl: int, n2: int, n3: int, n4: int, d1: int, d2: int, d3: int, d4: int) -> bool:
    """
    pre: ttl > 0 and 0 <= n2 <= 3 and 0 <= n3 <= 3 and 0 <= n4 <= 3
    pre: d1 >= 0 and d2 >= 0 and d3 >= 0 and d4 >= 0
    post: _
    """
    names = ["a", "b", _pick_name(n2), _pick_name(n3), _pick_name(n4)]
    return _history(3 if cap3 else 2, ttl, names, [0, d1, d2, d3, d4])


@cond(q=300, t=900, engine="xh", encoded=ENCODED, bound="6 sequential calls a, b, then four more over {a,b,c,d}; capacity 3 (so the cache is not full while entries expire); ttl 3; each clock step 0 or 2")
def sequential_history_below_capacity(n2: int, n3: int, n4: int, n5: int, j1: bool, j2: bool, j3: bool, j4: bool, j5: bool) -> bool:
    """
    pre: 0 <= n2 <= 3 and 0 <= n3 <= 3 and 0 <= n4 <= 3 and 0 <= n5 <= 3
    post: _
    """
    # capacity above the number of live entries for part of the history: expiry handling that only
    # happens "when space is needed" shows here and not in the capacity-2 item
    names = ["a", "b", _pick_name(n2), _pick_name(n3), _pick_name(n4), _pick_name(n5)]
    deltas = [0, 2 if j1 else 0, 2 if j2 else 0, 2 if j3 else 0, 2 if j4 else 0, 2 if j5 else 0]
    return _history(3, 3, names, deltas)
