"""sx — a small z3-backed symbolic executor for string-manipulating Python code.

Why: CrossHair cannot run ``urllib.parse.urlsplit`` on symbolic strings within any useful bound
here (measured: 1 symbolic char = 11 paths / 11 s; two chars through ``_validate_return_to`` =
20 paths in 60 s, unfinished — z3 time is dominated by CrossHair's Unicode ``lower``/``isalpha``
tables).  Both C31 and C37 are about URL strings going through ``urlparse``.

How (same idea as CrossHair, reduced to what these properties need):

* A symbolic string is a *char array*: a tuple whose elements are either concrete 1-char ``str``
  or z3 ``Int`` code points (every symbolic code point is constrained to the ASCII range
  0..127 at creation; individual harnesses may exclude further characters).  Lengths and all
  integers are concrete; only characters are symbolic.
* ``SymStr`` is a duck-typed string (``isinstance(x, str)`` is true through ``__class__``, it is
  NOT a ``str`` subclass): the real bytecode of the repository functions and of
  ``urllib.parse`` runs natively and calls its methods.  Anything that needs a real ``str`` at
  the C level (``re``, ``ipaddress``, ``str.join``, ``%``-formatting, hashing, a concrete
  string's own ``find``/``in`` with a symbolic argument) fails loudly (``TypeError`` from
  CPython or ``Unsupported`` from here) and makes the item INCONCLUSIVE — never silently wrong.
* Every test on symbolic characters (``==``, ``in``, ``find``, ``startswith``, ``isdigit`` …)
  builds a z3 Bool and goes through ``branch()``: both sides are checked for feasibility under
  the path condition with z3; if both are feasible the other side is queued.  Exploration is
  depth-first by *re-execution* with a decision prefix (no state copying).  A path on which the
  property evaluates to false yields a model = concrete characters = a counterexample, which
  the caller replays on the unmodified real functions.
* f-strings and ``str(x)`` calls cannot be intercepted at the C level, so *repository* functions
  are loaded through ``load(fn)``: ``inspect.getsource`` → AST → ``JoinedStr`` desugared to
  ``format(a) + "lit" + …`` and ``str(x)`` → ``sx_str(x)`` (identity on SymStr; the message of an
  exception whose single argument is a SymStr) → compiled in a copy of the function's own
  globals.  Nothing else of the source is touched; the evidence hashes the live source.

* Concrete strings that meet symbolic ones are wrapped in ``CharSet`` (a ``str`` subclass that is
  plain ``str`` for real-string arguments and runs the char-array operation when an argument is
  symbolic): module-level ``str`` constants of loaded functions, every all-concrete result of a
  symbolic operation, desugared f-string results.  A plain ``str`` that slips through still
  fails loudly.
* A ``TypeError`` raised by CPython because a C-level operation was handed a symbolic string is
  recorded through ``sys.monitoring`` (RAISE events) even if the code under analysis catches it
  (``redact_url`` has ``except (TypeError, ValueError)``): such a path is Unsupported, never a result.
* Exhaustiveness: ``Explorer.run`` returns only when the work list is empty (every feasible side
  of every decision was executed), or sets ``timed_out``; ``unknown`` from z3, an unmodelled
  operation or a branch condition that differs on re-execution raise ``Unsupported``.  Callers
  must report INCONCLUSIVE in all these cases.
* Shortcuts that avoid solver calls (declared alphabets of ``sym(only=...)`` variables decide
  ``var == char`` for characters outside the alphabet) restate constraints that are asserted on
  the path anyway.

Soundness notes (also in each harness' ASSUMPTIONS): ASCII only; ``repr`` of a symbolic string is
a placeholder (only reached inside stdlib error messages nobody inspects); statement order and
semantics of every modelled ``str`` method follow CPython for ASCII input and are cross-checked
each run against real ``str`` on random concrete vectors (``selfcheck()``).
"""

from __future__ import annotations

import ast
import inspect
import random
import textwrap
import time
from typing import Any, Callable, Iterable

import z3

__all__ = ["SymStr", "Explorer", "Unsupported", "load", "sym", "branch", "lit", "concretize", "selfcheck"]


class Unsupported(BaseException):
    """The code under analysis did something the string model does not cover (=> INCONCLUSIVE)."""


# ---------------------------------------------------------------------------
# path context
# ---------------------------------------------------------------------------


class _Path:
    __slots__ = ("solver", "prefix", "pos", "decisions", "explorer", "nvars", "vars", "checks")

    def __init__(self, explorer: "Explorer", prefix: list) -> None:
        self.solver = z3.Solver()
        self.prefix = prefix
        self.pos = 0
        self.decisions: list = []
        self.explorer = explorer
        self.nvars = 0
        self.vars: list[z3.ArithRef] = []
        self.checks = 0

    def feasible(self, c: z3.BoolRef) -> bool:
        self.checks += 1
        t0 = time.monotonic()
        r = self.solver.check(c)
        self.explorer.solver_s += time.monotonic() - t0
        if r == z3.unknown:
            raise Unsupported("z3 returned unknown")
        return r == z3.sat


_CUR: _Path | None = None
_LEAKS: list[str] = []
_MONITOR_ON = False


def _install_leak_monitor() -> None:
    """Record every TypeError CPython raises because a C-level operation was handed a SymStr —
    even when the code under analysis catches it (``except (TypeError, ValueError)``), so that
    a swallowed refusal can never be mistaken for the program's behaviour."""
    global _MONITOR_ON
    if _MONITOR_ON:
        return
    import sys

    mon = getattr(sys, "monitoring", None)
    if mon is None:  # pragma: no cover - Python < 3.12
        raise Unsupported("sys.monitoring unavailable: swallowed C-level refusals could go unnoticed")
    tool = None
    for tid in (4, 3, 5):
        try:
            mon.use_tool_id(tid, "sx")
            tool = tid
            break
        except ValueError:
            continue
    if tool is None:
        raise Unsupported("no free sys.monitoring tool id")

    def on_raise(code: Any, offset: int, exc: BaseException) -> None:
        if isinstance(exc, TypeError) and "SymStr" in str(exc):
            _LEAKS.append(str(exc))

    mon.register_callback(tool, mon.events.RAISE, on_raise)
    mon.set_events(tool, mon.events.RAISE)
    _MONITOR_ON = True


def _path() -> _Path:
    if _CUR is None:
        raise Unsupported("symbolic value used outside Explorer.run")
    return _CUR


def branch(cond: Any) -> bool:
    """Decide a symbolic condition on the current path (forking when both sides are feasible)."""
    if isinstance(cond, bool):
        return cond
    if isinstance(cond, SymBool):
        cond = cond.term
    raw = cond
    cond = z3.simplify(cond)
    if z3.is_true(cond):
        return True
    if z3.is_false(cond):
        return False
    p = _path()
    # identity of the branch point for the replay check: the term as built by the model (the
    # simplifier orders arguments by AST id, which is not stable between executions)
    h = raw.hash()
    if p.pos < len(p.prefix):
        d, h0 = p.prefix[p.pos]
        if h0 != h:
            raise Unsupported("non-deterministic re-execution (branch condition differs on replay)")
    else:
        can_t = p.feasible(cond)
        can_f = p.feasible(z3.Not(cond))
        if can_t and can_f:
            p.explorer._push(p.decisions + [(False, h)])
            d = True
        elif can_t:
            d = True
        elif can_f:
            d = False
        else:  # pragma: no cover - path condition itself unsat
            raise Unsupported("infeasible path condition")
    p.pos += 1
    p.decisions.append((d, h))
    p.solver.add(cond if d else z3.Not(cond))
    return d


class SymBool:
    """Result of comparing symbolic strings; deciding it (``if``, ``and``, ``not``) branches."""

    __slots__ = ("term",)

    def __init__(self, term: z3.BoolRef) -> None:
        self.term = term

    def __bool__(self) -> bool:
        return branch(self.term)

    def __hash__(self) -> int:  # pragma: no cover
        raise Unsupported("hash of a symbolic bool")


# ---------------------------------------------------------------------------
# symbolic strings
# ---------------------------------------------------------------------------

_WS = "\t\n\x0b\x0c\r\x1c\x1d\x1e\x1f "  # str.isspace() / default strip set within ASCII


def _is_sym(e: Any) -> bool:
    return not isinstance(e, str)


def _elems(s: Any) -> tuple:
    if type(s) is SymStr:
        return s._e
    if isinstance(s, str):
        return tuple(s)
    raise Unsupported(f"string operation with a {type(s).__name__} operand")


def _mk(elems: Iterable) -> Any:
    t = tuple(elems)
    for e in t:
        if _is_sym(e):
            return SymStr(t)
    return CharSet("".join(t))


def _code(e: Any) -> Any:
    return ord(e) if isinstance(e, str) else e


_DOM: dict[int, tuple[Any, frozenset]] = {}  # z3 ast id of a variable -> (variable, declared alphabet)


def _dom(e: Any) -> Any:
    d = _DOM.get(e.get_id())
    return d[1] if d is not None and d[0] is e else None


def _eq1(a: Any, b: Any) -> Any:
    """Equality of two elements: Python bool or z3 Bool.

    A variable declared over an explicit alphabet (``sym(only=...)``) cannot equal a character
    outside it (nor a variable over a disjoint alphabet): answered without the solver (the same
    constraint is asserted on the path, this is only a shortcut).
    """
    sa, sb = isinstance(a, str), isinstance(b, str)
    if sa and sb:
        return a == b
    if sa or sb:
        v, c = (b, a) if sa else (a, b)
        d = _dom(v)
        if d is not None and ord(c) not in d:
            return False
        return v == ord(c)
    da, db = _dom(a), _dom(b)
    if da is not None and db is not None and not (da & db):
        return False
    return a == b


def _and(terms: list) -> Any:
    out = []
    for t in terms:
        if t is False:
            return False
        if t is True:
            continue
        out.append(t)
    if not out:
        return True
    return out[0] if len(out) == 1 else z3.And(*out)


def _or(terms: list) -> Any:
    out = []
    for t in terms:
        if t is True:
            return True
        if t is False:
            continue
        out.append(t)
    if not out:
        return False
    return out[0] if len(out) == 1 else z3.Or(*out)


def _match_at(hay: tuple, i: int, needle: tuple) -> Any:
    return _and([_eq1(hay[i + k], needle[k]) for k in range(len(needle))])


_RANGES: dict[str, list[tuple[int, int]]] = {}
_SETCACHE: dict[tuple[int, str], Any] = {}


def _ranges(chars: str) -> list[tuple[int, int]]:
    r = _RANGES.get(chars)
    if r is None:
        r = []
        for o in sorted({ord(c) for c in chars}):
            if r and r[-1][1] == o - 1:
                r[-1] = (r[-1][0], o)
            else:
                r.append((o, o))
        _RANGES[chars] = r
    return r


def _in_set(e: Any, chars: str) -> Any:
    if isinstance(e, str):
        return e in chars
    d = _dom(e) if z3.is_const(e) else None
    if d is not None and not (d & {ord(c) for c in chars}):
        return False
    key = (id(e), str(chars))
    hit = _SETCACHE.get(key)
    if hit is not None and hit[0] is e:
        return hit[1]
    t = _or([(e == lo) if lo == hi else z3.And(e >= lo, e <= hi) for lo, hi in _ranges(str(chars))])
    if len(_SETCACHE) > 20000:
        _SETCACHE.clear()
    _SETCACHE[key] = (e, t)
    return t


def _range(e: Any, lo: str, hi: str) -> Any:
    if isinstance(e, str):
        return lo <= e <= hi
    return z3.And(e >= ord(lo), e <= ord(hi))


class SymStr:
    """Immutable char-array string with symbolic code points."""

    __slots__ = ("_e",)

    def __init__(self, elems: tuple) -> None:
        self._e = elems

    # -- make isinstance(x, str) true without being a str subclass -------------
    @property  # type: ignore[misc]
    def __class__(self):  # noqa: D105
        return str

    # -- basics -----------------------------------------------------------------
    def __len__(self) -> int:
        return len(self._e)

    def __bool__(self) -> bool:
        return len(self._e) > 0

    def __iter__(self):
        for e in self._e:
            yield e if isinstance(e, str) else SymStr((e,))

    def __hash__(self) -> int:
        raise Unsupported("hash of a symbolic string (dict/set/frozenset key)")

    def __repr__(self) -> str:
        return "<symbolic str>"

    def __str__(self) -> str:
        raise Unsupported("str()/format() of a symbolic string at the C level")

    def __format__(self, spec: str) -> str:
        raise Unsupported("format() of a symbolic string at the C level (f-string not desugared)")

    def __getitem__(self, k: Any) -> Any:
        if isinstance(k, slice):
            return _mk(self._e[k])
        e = self._e[k]
        return e if isinstance(e, str) else SymStr((e,))

    def __add__(self, other: Any) -> Any:
        if type(other) is not SymStr and not isinstance(other, str):
            return NotImplemented
        return _mk(self._e + _elems(other))

    def __radd__(self, other: Any) -> Any:
        if type(other) is SymStr or not isinstance(other, str):
            return NotImplemented
        return _mk(tuple(other) + self._e)

    def __mul__(self, n: int) -> Any:
        return _mk(self._e * n)

    def __eq__(self, other: Any) -> Any:  # type: ignore[override]
        if type(other) is not SymStr and not isinstance(other, str):
            return False
        o = _elems(other)
        if len(o) != len(self._e):
            return False
        t = _match_at(self._e, 0, o)
        return t if isinstance(t, bool) else SymBool(t)

    def __ne__(self, other: Any) -> Any:  # type: ignore[override]
        r = self.__eq__(other)
        if isinstance(r, bool):
            return not r
        return SymBool(z3.Not(r.term))

    def __lt__(self, other: Any) -> Any:
        raise Unsupported("ordering of symbolic strings")

    __le__ = __gt__ = __ge__ = __lt__

    def __contains__(self, sub: Any) -> bool:
        n = _elems(sub)
        if not n:
            return True
        h = self._e
        return branch(_or([_match_at(h, i, n) for i in range(0, len(h) - len(n) + 1)]))

    # -- searching --------------------------------------------------------------
    def _norm(self, start: Any, end: Any) -> tuple[int, int]:
        ln = len(self._e)
        s, e, _ = slice(start, end).indices(ln)
        return s, e

    def find(self, sub: Any, start: Any = None, end: Any = None) -> int:
        n = _elems(sub)
        s, e = self._norm(start, end)
        for i in range(s, e - len(n) + 1):
            if branch(_match_at(self._e, i, n)):
                return i
        return -1

    def rfind(self, sub: Any, start: Any = None, end: Any = None) -> int:
        n = _elems(sub)
        s, e = self._norm(start, end)
        for i in range(e - len(n), s - 1, -1):
            if branch(_match_at(self._e, i, n)):
                return i
        return -1

    def index(self, sub: Any, start: Any = None, end: Any = None) -> int:
        i = self.find(sub, start, end)
        if i < 0:
            raise ValueError("substring not found")
        return i

    def count(self, sub: Any) -> int:
        n = _elems(sub)
        if not n:
            raise Unsupported("count of the empty string")
        i = c = 0
        while i <= len(self._e) - len(n):
            if branch(_match_at(self._e, i, n)):
                c += 1
                i += len(n)
            else:
                i += 1
        return c

    def startswith(self, prefix: Any, start: Any = None, end: Any = None) -> bool:
        if isinstance(prefix, tuple):
            for p in prefix:
                if self.startswith(p, start, end):
                    return True
            return False
        n = _elems(prefix)
        s, e = self._norm(start, end)
        if e - s < len(n):
            return False
        return branch(_match_at(self._e, s, n))

    def endswith(self, suffix: Any, start: Any = None, end: Any = None) -> bool:
        if isinstance(suffix, tuple):
            for p in suffix:
                if self.endswith(p, start, end):
                    return True
            return False
        n = _elems(suffix)
        s, e = self._norm(start, end)
        if e - s < len(n):
            return False
        return branch(_match_at(self._e, e - len(n), n))

    # -- rewriting --------------------------------------------------------------
    def replace(self, old: Any, new: Any, count: int = -1) -> Any:
        o, nw = _elems(old), _elems(new)
        if not o:
            raise Unsupported("replace of the empty string")
        out: list = []
        i = 0
        h = self._e
        while i < len(h):
            if count != 0 and i <= len(h) - len(o) and branch(_match_at(h, i, o)):
                out.extend(nw)
                i += len(o)
                if count > 0:
                    count -= 1
            else:
                out.append(h[i])
                i += 1
        return _mk(out)

    def _strip(self, chars: Any, left: bool, right: bool) -> Any:
        if chars is None:
            chars = _WS
        if type(chars) is SymStr or not isinstance(chars, str):
            raise Unsupported("strip() with a symbolic character set")
        h = self._e
        a, b = 0, len(h)
        if left:
            while a < b and branch(_in_set(h[a], chars)):
                a += 1
        if right:
            while b > a and branch(_in_set(h[b - 1], chars)):
                b -= 1
        return _mk(h[a:b])

    def lstrip(self, chars: Any = None) -> Any:
        return self._strip(chars, True, False)

    def rstrip(self, chars: Any = None) -> Any:
        return self._strip(chars, False, True)

    def strip(self, chars: Any = None) -> Any:
        return self._strip(chars, True, True)

    def lower(self) -> Any:
        return _mk(e.lower() if isinstance(e, str) else z3.If(z3.And(e >= 65, e <= 90), e + 32, e) for e in self._e)

    def upper(self) -> Any:
        return _mk(e.upper() if isinstance(e, str) else z3.If(z3.And(e >= 97, e <= 122), e - 32, e) for e in self._e)

    def partition(self, sep: Any) -> tuple:
        n = _elems(sep)
        if not n:
            raise ValueError("empty separator")
        i = self.find(sep)
        if i < 0:
            return (self, "", "")
        return (_mk(self._e[:i]), sep, _mk(self._e[i + len(n):]))

    def rpartition(self, sep: Any) -> tuple:
        n = _elems(sep)
        if not n:
            raise ValueError("empty separator")
        i = self.rfind(sep)
        if i < 0:
            return ("", "", self)
        return (_mk(self._e[:i]), sep, _mk(self._e[i + len(n):]))

    def split(self, sep: Any = None, maxsplit: int = -1) -> list:
        if sep is None:
            raise Unsupported("split() on whitespace")
        n = _elems(sep)
        if not n:
            raise ValueError("empty separator")
        out: list = []
        h = self._e
        i = start = 0
        while i <= len(h) - len(n) and maxsplit != 0:
            if branch(_match_at(h, i, n)):
                out.append(_mk(h[start:i]))
                i += len(n)
                start = i
                if maxsplit > 0:
                    maxsplit -= 1
            else:
                i += 1
        out.append(_mk(h[start:]))
        return out

    def rsplit(self, sep: Any = None, maxsplit: int = -1) -> list:
        if maxsplit < 0:
            return self.split(sep, -1)
        if sep is None:
            raise Unsupported("rsplit() on whitespace")
        n = _elems(sep)
        out: list = []
        h = self._e
        end = len(h)
        i = len(h) - len(n)
        while i >= 0 and maxsplit != 0:
            if branch(_match_at(h, i, n)):
                out.append(_mk(h[i + len(n):end]))
                end = i
                i -= len(n)
                maxsplit -= 1
            else:
                i -= 1
        out.append(_mk(h[:end]))
        out.reverse()
        return out

    # -- predicates (ASCII semantics; all symbolic code points are < 128) --------
    def _all(self, pred: Callable[[Any], Any]) -> bool:
        if not self._e:
            return False
        return branch(_and([pred(e) for e in self._e]))

    def isascii(self) -> bool:
        return branch(_and([(ord(e) < 128) if isinstance(e, str) else (e < 128) for e in self._e]))

    def isdigit(self) -> bool:
        return self._all(lambda e: _range(e, "0", "9"))

    isdecimal = isnumeric = isdigit

    def isalpha(self) -> bool:
        return self._all(lambda e: _or([_range(e, "a", "z"), _range(e, "A", "Z")]))

    def isalnum(self) -> bool:
        return self._all(lambda e: _or([_range(e, "a", "z"), _range(e, "A", "Z"), _range(e, "0", "9")]))

    def isspace(self) -> bool:
        return self._all(lambda e: _in_set(e, _WS))

    def __int__(self) -> int:
        # int("12") semantics for plain ASCII digit strings (no sign/underscore/space support)
        if not self.isdigit():
            raise Unsupported("int() of a symbolic string that is not all digits")
        v = 0
        for e in self._e:
            v = v * 10 + (int(e) if isinstance(e, str) else concretize(e, 48, 57) - 48)
        return v

    def encode(self, *a: Any, **k: Any) -> bytes:
        raise Unsupported("encode() of a symbolic string")

    def __getattr__(self, name: str) -> Any:
        raise Unsupported(f"str.{name} is not modelled for symbolic strings")


class CharSet(str):
    """A concrete string that can take symbolic arguments.

    CPython's own ``str`` methods refuse a non-str argument (``"abc".replace(sym, "")``,
    ``sym in "abc"``), loudly.  Module-level ``str`` constants of loaded functions and every
    all-concrete result of a symbolic operation are wrapped in this subclass: with real-string
    arguments it *is* ``str`` (the C implementation runs); with a symbolic argument the same
    operation of the char-array model runs on the concrete characters.
    """

    __slots__ = ()

    def __contains__(self, sub: Any) -> bool:  # type: ignore[override]
        if type(sub) is not SymStr:
            return str.__contains__(self, sub)
        n = sub._e
        if len(n) == 1:
            return branch(_in_set(n[0], str(self)))
        h = tuple(self)
        return branch(_or([_match_at(h, i, n) for i in range(0, len(h) - len(n) + 1)]))


def _has_sym(args: tuple) -> bool:
    for a in args:
        if type(a) is SymStr:
            return True
        if type(a) is tuple and _has_sym(a):
            return True
    return False


def _delegating(name: str) -> Any:
    native = getattr(str, name)

    def method(self: Any, *args: Any) -> Any:
        if _has_sym(args):
            return getattr(SymStr(tuple(self)), name)(*args)
        return native(self, *args)

    method.__name__ = name
    return method


for _n in ("replace", "find", "rfind", "index", "count", "startswith", "endswith", "partition", "rpartition", "split", "rsplit"):
    setattr(CharSet, _n, _delegating(_n))


def concretize(e: Any, lo: int = 0, hi: int = 127) -> int:
    """Fork over the values lo..hi of a symbolic code point (fixed order => deterministic replay)."""
    if isinstance(e, int):
        return e
    for v in range(lo, hi + 1):
        if branch(e == v):
            return v
    raise Unsupported("concretize: no value in range")


def evaluate(x: Any) -> Any:
    """Concrete value of a (nested) symbolic result under one model of the current path."""
    p = _path()
    if p.solver.check() != z3.sat:
        raise Unsupported("evaluate on an infeasible path")
    m = p.solver.model()

    def ev(y: Any) -> Any:
        if type(y) is SymStr:
            return "".join(e if isinstance(e, str) else chr(m.eval(e, model_completion=True).as_long()) for e in y._e)
        if type(y) is SymBool:
            return bool(z3.is_true(m.eval(y.term, model_completion=True)))
        if isinstance(y, (tuple, list)):
            return type(y)(ev(z) for z in y)
        return y

    return ev(x)


_HEX = "0123456789abcdefABCDEF"


def _hexval(e: Any) -> Any:
    if isinstance(e, str):
        return int(e, 16)
    return z3.If(e <= 57, e - 48, z3.If(e <= 70, e - 55, e - 87))


def sx_unquote(string: Any, encoding: str = "utf-8", errors: str = "replace") -> Any:
    """``urllib.parse.unquote`` for char-array strings (the real one goes through ``re``).

    Real strings take the real function.  Otherwise every '%' (concrete, or a symbolic character
    decided to be '%') followed by two hex digits is decoded: runs of escapes whose digits are
    concrete are decoded by CPython (``bytes.decode(encoding, errors)``, so multi-byte UTF-8 is
    exact); an escape with a symbolic digit becomes the code point 16*h1+h2 when that is ASCII, and is
    concretised (fork over 128..255) when it is a byte of a multi-byte sequence.  Anything else is copied, as ``unquote`` does.
    """
    import urllib.parse as _up

    if type(string) is not SymStr:
        return _up.unquote(string, encoding, errors)
    h = string._e
    out: list = []
    run = bytearray()

    def flush() -> None:
        if run:
            out.extend(bytes(run).decode(encoding, errors))
            run.clear()

    i = 0
    while i < len(h):
        e = h[i]
        is_pct = (e == "%") if isinstance(e, str) else branch(e == 37)
        if is_pct and i + 2 < len(h):
            c1, c2 = h[i + 1], h[i + 2]
            if branch(_and([_in_set(c1, _HEX), _in_set(c2, _HEX)])):
                if isinstance(c1, str) and isinstance(c2, str):
                    run.append(int(c1 + c2, 16))
                else:
                    v = 16 * _hexval(c1) + _hexval(c2)
                    if branch(v < 128):
                        flush()
                        out.append(v)
                    else:
                        run.append(concretize(v, 128, 255))  # part of a multi-byte sequence: fork over its value
                i += 3
                continue
        flush()
        out.append("%" if is_pct else e)
        i += 1
    flush()
    return _mk(out)


def choice(name: str, options: list) -> Any:
    """One of the concrete ``options``, chosen by a symbolic index (forks; the model names it)."""
    p = _path()
    k = p.explorer._var(name)
    if not any(v is k for v in p.vars):
        p.vars.append(k)
        p.solver.add(k >= 0, k < len(options))
    for i in range(len(options) - 1):
        if branch(k == i):
            return options[i]
    return options[-1]


def contains_any(text: Any, chars: str) -> bool:
    """Does ``text`` contain any character of ``chars``?  (one decision instead of len(chars))"""
    if type(text) is SymStr:
        return branch(_or([_in_set(e, chars) for e in text._e]))
    return any(c in text for c in chars)


def sym(name: str, n: int, *, exclude: str = "", only: str | None = None) -> Any:
    """A fresh symbolic string of exactly ``n`` ASCII characters."""
    p = _path()
    out = []
    for k in range(n):
        v = p.explorer._var(f"{name}_{k}")
        p.vars.append(v)
        if only is not None:
            p.solver.add(z3.Or(*[v == ord(c) for c in only]))
            _DOM[v.get_id()] = (v, frozenset(ord(c) for c in only))
        else:
            p.solver.add(v >= 0, v < 128)
            for c in exclude:
                p.solver.add(v != ord(c))
        out.append(v)
    return _mk(out)


def lit(s: Any) -> Any:
    return s


# ---------------------------------------------------------------------------
# exploration
# ---------------------------------------------------------------------------


class Explorer:
    """Depth-first exploration of ``body()`` by re-execution.

    ``body()`` builds its symbolic inputs with ``sym(...)`` and returns ``(ok, info)`` where ``ok``
    may be a bool/SymBool (it is decided here, so a feasible ``not ok`` becomes a counterexample)
    and ``info`` is any object describing the path (kept for samples).
    """

    def __init__(self, budget_s: float) -> None:
        self.deadline = time.process_time() + budget_s
        self.pending: list[list] = []
        self.paths = 0
        self.checks = 0
        self.solver_s = 0.0
        self.cex: list[dict] = []
        self.unsupported: list[str] = []
        self.samples: list[dict] = []
        self.timed_out = False
        self._vars: dict[str, Any] = {}

    def _push(self, prefix: list) -> None:
        self.pending.append(prefix)

    def _var(self, name: str) -> Any:
        v = self._vars.get(name)
        if v is None:
            v = self._vars[name] = z3.Int(name)
        return v

    def run(self, body: Callable[[], Any], *, max_cex: int = 1, label: str = "") -> None:
        global _CUR
        _install_leak_monitor()
        self.pending.append([])
        while self.pending:
            if time.process_time() > self.deadline:
                self.timed_out = True
                return
            prefix = self.pending.pop()
            p = _Path(self, prefix)
            _CUR = p
            try:
                del _LEAKS[:]
                try:
                    ok, info = body()
                    good = branch(ok) if not isinstance(ok, bool) else ok
                    if _LEAKS:
                        raise Unsupported("a C-level operation refused a symbolic string (possibly swallowed): " + _LEAKS[0])
                except Unsupported as u:
                    self.unsupported.append(f"{label}: {u}")
                    continue
                except TypeError as te:
                    if "SymStr" in str(te):
                        self.unsupported.append(f"{label}: C-level operation refused a symbolic string: {te}")
                        continue
                    raise
                finally:
                    self.paths += 1
                    self.checks += p.checks
                if not good:
                    self.cex.append({"label": label, "model": self._model(p), "info": info})
                    if len(self.cex) >= max_cex:
                        self.pending.clear()
                        return
                elif len(self.samples) < 3 and self.paths % 7 == 1:
                    self.samples.append({"label": label, "path_model": self._model(p), "info": info})
            finally:
                _CUR = None

    @staticmethod
    def _model(p: _Path) -> dict:
        # prefer printable witnesses when the path allows it
        s = p.solver
        pref = [z3.And(v >= 33, v <= 126) for v in p.vars]
        r = s.check(*pref) if pref else s.check()
        if r != z3.sat:
            r = s.check()
        if r != z3.sat:
            return {}
        m = s.model()
        return {str(v): m.eval(v, model_completion=True).as_long() for v in p.vars}


def model_str(model: dict, name: str, n: int) -> str:
    return "".join(chr(model.get(f"{name}_{k}", 97)) for k in range(n))


# ---------------------------------------------------------------------------
# loading repository functions (f-string / str() desugaring from the live AST)
# ---------------------------------------------------------------------------


def sx_str(x: Any = "") -> Any:
    if type(x) is SymStr:
        return x
    if isinstance(x, BaseException) and type(x).__str__ is BaseException.__str__ and len(x.args) == 1 and type(x.args[0]) is SymStr:
        return x.args[0]
    return CharSet(str(x))


def sx_fmt(value: Any, conv: int, spec: Any) -> Any:
    if type(value) is SymStr:
        if spec not in ("", None):
            raise Unsupported("format spec on a symbolic string")
        if conv == -1 or conv == ord("s"):
            return value
        if conv == ord("r"):
            return "'" + value + "'"  # MODEL of repr(str): quotes, no escaping
        raise Unsupported("!a conversion of a symbolic string")
    if conv == ord("r"):
        value = repr(value)
    elif conv == ord("s"):
        value = sx_str(value)
    elif conv == ord("a"):
        value = ascii(value)
    if type(value) is SymStr:
        return value
    return format(value, spec or "")


def sx_join(*parts: Any) -> Any:
    out: Any = ""
    for p in parts:
        out = out + p
    return out if type(out) is SymStr else CharSet(out)


class _Rewrite(ast.NodeTransformer):
    changed = False

    def visit_JoinedStr(self, node: ast.JoinedStr) -> ast.AST:
        self.generic_visit(node)
        parts: list[ast.expr] = []
        self.changed = True
        for v in node.values:
            if isinstance(v, ast.Constant):
                parts.append(v)
            elif isinstance(v, ast.FormattedValue):
                spec = v.format_spec if v.format_spec is not None else ast.Constant(value="")
                parts.append(
                    ast.Call(func=ast.Name(id="__sx_fmt", ctx=ast.Load()), args=[v.value, ast.Constant(value=v.conversion), spec], keywords=[])
                )
            else:  # pragma: no cover
                parts.append(v)
        return ast.copy_location(ast.Call(func=ast.Name(id="__sx_join", ctx=ast.Load()), args=parts, keywords=[]), node)

    def visit_Call(self, node: ast.Call) -> ast.AST:
        self.generic_visit(node)
        if isinstance(node.func, ast.Name) and node.func.id == "str" and len(node.args) <= 1 and not node.keywords:
            node.func = ast.Name(id="__sx_str", ctx=ast.Load())
            self.changed = True
        return node


import urllib.parse as _urllib_parse  # noqa: E402

_URLLIB_UNQUOTE = _urllib_parse.unquote


def _code_names(code: Any) -> set[str]:
    out = set(code.co_names)
    for c in code.co_consts:
        if hasattr(c, "co_names"):
            out |= _code_names(c)
    return out


def load(fn: Callable[..., Any], **replacements: Any) -> Callable[..., Any]:
    """``fn`` made runnable on symbolic strings, without touching its logic.

    * the function's own bytecode is kept when it contains no f-string / ``str()`` call;
      otherwise its live source is recompiled with ``JoinedStr`` desugared to concatenation and
      ``str(x)`` -> ``sx_str(x)`` (see module docstring);
    * module-level ``str`` constants it references become ``CharSet`` (same value, same
      behaviour for real strings, additionally answers ``symbolic in constant``);
    * plain functions of the same module it references are loaded the same way (recursively),
      so helper functions introduced by a refactor are covered too;
    * ``replacements`` substitute module-level names (like ``engine.reglob.reglobalize``); a
      replacement nobody references is a harness error.
    """
    used: set[str] = set()
    out = _load(inspect.unwrap(fn), replacements, {}, used)
    unused = [k for k in replacements if k not in used]
    if unused:
        raise LookupError(f"{getattr(fn, '__qualname__', fn)} does not reference {unused}; harness out of date")
    return out


def _load(raw: Any, replacements: dict, memo: dict, used: set) -> Callable[..., Any]:
    import __future__
    import types

    if raw in memo:
        return memo[raw]
    src = textwrap.dedent(inspect.getsource(raw))
    tree = ast.parse(src)
    fdef = tree.body[0]
    if not isinstance(fdef, (ast.FunctionDef,)):
        raise Unsupported(f"cannot load {raw!r}")
    fdef.decorator_list = []
    rw = _Rewrite()
    tree = ast.fix_missing_locations(rw.visit(tree))
    g = dict(raw.__globals__)
    if not rw.changed:
        # nothing to desugar: the very same bytecode, only module-level names replaced
        new = types.FunctionType(raw.__code__, g, raw.__name__, raw.__defaults__, raw.__closure__)
        new.__kwdefaults__ = raw.__kwdefaults__
    else:
        code = compile(tree, inspect.getsourcefile(raw) or "<sx>", "exec", flags=__future__.annotations.compiler_flag, dont_inherit=True)
        g.update(__sx_fmt=sx_fmt, __sx_join=sx_join, __sx_str=sx_str)
        exec(code, g)  # noqa: S102 - the repository's own source
        new = g[raw.__name__]
    new.__wrapped_original__ = raw  # type: ignore[attr-defined]
    new.__sx_rewritten__ = rw.changed  # type: ignore[attr-defined]
    memo[raw] = new
    g[raw.__name__] = new  # recursion / self reference
    for name in sorted(_code_names(raw.__code__)):
        if name in replacements:
            g[name] = replacements[name]
            used.add(name)
            continue
        v = raw.__globals__.get(name)
        if v is _URLLIB_UNQUOTE:
            g[name] = sx_unquote  # the real one goes through `re`; same function for real strings
        elif type(v) is str:
            g[name] = CharSet(v)
        elif isinstance(v, types.FunctionType) and v.__module__ == raw.__module__ and v is not raw:
            g[name] = _load(v, replacements, memo, used)
    return new


# ---------------------------------------------------------------------------
# model validation: SymStr methods vs real str on random concrete vectors
# ---------------------------------------------------------------------------


def selfcheck(n: int = 300, seed: int = 0) -> list[str]:
    """Run each modelled method on fully symbolic-but-pinned strings and compare with ``str``.

    Each vector makes every character a z3 variable pinned to one value by a constraint, so the
    whole branch machinery is exercised; exactly one path must be feasible and it must agree
    with CPython.
    """
    rnd = random.Random(seed)
    alphabet = "ab/:@?#\\ \t\n.A%0[9]Zz2Ff%"
    errors: list[str] = []

    def pinned(name: str, s: str) -> Any:
        v = sym(name, len(s))
        if s:
            p = _path()
            for e, c in zip(v._e, s):
                p.solver.add(e == ord(c))
        return v

    ops: list[tuple[str, Callable[[Any, Any], Any]]] = [
        ("find", lambda s, t: s.find(t)),
        ("rfind", lambda s, t: s.rfind(t)),
        ("in", lambda s, t: t in s),
        ("eq", lambda s, t: bool(s == t)),
        ("startswith", lambda s, t: s.startswith(t)),
        ("endswith", lambda s, t: s.endswith(t)),
        ("replace", lambda s, t: s.replace(t, "<>") if len(t) else 0),
        ("replace_del", lambda s, t: s.replace(t, "") if len(t) else 0),
        ("partition", lambda s, t: s.partition(t) if len(t) else 0),
        ("rpartition", lambda s, t: s.rpartition(t) if len(t) else 0),
        ("split1", lambda s, t: s.split(t, 1) if len(t) else 0),
        ("split", lambda s, t: s.split(t) if len(t) else 0),
        ("rsplit1", lambda s, t: s.rsplit(t, 1) if len(t) else 0),
        ("lstrip", lambda s, t: s.lstrip(" \t/")),
        ("strip", lambda s, t: s.strip()),
        ("rstrip", lambda s, t: s.rstrip("z9]")),
        ("lower", lambda s, t: s.lower() + "|" + s.upper()),
        ("isdigit", lambda s, t: (s.isdigit(), s.isalpha(), s.isascii(), s.isalnum(), s.isspace())),
        ("slice", lambda s, t: (s[:2], s[1:], s[-1:] if len(s) else "", s[:1] + t)),
        ("count", lambda s, t: s.count(t) if len(t) else 0),
        ("unquote", lambda s, t: sx_unquote(s + "%" + s + t + "%4") if type(s) is SymStr else _urllib_parse.unquote(s + "%" + s + t + "%4")),
    ]
    for k in range(n):
        a = "".join(rnd.choice(alphabet) for _ in range(rnd.randint(0, 6)))
        b = "".join(rnd.choice(alphabet) for _ in range(rnd.randint(0, 2)))
        if rnd.random() < 0.3 and a:
            i = rnd.randrange(len(a))
            b = a[i : i + rnd.randint(1, 2)]
        name, op = ops[k % len(ops)]
        want = op(a, b)
        got: list = []

        def body() -> tuple:
            sa = pinned("a", a) if a else ""
            sb = pinned("b", b) if (b and k % 2) else b
            r = op(sa, sb) if a else op(a, b)
            got.append(evaluate(r))
            return True, None

        ex = Explorer(30)
        ex.run(body)
        if ex.unsupported:
            errors.append(f"{name}({a!r},{b!r}): {ex.unsupported[0]}")
            continue
        if ex.paths != 1 or len(got) != 1:
            errors.append(f"{name}({a!r},{b!r}): {ex.paths} paths for a pinned input")
            continue
        if got[0] != want:
            errors.append(f"{name}({a!r},{b!r}): model {got[0]!r} != str {want!r}")
    # lower()/upper() through the solver
    for c in "aZ@[`{09":
        res: list = []

        def body2() -> tuple:
            s = pinned("a", c)
            res.append((bool(s.lower() == c.lower()), bool(s.upper() == c.upper())))
            return True, None

        ex = Explorer(10)
        ex.run(body2)
        if res != [(True, True)]:
            errors.append(f"lower/upper({c!r}) disagrees: {res}")
    return errors
