"""C17 — request size caps and content decoding are enforced.

Encoded (real bytecode): ``_MaxRequestBytesMiddleware.process_request`` and
``_CompressionMiddleware.process_request`` — the two *instances that make_wsgi_app builds*, run in
the order the factory registers them, with every attribute the factory set to the configured
``max_request_bytes`` re-pointed at a symbolic cap — followed by ``_get_request_stream`` (what the
RPC layer reads).  The request is a duck-typed fake: symbolic ``content_length`` (int / None), a
wire body of symbolic length and content behind a recording ``bounded_stream.read(n)`` (Falcon's
contract: at most Content-Length bytes; without Content-Length either nothing — Falcon 4 — or the
de-chunked body), symbolic ``Content-Encoding``.  ``decompress`` is a contract stub whose contract is
exactly what C18 decides (plaintext iff within the cap, else DecompressionLimitExceeded, any other
exception when undecodable); ``pa.BufferReader`` is a box (pyarrow would realise the bytes).

Decided: 413 <=> wire size > cap or decoded size > cap; never more than the cap plus a bounded chunk
pulled from the stream (no read that asks for everything / for more than cap + 64 KiB delivers more than
cap+1 bytes); 415 <=> coding names no enabled codec; 400 <=> decoder fails with a non-limit error;
otherwise the RPC layer gets exactly the decoded bytes (or the wire bytes when no coding is named).

Further items (each a genuine defect of the pinned tree, kept as stated, with a real-app replay):
* ``Content-Encoding: identity`` (the no-op coding) must pass through like an unencoded body;
* paths the factory exempts from the wire cap must still not have more than the cap plus a bounded chunk of
  body read, with and without Content-Length, with and without a de-chunking WSGI stack;
* ``_DrainRequestMiddleware.process_response`` (runs after every request, also after a 413) must
  not turn the refused body into one bytes object;
* truncated gzip members / zstd frames are decided on the real ``_decompress_body_gzip`` /
  ``_decompress_body_zstd`` over the C18 codec stubs (a truncated frame delivers a prefix and never
  reports its end): they must raise (-> 400), not return the prefix.
"""

from __future__ import annotations

import zlib as _real_zlib
from typing import Protocol

import falcon
import falcon.testing
import zstandard as _real_zstd

from engine.api import HarnessModelError, cond, pick
from engine.reglob import reglobalize

from harness import C18 as c18

from vgi_rpc import _codec as cod
from vgi_rpc.http.server import _factory as fac
from vgi_rpc.http.server import _middleware as mwm
from vgi_rpc.http.server import _responses as rsp
from vgi_rpc.rpc import RpcServer

PROPERTY = "C17"
ENCODED = [
    mwm._MaxRequestBytesMiddleware.process_request,
    mwm._CompressionMiddleware.process_request,
    mwm._DrainRequestMiddleware.process_response,
    rsp._get_request_stream,
    cod.decompress,
    cod._decompress_body_gzip,
    cod._decompress_body_zstd,
]

_NB = pick(4, 8)  # wire body length bound
_NP = pick(4, 8)  # decoded length bound

BOUNDS = (
    f"wire body = any bytes len<={_NB}; Content-Length None or 0..{_NB + 2}; cap 0..{_NB + 1} (or unset); decoded plaintext any bytes len<={_NP}; "
    "Content-Encoding = absent / blank / codec, non-codec and RFC 9110 alias tokens in 4 case variants with optional SP/HTAB / codec names with any one glued character / any string len<=%d; " % pick(2, 3) +
    "decode set = every subset of {zstd, gzip}; truncated frames: plaintext len<=%d cut anywhere (C18 codec stubs, chunk 3)" % c18._N
)
OUTSIDE = (
    "WSGI server / Falcon parsing of the raw request (Content-Length syntax, chunked framing); routes and resources after the two middlewares; "
    "real zlib/zstandard (contract stubs, see C18; replays use the real libraries and the real app); negative caps; multi-member inputs "
    "(the zstd decoder replays probe a two-frame body for materialisation only); how the decoder sizes its individual requests to the codec; "
    "headers made only of non-HTTP white space may be read as blank or as an unknown token; "
    "corrupt (as opposed to truncated) frames are represented only by 'the codec raises'"
)
ASSUMPTIONS = [
    "fake request: bounded_stream serves min(Content-Length, body) bytes, and without Content-Length either 0 bytes (Falcon 4 BoundedStream) or the whole de-chunked body (symbolic choice)",
    "decompress contract in the middleware items = the statement decided by C18 (plaintext iff len<=cap or cap None; DecompressionLimitExceeded otherwise; other exception iff undecodable)",
    "the middleware pipeline is the pair of instances built by make_wsgi_app, in its order; the other middlewares of the app do not touch the body before them",
    "Content-Encoding: identity is the no-op coding and must pass through (vgi_rpc._codec.decompress docstring: 'it must pass through rather than 415')",
    "'a bounded chunk' := 64 KiB of wire bytes (judged on the size a read ASKS for, the bodies of the bound being a few bytes long; replays send 200 KiB bodies and count bytes) "
    "and one _DECOMPRESS_CHUNK_BYTES (+ zlib's pending output) of decoded bytes",
    "x-gzip / x-compress (RFC 9110 aliases) may be refused with 415 or decoded as the codec they stand for",
]

# ---------------------------------------------------------------------------
# the factory's own instances (configuration under test)
# ---------------------------------------------------------------------------

_SENTINEL = 7919


class _Svc(Protocol):
    def greet(self, name: str) -> str: ...


class _Impl:
    def greet(self, name: str) -> str:
        return "hi " + name


def _build_app(cap: int | None):  # noqa: ANN202
    return fac.make_wsgi_app(RpcServer(_Svc, _Impl()), token_key=b"k" * 32, max_request_bytes=cap)


def _slots(obj: object) -> list[str]:
    out: list[str] = []
    for klass in type(obj).__mro__:
        out += list(getattr(klass, "__slots__", ()))
    return out or list(getattr(obj, "__dict__", {}))


def _pipeline(app: object) -> list[tuple[str, object, list[str]]]:
    """[(kind, instance, attributes holding the configured cap)] in registration order."""
    out = []
    for m in app._unprepared_middleware:  # type: ignore[attr-defined]
        if isinstance(m, mwm._MaxRequestBytesMiddleware):
            kind = "max"
        elif isinstance(m, mwm._CompressionMiddleware):
            kind = "comp"
        else:
            continue
        out.append((kind, m, [a for a in _slots(m) if getattr(m, a, None) == _SENTINEL and isinstance(getattr(m, a, None), int)]))
    return out


_PIPE_NOCAP = _pipeline(_build_app(None))
_APP = _build_app(_SENTINEL)
_PIPE = _pipeline(_APP)
_DRAIN = [m for m in _APP._unprepared_middleware if isinstance(m, mwm._DrainRequestMiddleware)]  # type: ignore[attr-defined]
_COMP = [m for k, m, _ in _PIPE if k == "comp"]
_MAXMW = [m for k, m, _ in _PIPE if k == "max"]
_EXEMPT = tuple(p for m in _MAXMW for p in m._exempt_prefixes)  # type: ignore[attr-defined]
_FACTORY_DECODE = tuple(_COMP[0]._decode) if _COMP else ()  # type: ignore[attr-defined]
_RPC_PATH = "/greet"


def _set_cap(pipe: list, cap: int) -> None:
    for _kind, m, attrs in pipe:
        for a in attrs:
            setattr(m, a, cap)


def _set_decode(pipe: list, decode: tuple) -> None:
    for kind, m, _ in pipe:
        if kind == "comp":
            m._decode = decode  # type: ignore[attr-defined]


# ---------------------------------------------------------------------------
# environment stubs
# ---------------------------------------------------------------------------


class _BufReader:
    def __init__(self, body: object) -> None:
        self.body = body


class _PaStub:
    BufferReader = _BufReader

    def __getattr__(self, name: str) -> object:
        raise HarnessModelError(f"pyarrow stub has no {name}")


_PA = _PaStub()


class _Dec:
    """decompress() contract stub: state of one run."""

    plain: bytes = b""
    undecodable = False
    exc_idx = 0
    calls = 0
    enc: object = None
    data: object = None
    cap: object = None


def _decompress_contract(encoding: object, data: object, *, max_output_size: int | None = None, **_kw: object) -> bytes:
    _Dec.calls += 1
    _Dec.enc, _Dec.data, _Dec.cap = encoding, data, max_output_size
    if _Dec.undecodable:
        raise _CORRUPT_EXCS[_Dec.exc_idx]
    if max_output_size is not None and len(_Dec.plain) > max_output_size:
        raise cod.DecompressionLimitExceeded("Decompressed output exceeds max_output_size")
    return _Dec.plain


_CORRUPT_EXCS: list[BaseException] = [
    _real_zlib.error("Error -3 while decompressing data: invalid block type"),
    _real_zstd.ZstdError("decompression error: Data corruption detected"),
    ValueError("bad frame"),
    cod.DecompressionError("undecodable"),
    EOFError("Compressed file ended before the end-of-stream marker was reached"),
]

comp_stubbed = reglobalize(mwm._CompressionMiddleware.process_request, pa=_PA, _decompress_with_encoding=_decompress_contract)
# the same middleware over the REAL decompress / _decompress_body_gzip / _decompress_body_zstd (only the C libraries stubbed, C18)
comp_real_decoder = reglobalize(mwm._CompressionMiddleware.process_request, pa=_PA, _decompress_with_encoding=c18.decompress_stubbed)
get_stream_stubbed = reglobalize(rsp._get_request_stream, pa=_PA)

_STUBS = [
    "decompress := contract decided by C18 (returns the hidden plaintext iff len<=max_output_size or no cap; DecompressionLimitExceeded otherwise; a fixed other exception when the body is undecodable)",
    "pa.BufferReader := box holding the bytes",
    "falcon.Request := duck-typed fake (path, content_length, bounded_stream.read recording, context, get_header)",
]


class _Ctx:
    pass


_MODEL_ERRORS: list[str] = []  # a stub used outside its model, even if the code under test swallowed the exception


def _model_error(msg: str) -> HarnessModelError:
    _MODEL_ERRORS.append(msg)
    return HarnessModelError(msg)


class _Stream:
    """Falcon BoundedStream contract: read(n) -> at most n of the remaining bytes as ONE bytes object,
    read()/read(-1)/read(None) -> all remaining bytes as one object, exhaust() -> discards the rest in
    fixed-size chunks (nothing larger than the library's chunk is ever materialised)."""

    def __init__(self, data: bytes, end: int) -> None:
        self._data = data
        self._end = end
        self._pos = 0
        self.pulled = 0  # bytes turned into Python objects by read()
        self.biggest = 0  # largest single object produced by read()
        self.unlimited = False  # some read() asked for "everything"
        self.max_req = 0  # largest bounded read(n) request

    def __getattr__(self, name: str) -> object:
        raise _model_error(f"stream stub has no {name}")

    def read(self, size: int | None = None, *a: object, **kw: object) -> bytes:
        avail = self._end - self._pos
        if size is None or size < 0:
            self.unlimited = True
            k = avail
        else:
            if size > self.max_req:
                self.max_req = size
            k = size if size < avail else avail
        out = self._data[self._pos : self._pos + k]
        self._pos += k
        self.pulled += k
        if k > self.biggest:
            self.biggest = k
        return out

    def exhaust(self, chunk_size: int = 64 * 1024) -> None:
        if chunk_size <= 0:
            raise _model_error("exhaust chunk size")
        self._pos = self._end


class _Req:
    def __init__(self, path: str, content_length: int | None, stream: _Stream, content_encoding: str | None) -> None:
        self.path = path
        self.content_length = content_length
        self.bounded_stream = stream
        self.context = _Ctx()
        self._ce = content_encoding

    def __getattr__(self, name: str) -> object:
        raise HarnessModelError(f"request stub has no {name}")

    def get_header(self, name: str, required: bool = False, default: str | None = None) -> str | None:
        if name == "Content-Encoding":
            return self._ce
        if name in ("Accept-Encoding", "X-VGI-Accept-Encoding"):
            return None
        raise HarnessModelError(f"unexpected header lookup {name}")


_WIRE_CHUNK = 64 * 1024  # "a bounded chunk" of wire bytes: what a chunked sentinel read may pull beyond the cap


def over_pulled(stream: object, cap: int, amount: int) -> bool:
    """``amount`` body bytes were materialised: more than the cap plus a bounded chunk?  The bodies of the bound are
    a few bytes long, so the chunk cannot be a byte count there: a read that ASKS for no more than cap + 64 KiB is
    within the property whatever it delivers; one that asks for everything (or for more than that) is judged by
    what it delivered."""
    return amount > cap + 1 and (stream.unlimited or stream.max_req > cap + _WIRE_CHUNK)  # type: ignore[attr-defined]


def _wire_len(n: int, has_cl: bool, cl: int, dechunked: bool) -> int:
    if has_cl:
        return cl if cl < n else n
    return n if dechunked else 0


def _mk_req(path: str, data: bytes, has_cl: bool, cl: int, dechunked: bool, ce: str | None) -> _Req:
    return _Req(path, cl if has_cl else None, _Stream(data, _wire_len(len(data), has_cl, cl, dechunked)), ce)


def _run(pipe: list, req: object, comp_fn=None) -> tuple[int, object]:  # noqa: ANN001
    """(status, bytes handed to the RPC layer) — status 200 means 'reached the RPC layer'."""
    comp_fn = comp_fn or comp_stubbed
    _Dec.calls = 0
    del _MODEL_ERRORS[:]
    try:
        for kind, m, _ in pipe:
            if kind == "max":
                mwm._MaxRequestBytesMiddleware.process_request(m, req, None)  # type: ignore[arg-type]
            else:
                comp_fn(m, req, None)
        reader = get_stream_stubbed(req)
    except falcon.HTTPError as e:
        cause = e.__cause__
        if isinstance(cause, HarnessModelError):
            raise cause from None
        if isinstance(e, falcon.HTTPContentTooLarge):
            return 413, None
        if isinstance(e, falcon.HTTPUnsupportedMediaType):
            return 415, None
        if isinstance(e, falcon.HTTPBadRequest):
            return 400, None
        return -1, None
    if not isinstance(reader, _BufReader):
        raise HarnessModelError("RPC layer stream is not the boxed buffer")
    return 200, reader.body


# ---------------------------------------------------------------------------
# real replays: the real WSGI app (factory-built), a genuine client request captured and re-sent
# ---------------------------------------------------------------------------


def _captured_request(app: object) -> tuple[str, bytes, dict]:
    from vgi_rpc.http import http_connect
    from vgi_rpc.http._testing import _SyncTestClient

    seen: list = []

    class _Cap(_SyncTestClient):
        def post(self, url, *, content, headers):  # type: ignore[no-untyped-def]
            seen.append((url, content, dict(headers)))
            return super().post(url, content=content, headers=headers)

    with http_connect(_Svc, client=_Cap(app), compression_level=None) as proxy:  # type: ignore[arg-type]
        if proxy.greet(name="x") != "hi x":
            raise RuntimeError("baseline call failed")
    return seen[-1]


class _CountingInput:
    """wsgi.input that counts what the application pulls."""

    def __init__(self, data: bytes) -> None:
        import io

        self._io = io.BytesIO(data)
        self.pulled = 0

    def read(self, size: int = -1) -> bytes:
        out = self._io.read(size)
        self.pulled += len(out)
        return out

    def readline(self, size: int = -1) -> bytes:
        out = self._io.readline(size)
        self.pulled += len(out)
        return out


def _wsgi_call(app: object, method: str, path: str, body: bytes, headers: dict) -> tuple[int, bytes, int]:
    env = falcon.testing.create_environ(path=path, method=method, headers=headers, body=body)
    inp = _CountingInput(body)
    env["wsgi.input"] = inp
    status: list = []

    def start_response(s, h, exc_info=None):  # type: ignore[no-untyped-def]
        status.append(s)

    chunks = app(env, start_response)  # type: ignore[operator]
    payload = b"".join(chunks)
    return int(status[0].split()[0]), payload, inp.pulled


def _replay_identity(args: dict) -> str | None:
    app = _build_app(4096)
    url, content, headers = _captured_request(app)
    ce = args.get("ce_text") or "identity"
    base, _, _ = _wsgi_call(app, "POST", url, content, headers)
    got, payload, _ = _wsgi_call(app, "POST", url, content, {**headers, "Content-Encoding": ce})
    if base == 200 and got != 200:
        return f"a valid {len(content)}-byte request answered 200 is answered {got} once it carries 'Content-Encoding: {ce}' (no transform applied): {payload[:160]!r}"
    if "has_cl" in args:
        return _wire_bomb(_RPC_PATH, ce, args["has_cl"], args["dechunked"])
    return None


def _real_pipeline_pull(app: object, method: str, path: str, body: bytes, headers: dict, has_cl: bool = True, dechunked: bool = False) -> tuple[str, int]:
    """The factory's two middleware instances (real code, real Falcon request, real codecs) on one request:
    (outcome, bytes pulled from wsgi.input by them)."""
    env = falcon.testing.create_environ(path=path, method=method, headers=headers, body=body)
    inp = _CountingInput(body)
    env["wsgi.input"] = inp
    if not has_cl:
        env.pop("CONTENT_LENGTH", None)
        env["HTTP_TRANSFER_ENCODING"] = "chunked"
    req = (_DechunkedRequest if (not has_cl and dechunked) else falcon.Request)(env)
    outcome = "passed on"
    try:
        for _kind, m, _ in _pipeline_any(app):
            m.process_request(req, falcon.Response())  # type: ignore[attr-defined]
    except falcon.HTTPError as e:
        outcome = str(e.status)
    return outcome, inp.pulled


def _pipeline_any(app: object) -> list:
    return [("", m, []) for m in app._unprepared_middleware if isinstance(m, (mwm._MaxRequestBytesMiddleware, mwm._CompressionMiddleware))]  # type: ignore[attr-defined]


class _DechunkedRequest(falcon.Request):
    """A WSGI stack that hands the de-chunked body through ``bounded_stream`` (no Content-Length)."""

    @property
    def bounded_stream(self):  # type: ignore[no-untyped-def, override]
        return self.env["wsgi.input"]


def _real_request(cap: int | None, decode: tuple | None, path: str, body: bytes, cl: int | None, dechunked: bool, ce: str | None) -> tuple[int, bytes | None, int]:
    """Real middlewares (factory instances for this cap), real Falcon request, real codecs, real _get_request_stream."""
    app = _build_app(cap)
    env = falcon.testing.create_environ(path=path, method="POST", body=body, headers={} if ce is None else {"Content-Encoding": ce})
    if cl is None:
        env.pop("CONTENT_LENGTH", None)
    else:
        env["CONTENT_LENGTH"] = str(cl)
    inp = _CountingInput(body)
    env["wsgi.input"] = inp
    req = (_DechunkedRequest if (cl is None and dechunked) else falcon.Request)(env)
    try:
        for _k, m, _ in _pipeline_any(app):
            if decode is not None and isinstance(m, mwm._CompressionMiddleware):
                m._decode = decode
            m.process_request(req, falcon.Response())  # type: ignore[attr-defined]
        handed = rsp._get_request_stream(req).read()
    except falcon.HTTPContentTooLarge:
        return 413, None, inp.pulled
    except falcon.HTTPUnsupportedMediaType:
        return 415, None, inp.pulled
    except falcon.HTTPBadRequest:
        return 400, None, inp.pulled
    return 200, bytes(handed), inp.pulled


_K = 200  # replays add K to every length: relations between sizes and the cap are kept, real frames fit


def _mismatch(what: str, got: tuple[int, bytes | None, int], want_status: tuple[int, ...], want_body: bytes | None, cap: int | None) -> str | None:
    status, handed, pulled = got
    if cap is not None and pulled > cap + 1 + _WIRE_CHUNK:
        return f"{what}: the server read {pulled} bytes of body into memory (cap {cap})"
    if status not in want_status:
        return f"{what}: answered {status if status != 200 else 'by passing the body on'}, expected {'/'.join(map(str, want_status))}"
    if status == 200 and want_body is not None and handed != want_body:
        return f"{what}: the RPC layer received {len(handed or b'')} bytes that are not the client's {len(want_body)}-byte request"
    return None


def _wire_bomb(path: str, ce: str | None, has_cl: bool, dech: bool, cap: int = 64) -> str | None:
    """The same framing with a body far over the cap (cap + three 64 KiB chunks): refused with 413 on an RPC path, and
    on every path without more than the cap plus one chunk of it being read into memory."""
    if not has_cl and not dech:
        return None  # Falcon serves no body at all without Content-Length
    body = (bytes(range(256)) * ((cap + 3 * _WIRE_CHUNK) // 256 + 1))[: cap + 3 * _WIRE_CHUNK]
    app = _build_app(cap)
    outcome, pulled = _real_pipeline_pull(app, "POST", path, body, {} if ce is None else {"Content-Encoding": ce}, has_cl, dech)
    what = f"max_request_bytes={cap}, POST {path} with a {len(body)}-byte body, Content-Length {len(body) if has_cl else 'absent (de-chunked by the WSGI stack)'}, Content-Encoding {ce!r}"
    if pulled > cap + 1 + _WIRE_CHUNK:
        return f"{what}: the request middlewares read {pulled} bytes of it into memory ({outcome})"
    exempt = any(path == pre or path.startswith(pre + "/") for pre in _EXEMPT)
    if not exempt and not outcome.startswith("413"):
        return f"{what}: {outcome}, expected 413"
    return None


def _replay_passthrough(args: dict) -> str | None:
    data, has_cl, dech = args["data"] + b"\x00" * _K, args["has_cl"], args["dechunked"]
    cl, cap = args["cl"] + _K, args["cap"] + _K
    ce = _BLANKS[args["blank"]] if "blank" in args else args["ce_text"]
    wire = min(cl, len(data)) if has_cl else (len(data) if dech else 0)
    got = _real_request(cap, None, _RPC_PATH, data, cl if has_cl else None, dech, ce)
    too_big = (cl > cap) if has_cl else (wire > cap)
    what = f"max_request_bytes={cap}, {len(data)}-byte body, Content-Length {cl if has_cl else 'absent'}, Content-Encoding {ce!r}"
    return _mismatch(what, got, (413,) if too_big else (200,), data[:wire], cap) or _wire_bomb(_RPC_PATH, ce, has_cl, dech)


def _replay_header(header: str, decode: tuple, codec: str | None, want: tuple[int, ...]) -> str | None:
    enc = _ENC_BY_NAME[codec] if codec else _G
    body = cod.compress(enc, _PLAIN)
    got = _real_request(_SENTINEL, decode, _RPC_PATH, body, len(body), False, header)
    what = f"Content-Encoding {header!r} on a {enc.value}-compressed body, decodable codecs {[e.value for e in decode]}"
    r = _mismatch(what, got, want, _PLAIN, _SENTINEL)
    if r is None and want == (200,):
        # the configured cap reaches the decoder: 5000 zero bytes behind a 1000-byte cap
        bomb = cod.compress(enc, b"\x00" * 5000)
        r = _mismatch(what + " decoding to 5000 bytes, max_request_bytes=1000", _real_request(1000, decode, _RPC_PATH, bomb, len(bomb), False, header), (413,), None, 1000)
    return r


def _replay_token(args: dict) -> str | None:
    texts, codec = _TOKENS[args["which"]]
    header = _OWS[args["lp"]] + texts[args["variant"]] + _OWS[args["rp"]]
    decode = _decode_set(args["dz"], args["dg"]) if codec is not None else _DEC_SETS[3]
    if args["which"] >= _ALIAS_FIRST:
        # the body is compressed with the codec the alias stands for: refused, or decoded to the client's bytes
        of = _ALIAS_TOKENS[args["which"] - _ALIAS_FIRST][1]
        return _replay_header(header, decode, of if of in _ENC_BY_NAME else None, (200, 415) if of in _ENC_BY_NAME else (415,))
    ok = codec is not None and _ENC_BY_NAME[codec] in decode
    return _replay_header(header, decode, codec, (200,) if ok else (415,))


def _replay_glued(args: dict) -> str | None:
    name = _CODEC_NAMES[args["which"]]
    text = name.upper() if args["upper"] else name
    pad = args["pad"]
    header = (pad + text) if args["left"] else (text + pad)
    want = (200,) if pad in (" ", "\t") else ((200, 415) if pad.strip() == "" else (415,))
    try:
        header.encode("latin-1")
    except UnicodeEncodeError:
        return None  # not expressible as a WSGI header value
    return _replay_header(header, _DEC_SETS[3], name, want)


def _replay_freeform(args: dict) -> str | None:
    ce = args["ce"]
    try:
        ce.encode("latin-1")
    except UnicodeEncodeError:
        return None
    got = _real_request(_SENTINEL, _DEC_SETS[3], _RPC_PATH, _WIRE, len(_WIRE), False, ce)
    want = (200,) if ce.strip(" \t") == "" else ((200, 415) if ce.strip() == "" else (415,))
    return _mismatch(f"Content-Encoding {ce!r}", got, want, _WIRE, _SENTINEL)


def _replay_decode(args: dict) -> str | None:
    # the counterexample itself first, then its neighbours with the same framing
    # (the stubbed failure may sit in what the decoder was *given* — codec, bytes, cap — which only shows
    # through the decoded size: also try a plaintext one byte over the cap, and a decodable body)
    over = b"\x00" * (args["cap"] + 1)
    for plain0, und in ((args["plain"], args["undecodable"]), (b"", args["undecodable"]), (args["plain"], False), (b"", False), (over, False)):
        r = _replay_decode_one({**args, "undecodable": und}, plain0)
        if r:
            return r
    if args["has_cap"]:
        return _wire_bomb(_RPC_PATH, (_G if args["gzip"] else _Z).value, args["has_cl"], args["dechunked"])
    return None


def _replay_decode_one(args: dict, plain0: bytes) -> str | None:
    enc = _G if args["gzip"] else _Z
    has_cap = args["has_cap"]
    cap = args["cap"] + _K if has_cap else None
    plain = plain0 + b"\x00" * _K
    n, cl = len(args["data"]) + _K, args["cl"] + _K
    frame = cod.compress(enc, plain)
    if args["undecodable"]:
        frame = frame[:10] + b"\xff" * 12  # valid magic, corrupt stream
    if len(frame) > n:
        return None
    body = frame.ljust(n, b"\x00")  # both codecs ignore bytes after the end of the frame
    # the counterexample's own framing first, then the plain Content-Length framing (the decoder contract
    # stub ignores the wire bytes, Falcon 4 serves none without Content-Length)
    for has_cl, dech in ((args["has_cl"], args["dechunked"]), (True, False)):
        wire = min(cl, n) if has_cl else (n if dech else 0)
        if wire < len(frame):
            continue
        if has_cap and ((cl > cap) if has_cl else (wire > cap)):
            want: tuple[int, ...] = (413,)
        elif args["undecodable"]:
            # (a zstd header that still declares a size over the cap may be refused up front)
            want = (400, 413) if has_cap and len(plain) > cap else (400,)
        else:
            want = (413,) if has_cap and len(plain) > cap else (200,)
        got = _real_request(cap, None, _RPC_PATH, body, cl if has_cl else None, dech, enc.value)
        what = (
            f"max_request_bytes={cap}, {wire}-byte {enc.value} body decoding to {len(plain)} bytes"
            f"{' (corrupt)' if args['undecodable'] else ''}, Content-Length {cl if has_cl else 'absent'}"
        )
        r = _mismatch(what, got, want, plain, cap)
        if r:
            return r
    return None


def _replay_exempt(args: dict) -> str | None:
    cap = 64
    app = _build_app(cap)
    body = cod.compress(cod.Encoding.GZIP, b"\x00" * 10) + (bytes(range(256)) * 800)  # 200 KiB on the wire (cap 64, chunk 64 KiB)
    out = []
    framings = [(args.get("has_cl", True), args.get("dechunked", False)), (True, False), (False, True)]
    for has_cl, dech in framings[:1] + [f for f in framings[1:] if f != framings[0]]:
        for prefix in _EXEMPT:
            for path in (prefix, prefix + "/x"):
                for method in ("GET", "POST"):
                    outcome, pulled = _real_pipeline_pull(app, method, path, body, {"Content-Encoding": "gzip"}, has_cl, dech)
                    if pulled > cap + 1 + _WIRE_CHUNK:
                        how = f"Content-Length {len(body)}" if has_cl else "no Content-Length, de-chunked by the WSGI stack"
                        out.append(f"{method} {path} ({how}): request middlewares read {pulled} bytes into memory ({outcome})")
    if out:
        ctl, ctl_pulled = _real_pipeline_pull(app, "POST", _RPC_PATH, body, {"Content-Encoding": "gzip"}, False, True)
        return f"max_request_bytes={cap}, {len(body)}-byte gzip-labelled body: " + "; ".join(out[:4]) + f" (same body de-chunked on {_RPC_PATH}: {ctl}, {ctl_pulled} bytes read)"
    return None


def _real_truncated(codec: str, plain: bytes, m: int) -> list[tuple[str, bytes, bytes]]:
    """[(label, truncated frame, full plaintext)] built with the real libraries."""
    big = plain + c18._LEVEL_PROBE  # ~54 kB of semi-compressible data: a cut leaves a long, non-empty prefix
    out = []
    if codec == "gzip":
        for p in (big, plain):
            full = cod.compress(cod.Encoding.GZIP, p)
            out.append((f"gzip member of {len(p)} bytes cut in half", full[: len(full) // 2], p))
            out.append((f"gzip member of {len(p)} bytes without its 8-byte trailer (CRC32, ISIZE)", full[:-8], p))
    else:
        for p in (big, plain):
            full = _real_zstd.ZstdCompressor(level=3, write_content_size=False).compress(p)
            co = _real_zstd.ZstdCompressor(level=3).compressobj()
            multi = b"".join(co.compress(p[i : i + 1024]) + co.flush(_real_zstd.COMPRESSOBJ_FLUSH_BLOCK) for i in range(0, len(p), 1024)) + co.flush()
            if _real_zstd.get_frame_parameters(multi).content_size in (-1, c18._UNKNOWN):
                out.append((f"streamed (size-less) zstd frame of {len(p)} bytes cut in half", multi[: len(multi) // 2], p))
            out.append((f"size-less zstd frame of {len(p)} bytes without its last byte", full[:-1], p))
    return out


def _replay_truncated(codec: str, args: dict) -> str | None:
    enc = cod.Encoding.GZIP if codec == "gzip" else cod.Encoding.ZSTD
    cap = args["cap"] if args["has_cap"] else None
    for label, frame, full in _real_truncated(codec, args["plain"], args["m"]):
        for c in (None, len(full) + 10) if cap is None or cap < len(full) else (cap,):
            try:
                got = cod.decompress(enc, frame, max_output_size=c)
            except Exception:  # noqa: BLE001
                continue
            # the real middleware on a real Falcon request hands the same bytes to the RPC layer
            mw = mwm._CompressionMiddleware({}, decode_encodings=[enc], max_decompressed_bytes=c)
            req = falcon.testing.create_req(method="POST", path=_RPC_PATH, body=frame, headers={"Content-Encoding": enc.value})
            try:
                mw.process_request(req, falcon.Response())
                handed = req.context.decompressed_stream.read()
                via = f"; _CompressionMiddleware hands {len(handed)} bytes to the RPC layer instead of answering 400"
            except falcon.HTTPError as e:
                via = f"; middleware answered {e.status}"
            return (
                f"decompress({enc.name}, <{label}>, max_output_size={c}) returned {len(got)} bytes "
                f"({'the whole plaintext although the end of the frame is missing' if got == full else ('a strict prefix of the plaintext' if full.startswith(got) else 'not the plaintext')}) instead of raising" + via
            )
    return None


# ---------------------------------------------------------------------------
# conditions
# ---------------------------------------------------------------------------

_BLANKS: list[str | None] = [None, "", " ", " \t"]


@cond(q=60, t=300, stubs=_STUBS[1:], encoded=[mwm._MaxRequestBytesMiddleware.process_request, mwm._CompressionMiddleware.process_request, rsp._get_request_stream],
      bound=f"body len<={_NB}, Content-Length None|0..{_NB + 2}, cap 0..{_NB + 1}, no coding named",
      replay=_replay_passthrough, signature=lambda a, c: "C17:wire-cap-or-passthrough")
def wire_cap_and_passthrough(data: bytes, has_cl: bool, cl: int, cap: int, dechunked: bool, blank: int) -> bool:
    """
    pre: len(data) <= _NB and 0 <= cl <= _NB + 2 and 0 <= cap <= _NB + 1 and 0 <= blank <= 3
    post: _
    """
    _set_cap(_PIPE, cap)
    _set_decode(_PIPE, _FACTORY_DECODE)
    req = _mk_req(_RPC_PATH, data, has_cl, cl, dechunked, _BLANKS[blank])
    status, handed = _run(_PIPE, req)
    wire = _wire_len(len(data), has_cl, cl, dechunked)
    too_big = (cl > cap) if has_cl else (wire > cap)
    if over_pulled(req.bounded_stream, cap, req.bounded_stream.pulled):
        return False
    if too_big:
        return status == 413
    return status == 200 and handed == data[:wire] and _Dec.calls == 0


# tokens: (text, codec name or None).  Unknown ones are spec-level examples, not repository data: a token that the
# live Encoding enum (now) names is not "unknown" and is dropped here (it is then covered as a codec name).
_LIVE_NAMES = {e.value.lower() for e in cod.Encoding}
_UNKNOWN_TOKENS = [t for t in ["br", "deflate", "compress", "gzipp", "gzi", "g zip", "gzip,zstd", "gzip, gzip", "zstd;q=1", "*", "none"] if t not in _LIVE_NAMES]
# RFC 9110 8.4.1: "x-gzip" / "x-compress" are aliases a recipient SHOULD treat as gzip / compress.  A server may refuse
# the alias (415, today) or decode it as the codec it stands for — never anything else.
_ALIAS_TOKENS = [(t, of) for t, of in [("x-gzip", "gzip"), ("x-compress", "compress")] if t not in _LIVE_NAMES]


def _variants(t: str) -> list[str]:
    return [t, t.upper(), t.title(), "".join(c.upper() if i % 2 else c for i, c in enumerate(t))]


_CODEC_NAMES = [e.value for e in cod.Encoding if e is not cod.Encoding.IDENTITY]
_TOKENS: list[tuple[list[str], str | None]] = (
    [(_variants(n), n) for n in _CODEC_NAMES] + [(_variants(t), None) for t in _UNKNOWN_TOKENS] + [(_variants(t), None) for t, _of in _ALIAS_TOKENS]
)
_ALIAS_FIRST = len(_CODEC_NAMES) + len(_UNKNOWN_TOKENS)  # _TOKENS[_ALIAS_FIRST + i] is _ALIAS_TOKENS[i]
_ALL_NAMES = [e.value for e in cod.Encoding]
# a codec name wrapped in one extra character on either side is not another codec name (so such a header names nothing)
assert not any(len(a) - len(b) in (1, 2) and b in a for a in _ALL_NAMES for b in _ALL_NAMES), "codec names nest: revisit the padding oracle"
assert min(len(n) for n in _ALL_NAMES) > 3, "a codec name fits in 3 characters: revisit coding_short_freeform"

_ENC_BY_NAME = {e.value: e for e in cod.Encoding}
_PLAIN = b"PLAINTEXT"
_WIRE = b"wire"


def _decode_set(dz: bool, dg: bool) -> tuple:
    if dz and dg:
        return _DEC_SETS[3]
    if dz:
        return _DEC_SETS[2]
    if dg:
        return _DEC_SETS[1]
    return _DEC_SETS[0]


_Z, _G = cod.Encoding.ZSTD, cod.Encoding.GZIP
_DEC_SETS = [(), (_G,), (_Z,), (_Z, _G)]


_OWS = ["", " ", "\t"]


@cond(q=60, t=300, stubs=_STUBS, encoded=[mwm._CompressionMiddleware.process_request],
      bound=f"codec, {len(_UNKNOWN_TOKENS)} non-codec and {len(_ALIAS_TOKENS)} alias tokens x 4 case variants x optional SP/HTAB on either side, every decode subset of {{zstd,gzip}}",
      replay=_replay_token, signature=lambda a, c: "C17:coding-token:" + str(_TOKENS[a["which"]][1] or "unknown"))
def coding_token_mapping(which: int, variant: int, lp: int, rp: int, dz: bool, dg: bool) -> bool:
    """
    pre: 0 <= which < len(_TOKENS) and 0 <= variant <= 3 and 0 <= lp <= 2 and 0 <= rp <= 2
    post: _
    """
    texts, codec = _TOKENS[which]
    header = _OWS[lp] + texts[variant] + _OWS[rp]
    # the decode set only matters when the token names a codec
    decode = _decode_set(dz, dg) if codec is not None else _DEC_SETS[3]
    _set_cap(_PIPE, _SENTINEL)
    _set_decode(_PIPE, decode)
    _Dec.plain, _Dec.undecodable = _PLAIN, False
    req = _mk_req(_RPC_PATH, _WIRE, True, len(_WIRE), False, header)
    status, handed = _run(_PIPE, req)
    if which >= _ALIAS_FIRST:
        if status == 415:
            return _Dec.calls == 0
        of = _ENC_BY_NAME.get(_ALIAS_TOKENS[which - _ALIAS_FIRST][1])
        return status == 200 and of is not None and of in decode and handed == _PLAIN and _Dec.enc is of and _Dec.data == _WIRE and _Dec.cap == _SENTINEL
    if codec is None:
        return status == 415 and _Dec.calls == 0
    enc = _ENC_BY_NAME[codec]
    if enc not in decode:
        return status == 415 and _Dec.calls == 0
    return status == 200 and handed == _PLAIN and _Dec.calls == 1 and _Dec.enc is enc and _Dec.data == _WIRE and _Dec.cap == _SENTINEL


@cond(q=60, t=300, stubs=_STUBS, encoded=[mwm._CompressionMiddleware.process_request],
      bound="a codec name with ANY one character glued to its left or right", replay=_replay_glued, signature=lambda a, c: "C17:coding-token:glued")
def coding_glued_character(which: int, upper: bool, left: bool, pad: str) -> bool:
    """
    pre: 0 <= which < len(_CODEC_NAMES) and len(pad) == 1
    post: _
    """
    name = _CODEC_NAMES[which]
    if upper:
        name = name.upper()
    header = (pad + name) if left else (name + pad)
    _set_cap(_PIPE, _SENTINEL)
    _set_decode(_PIPE, _DEC_SETS[3])
    _Dec.plain, _Dec.undecodable = _PLAIN, False
    req = _mk_req(_RPC_PATH, _WIRE, True, len(_WIRE), False, header)
    status, handed = _run(_PIPE, req)
    if pad == " " or pad == "\t":  # HTTP optional white space
        return status == 200 and handed == _PLAIN and _Dec.enc is _ENC_BY_NAME[_CODEC_NAMES[which]]
    if pad.strip() == "":  # other (Unicode) white space: either reading is acceptable, nothing else
        return status in (200, 415)
    return status == 415 and _Dec.calls == 0  # a codec name glued to another character names no codec


_LF = pick(2, 3)


@cond(q=60, t=400, stubs=_STUBS, encoded=[mwm._CompressionMiddleware.process_request], bound="Content-Encoding = any string len<=%d (shorter than every codec name)" % _LF,
      replay=_replay_freeform, signature=lambda a, c: "C17:coding-token:short")
def coding_short_freeform(ce: str) -> bool:
    """
    pre: len(ce) <= _LF
    post: _
    """
    _set_cap(_PIPE, _SENTINEL)
    _set_decode(_PIPE, _DEC_SETS[3])
    _Dec.plain, _Dec.undecodable = _PLAIN, False
    req = _mk_req(_RPC_PATH, _WIRE, True, len(_WIRE), False, ce)
    status, handed = _run(_PIPE, req)
    if _Dec.calls != 0:
        return False  # nothing this short names a codec
    if ce.strip(" \t") == "":  # nothing but HTTP optional white space: no coding named
        return status == 200 and handed == _WIRE
    if ce.strip() == "":  # other (Unicode / control) white space only: "no coding" or "an unknown token", nothing else
        return status == 415 or (status == 200 and handed == _WIRE)
    return status == 415


@cond(q=60, t=300, stubs=_STUBS, encoded=[mwm._MaxRequestBytesMiddleware.process_request, mwm._CompressionMiddleware.process_request, rsp._get_request_stream],
      bound=f"wire len<={_NB}, decoded len<={_NP}, Content-Length None|0..{_NB + 2}, cap 0..{_NB + 1} or unset, codec zstd|gzip, decodable/undecodable",
      replay=_replay_decode, signature=lambda a, c: "C17:decode-outcome")
def decode_outcome_mapping(data: bytes, plain: bytes, has_cl: bool, cl: int, has_cap: bool, cap: int, dechunked: bool, gzip: bool, undecodable: bool, exc: int) -> bool:
    """
    pre: len(data) <= _NB and len(plain) <= _NP and 0 <= cl <= _NB + 2 and 0 <= cap <= _NB + 1 and 0 <= exc < len(_CORRUPT_EXCS)
    post: _
    """
    pipe = _PIPE if has_cap else _PIPE_NOCAP
    if has_cap:
        _set_cap(pipe, cap)
    _set_decode(pipe, _FACTORY_DECODE)
    enc = _G if gzip else _Z
    _Dec.plain, _Dec.undecodable, _Dec.exc_idx = plain, undecodable, exc
    req = _mk_req(_RPC_PATH, data, has_cl, cl, dechunked, enc.value)
    status, handed = _run(pipe, req)
    wire = _wire_len(len(data), has_cl, cl, dechunked)
    if has_cap:
        if over_pulled(req.bounded_stream, cap, req.bounded_stream.pulled):
            return False
        if (cl > cap) if has_cl else (wire > cap):
            return status == 413 and _Dec.calls == 0
    # the decoder saw exactly the wire body, the named codec and the configured cap
    if _Dec.calls != 1 or _Dec.enc is not enc or _Dec.data != data[:wire] or _Dec.cap != (cap if has_cap else None):
        return False
    if undecodable:
        return status == 400
    if has_cap and len(plain) > cap:
        return status == 413
    return status == 200 and handed == plain


_IDENT = _variants(cod.Encoding.IDENTITY.value)
_PAD_PAIRS = [(0, 0), (1, 0), (0, 2), (1, 1)]  # indexes into _OWS


@cond(q=60, t=300, stubs=_STUBS[1:], encoded=[mwm._CompressionMiddleware.process_request, cod.decompress],
      bound=f"'identity' in 4 case variants with optional OWS, body len<={_NB}, Content-Length None|0..{_NB + 2}, cap 0..{_NB + 1}",
      replay=_replay_identity, signature=lambda a, c: "C17:identity-coding-refused-415")
def identity_coding_passes_through(data: bytes, has_cl: bool, cl: int, cap: int, dechunked: bool, variant: int, pad: int) -> bool:
    """
    pre: len(data) <= _NB and 0 <= cl <= _NB + 2 and 0 <= cap <= _NB + 1 and 0 <= variant <= 3 and 0 <= pad <= 3
    post: _
    """
    lp, rp = _PAD_PAIRS[pad]
    _set_cap(_PIPE, cap)
    _set_decode(_PIPE, _FACTORY_DECODE)
    _Dec.plain, _Dec.undecodable = b"", True  # identity must not need a decoder
    req = _mk_req(_RPC_PATH, data, has_cl, cl, dechunked, _OWS[lp] + _IDENT[variant] + _OWS[rp])
    status, handed = _run(_PIPE, req)
    wire = _wire_len(len(data), has_cl, cl, dechunked)
    if over_pulled(req.bounded_stream, cap, req.bounded_stream.pulled):
        return False
    if (cl > cap) if has_cl else (wire > cap):
        return status == 413
    return status == 200 and handed == data[:wire]


_EXEMPT_PATHS = [p for pre in _EXEMPT for p in (pre, pre + "/x")]


@cond(q=60, t=300, stubs=_STUBS, encoded=[mwm._MaxRequestBytesMiddleware.process_request, mwm._CompressionMiddleware.process_request],
      bound=f"paths exempt from the wire cap (factory list) and one level below, Content-Length None|0..{_NB + 2}, with and without a de-chunking WSGI stack, body len<={_NB}, cap 0..{_NB + 1}, coding zstd|gzip",
      replay=_replay_exempt, signature=lambda a, c: "C17:exempt-path-body-read-unbounded")
def exempt_path_allocation_guard(data: bytes, has_cl: bool, cl: int, dechunked: bool, cap: int, which_path: int, gzip: bool) -> bool:
    """
    pre: len(_EXEMPT_PATHS) > 0 and len(data) <= _NB and 0 <= cl <= _NB + 2 and 0 <= cap <= _NB + 1 and 0 <= which_path < len(_EXEMPT_PATHS)
    post: _
    """
    _set_cap(_PIPE, cap)
    _set_decode(_PIPE, _FACTORY_DECODE)
    _Dec.plain, _Dec.undecodable = b"", False
    req = _mk_req(_EXEMPT_PATHS[which_path], data, has_cl, cl, dechunked, (_G if gzip else _Z).value)
    status, _handed = _run(_PIPE, req)
    if _MODEL_ERRORS:
        raise HarnessModelError(_MODEL_ERRORS[0])
    # whatever the answer, the server must not have materialised more than the cap plus a bounded chunk of the wire body
    if over_pulled(req.bounded_stream, cap, req.bounded_stream.pulled):
        return False
    # a coded body that is over the cap on the wire is never given to a decoder (whether such a path answers 413 or
    # ignores the body is the exemption's business)
    wire = _wire_len(len(data), has_cl, cl, dechunked)
    if (cl > cap) if has_cl else (wire > cap):
        return _Dec.calls == 0 and status in (413, 200)
    return True


def _replay_drain(args: dict) -> str | None:
    ce = _G.value if args.get("gzip") else None
    for has_cl, dech in dict.fromkeys([(args.get("has_cl", True), args.get("dechunked", False)), (True, False), (False, True)]):
        if has_cl or dech:
            r = _replay_drain_one(has_cl, ce)
            if r:
                return r
    return None


def _replay_drain_one(has_cl: bool, ce: str | None) -> str | None:
    cap = 64
    app = _build_app(cap)
    body = bytes(range(256)) * 800  # 200 KiB: more than cap + one 64 KiB drain chunk
    headers = {"Content-Type": "application/vnd.apache.arrow.stream"}
    if ce:
        headers["Content-Encoding"] = ce
    env = falcon.testing.create_environ(path=_RPC_PATH, method="POST", headers=headers, body=body)
    if not has_cl:
        # a WSGI stack that de-chunks: no Content-Length, the body behind bounded_stream
        env.pop("CONTENT_LENGTH", None)
        env["HTTP_TRANSFER_ENCODING"] = "chunked"
        app._request_type = _DechunkedRequest  # type: ignore[attr-defined]

    class _Biggest(_CountingInput):
        biggest = 0

        def read(self, size: int = -1) -> bytes:
            out = super().read(size)
            self.biggest = max(self.biggest, len(out))
            return out

    inp = _Biggest(body)
    env["wsgi.input"] = inp
    status: list = []
    b"".join(app(env, lambda s, h, e=None: status.append(s)))  # type: ignore[operator]
    if inp.biggest > cap + 1 + 64 * 1024:
        return (
            f"max_request_bytes={cap}: POST {_RPC_PATH} with {'Content-Length ' + str(len(body)) if has_cl else 'a de-chunked ' + str(len(body)) + '-byte body (no Content-Length)'} "
            f"is answered {status[0]}, and the server reads the refused body with ONE wsgi.input.read() of {inp.biggest} bytes — the whole body is materialised"
        )
    return None


@cond(q=60, t=300, stubs=_STUBS[1:] + ["bounded_stream.exhaust() := discards the rest of the body in library-sized chunks (Falcon BoundedStream contract)"],
      encoded=[mwm._MaxRequestBytesMiddleware.process_request, mwm._CompressionMiddleware.process_request, mwm._DrainRequestMiddleware.process_response],
      bound=f"body len<={_NB}, Content-Length None|0..{_NB + 2}, cap 0..{_NB + 1}, no coding / gzip named", replay=_replay_drain,
      signature=lambda a, c: "C17:drain-materialises-refused-body")
def refused_body_is_not_materialised(data: bytes, has_cl: bool, cl: int, cap: int, dechunked: bool, gzip: bool) -> bool:
    """
    pre: len(_DRAIN) == 1 and len(data) <= _NB and 0 <= cl <= _NB + 2 and 0 <= cap <= _NB + 1
    post: _
    """
    _set_cap(_PIPE, cap)
    _set_decode(_PIPE, _FACTORY_DECODE)
    _Dec.plain, _Dec.undecodable = b"", False
    req = _mk_req(_RPC_PATH, data, has_cl, cl, dechunked, _G.value if gzip else None)
    status, _handed = _run(_PIPE, req)
    # Falcon runs every process_response, also after a refusal: the factory registers the drain middleware
    mwm._DrainRequestMiddleware.process_response(_DRAIN[0], req, None, None, status == 200)  # type: ignore[arg-type]
    if _MODEL_ERRORS:
        raise HarnessModelError(_MODEL_ERRORS[0])
    # no single object larger than the cap plus a bounded chunk of request body was ever created, refused or not
    return not over_pulled(req.bounded_stream, cap, req.bounded_stream.biggest)


# ---------------------------------------------------------------------------
# end to end: middlewares + the real decoder loops (codec stubs only) — what gets materialised
# ---------------------------------------------------------------------------


class _FrameStream:
    """bounded_stream of a request whose body is one compressed frame of ``wire`` bytes (opaque to the harness)."""

    def __init__(self, frame: object, wire: int) -> None:
        self._frame, self._wire, self._done = frame, wire, False
        self.pulled = 0
        self.biggest = 0

    def __getattr__(self, name: str) -> object:
        raise _model_error(f"stream stub has no {name}")

    def read(self, size: int | None = None) -> object:
        if self._done:
            return b""
        if size is not None and 0 <= size < self._wire:
            raise _model_error("partial read of the opaque frame")  # (Content-Length is present and within the cap here)
        self._done = True
        self.pulled += self._wire
        self.biggest = self._wire
        return self._frame

    def exhaust(self, chunk_size: int = 65536) -> None:
        self._done = True


def _decoder_end_to_end(frame: object, n: int, plain: bytes, wire: int, cap: int, pend: int, quantum: int, lying: bool, declared: int) -> bool:
    _set_cap(_PIPE, cap)
    _set_decode(_PIPE, _FACTORY_DECODE)
    rec = c18.reset_rec(cap, pend=pend, quantum=quantum)
    codec = frame.codec  # type: ignore[attr-defined]
    frame.wire = wire  # type: ignore[attr-defined]
    req = _Req(_RPC_PATH, wire, _FrameStream(frame, wire), codec)  # type: ignore[arg-type]
    with c18.stub_zstandard():
        status, handed = _run(_PIPE, req, comp_real_decoder)
    if _MODEL_ERRORS:
        raise HarnessModelError(_MODEL_ERRORS[0])
    # whatever the answer: the codec was never asked for "everything", and never produced / allocated more than the cap
    # plus one chunk (plus what zlib was already holding)
    if c18.over_materialised(rec, cap, pend):
        return False
    if wire > cap:
        return status == 413
    if lying:
        # undecodable; 413 is as good when the header or the decodable blocks alone are over the cap
        return status == 400 or (status == 413 and (declared > cap or n > cap))
    if n > cap:
        return status == 413
    return status == 200 and handed == plain


_SHIFT = c18._REAL_CHUNK  # replays add one real chunk to every decoded length so that a real frame fits under the cap on the wire


def _real_mw_metered(enc: object, body: bytes, cap: int) -> tuple[int, bytes | None, object]:
    """Factory middlewares + real decompress loops + real zlib/zstandard behind recording proxies."""
    import sys

    m = c18._Meter(cap)
    gz = reglobalize(cod._decompress_body_gzip, zlib=c18._MeterZlib(m))
    dec = reglobalize(cod.decompress, _decompress_body_gzip=gz)
    proc = reglobalize(mwm._CompressionMiddleware.process_request, _decompress_with_encoding=dec)
    app = _build_app(cap)
    env = falcon.testing.create_environ(path=_RPC_PATH, method="POST", body=body, headers={"Content-Encoding": enc.value})  # type: ignore[attr-defined]
    req = falcon.Request(env)
    saved = sys.modules.get("zstandard")
    sys.modules["zstandard"] = c18._meter_zstd_module(m)
    try:
        for _k, mw, _ in _pipeline_any(app):
            if isinstance(mw, mwm._CompressionMiddleware):
                proc(mw, req, falcon.Response())
            else:
                mw.process_request(req, falcon.Response())
        return 200, bytes(rsp._get_request_stream(req).read()), m
    except falcon.HTTPContentTooLarge:
        return 413, None, m
    except falcon.HTTPUnsupportedMediaType:
        return 415, None, m
    except falcon.HTTPBadRequest:
        return 400, None, m
    finally:
        if saved is not None:
            sys.modules["zstandard"] = saved


def _replay_decoder(codec: str, args: dict) -> str | None:
    enc = _G if codec == "gzip" else _Z
    mode = args.get("size_mode", 0)
    cap0 = args["cap"]
    # the counterexample's decoded length first, then its neighbours just over the cap (a stub-level failure "asked for
    # everything while input remained" needs output left to inflate before real zlib makes that call)
    if codec == "zstd" and mode == 3:
        # a header that lies about the blocks: decided on the real decoder functions (real zstandard, header-patched frame)
        r = c18._replay_cap(_Z, args["plain"], cap0, 3, args["lie"])
        if r:
            return r
    for n0 in (len(args["plain"]), cap0 + 1, cap0 + c18._CHUNK + 1):
        r = _replay_decoder_one(codec, enc, 0 if mode == 3 else mode, args, n0, cap0)
        if r:
            return r
    return _replay_decoder_bombs(codec, enc, 0 if mode == 3 else mode, c18._lift(cap0) + _SHIFT)


def _replay_decoder_bombs(codec: str, enc: object, mode: int, cap: int) -> str | None:
    """What a decoder that lost its bound does with it: small on the wire, the cap plus four chunks once decoded —
    one frame of the counterexample's kind, and (zstd) a small honest frame followed by a second frame."""
    n = cap + 4 * c18._REAL_CHUNK
    zeros = b"\x00" * n
    bodies = [(f"{enc.value} frame decoding to {n} bytes", cod.compress(_G, zeros) if codec == "gzip" else c18.real_zstd_frame(zeros, mode))]  # type: ignore[attr-defined]
    if codec == "zstd":
        bodies.append((f"zstd frame declaring 5 bytes followed by a second frame decoding to {n} bytes", _real_zstd.ZstdCompressor().compress(b"hello") + _real_zstd.ZstdCompressor().compress(zeros)))
    for label, body in bodies:
        if body is None or len(body) > cap:
            continue
        status, handed, m = _real_mw_metered(enc, body, cap)
        what = f"max_request_bytes={cap}, Content-Encoding: {enc.value}, {len(body)}-byte {label}"  # type: ignore[attr-defined]
        if status == 200 and len(handed or b"") > cap:
            return f"{what}: {len(handed or b'')} decoded bytes reach the RPC layer instead of a 413"
        if m.over():  # type: ignore[attr-defined]
            return f"{what}: answered {status} after materialising {m.produced} decoded bytes (one-shot allocation {m.alloc}){m.unlimited}"  # type: ignore[attr-defined]
        if status not in (413, 400, 200):
            return f"{what}: answered {status}"
    return None


def _replay_decoder_one(codec: str, enc: object, mode: int, args: dict, n0: int, cap0: int) -> str | None:
    for lifted in (True, False):
        n = (c18._lift(n0) if lifted else n0) + _SHIFT
        cap = (c18._lift(cap0) if lifted else cap0) + _SHIFT
        plain = c18._stretch(args["plain"] or b"\x00", n)
        if codec == "gzip":
            body = cod.compress(_G, plain)
            label = "gzip member"
        else:
            body = c18.real_zstd_frame(plain, mode)
            label = "size-declaring zstd frame" if mode == 0 else "size-less zstd frame"
        if body is None or len(body) > cap:
            continue
        status, handed, m = _real_mw_metered(enc, body, cap)
        what = f"max_request_bytes={cap}, Content-Encoding: {enc.value}, {len(body)}-byte {label} decoding to {n} bytes"
        want = 200 if n <= cap else 413
        if status != want or (status == 200 and handed != plain):
            return f"{what}: answered {status}, expected {want}"
        if m.over():  # type: ignore[attr-defined]
            return f"{what}: answered {status} after materialising {m.produced} decoded bytes (one-shot allocation {m.alloc}){m.unlimited}"  # type: ignore[attr-defined]
    return None


_ND = pick(8, 12)


@cond(q=60, t=300, stubs=_STUBS[1:] + c18._STUB_TEXT[:1] + c18._STUB_TEXT[2:],
      encoded=[mwm._MaxRequestBytesMiddleware.process_request, mwm._CompressionMiddleware.process_request, cod.decompress, cod._decompress_body_gzip],
      bound=f"gzip member of any wire size 0..{_ND + 2} decoding to any n<={_ND} bytes, cap 0..{_ND + 2}, zlib pending output pend<={c18._P}, chunk {c18._CHUNK}",
      replay=lambda a: _replay_decoder("gzip", a), signature=lambda a, c: "C17:gzip-decoder-materialises-beyond-cap")
def gzip_request_decoding_is_bounded(plain: bytes, wire: int, cap: int, pend: int) -> bool:
    """
    pre: len(plain) <= _ND and 0 <= wire <= _ND + 2 and 0 <= cap <= _ND + 2 and 0 <= pend <= c18._P
    post: _
    """
    return _decoder_end_to_end(c18._Frame("gzip", plain), len(plain), plain, wire, cap, pend, 1 << 30, False, -1)


@cond(q=60, t=300, stubs=_STUBS[1:] + c18._STUB_TEXT[1:],
      encoded=[mwm._MaxRequestBytesMiddleware.process_request, mwm._CompressionMiddleware.process_request, cod.decompress, cod._decompress_body_zstd, cod._zstd_content_size],
      bound=f"zstd frame of any wire size 0..{_ND + 2} decoding to any n<={_ND} bytes, cap 0..{_ND + 2}, declared size n|-1|2**64-1|a lie 0..255, short-read quantum 1..{c18._CHUNK + 1}, chunk {c18._CHUNK}",
      replay=lambda a: _replay_decoder("zstd", a), signature=lambda a, c: "C17:zstd-lying-content-size" if a.get("size_mode") == 3 else "C17:zstd-decoder-materialises-beyond-cap")
def zstd_request_decoding_is_bounded(plain: bytes, wire: int, cap: int, size_mode: int, lie: int, quantum: int) -> bool:
    """
    pre: len(plain) <= _ND and 0 <= wire <= _ND + 2 and 0 <= cap <= _ND + 2 and 0 <= size_mode <= 3 and 0 <= lie <= 255 and lie != len(plain) and 1 <= quantum <= c18._CHUNK + 1
    post: _
    """
    n = len(plain)
    declared = n if size_mode == 0 else (-1 if size_mode == 1 else (c18._UNKNOWN if size_mode == 2 else lie))
    return _decoder_end_to_end(c18._Frame("zstd", plain, declared=declared), n, plain, wire, cap, 0, quantum, size_mode == 3, declared)


def _truncated(codec: str, plain: bytes, m: int, has_cap: bool, cap: int, declared: int, pend: int) -> bool:
    c = cap if has_cap else None
    c18.reset_rec(c, pend=pend)
    frame = c18._Frame(codec, plain[:m], declared=declared, truncated=True)
    with c18.stub_zstandard():
        try:
            c18.decompress_stubbed(_G if codec == "gzip" else _Z, frame, max_output_size=c)
        except cod.DecompressionLimitExceeded:
            # acceptable only when the decodable prefix alone, or the size the header declares, is over the cap
            return c is not None and (m > c or (declared >= 0 and declared != c18._UNKNOWN and declared > c))
        except HarnessModelError:
            raise
        except Exception:  # noqa: BLE001  undecodable -> 400 by decode_outcome_mapping
            return True
    return False  # bytes were returned for a frame that never ended


@cond(q=60, t=300, stubs=c18._STUB_TEXT[:1] + c18._STUB_TEXT[2:] + ["truncated gzip member := delivers a prefix of m bytes, decompressobj.eof stays False"],
      encoded=[cod.decompress, cod._decompress_body_gzip], bound=f"plaintext len<={c18._N}, cut after any m<=n decodable bytes, cap None|0..{c18._N + 2}, pend<={c18._P}",
      replay=lambda a: _replay_truncated("gzip", a), signature=lambda a, c: "C17:gzip-truncated-member-accepted")
def truncated_gzip_member_is_refused(plain: bytes, m: int, has_cap: bool, cap: int, pend: int) -> bool:
    """
    pre: len(plain) <= c18._N and 0 <= m <= len(plain) and 0 <= cap <= c18._N + 2 and 0 <= pend <= c18._P
    post: _
    """
    return _truncated("gzip", plain, m, has_cap, cap, -1, pend)


@cond(q=60, t=300, stubs=c18._STUB_TEXT[1:] + ["truncated zstd frame := header intact; reader delivers a prefix of m bytes then b''; one-shot API raises ZstdError"],
      encoded=[cod.decompress, cod._decompress_body_zstd, cod._zstd_content_size], bound=f"plaintext len<={c18._N}, cut after any m<=n decodable bytes, cap None|0..{c18._N + 2}, declared n|-1|2**64-1",
      replay=lambda a: _replay_truncated("zstd", a), signature=lambda a, c: "C17:zstd-truncated-stream-accepted")
def truncated_zstd_frame_is_refused(plain: bytes, m: int, has_cap: bool, cap: int, size_mode: int) -> bool:
    """
    pre: len(plain) <= c18._N and 0 <= m <= len(plain) and 0 <= cap <= c18._N + 2 and 0 <= size_mode <= 2
    post: _
    """
    declared = len(plain) if size_mode == 0 else (-1 if size_mode == 1 else c18._UNKNOWN)
    return _truncated("zstd", plain, m, has_cap, cap, declared, 0)
