"""C05 — malformed (but well-framed) requests never silently kill or hang a connection.

Partial (DESIGN section 3): the *metadata half* of the request path, on real bytecode.

``_read_request`` (vgi_rpc/rpc/_wire.py) re-globalised so that the Arrow reader is a stub yielding
one fake batch (row count 0..3, 0..2 columns) + a **symbolic** custom-metadata mapping (presence
and value of every framework key the function reads), ``resolve_shm_batch`` (vgi_rpc/shm.py)
re-globalised over a fake segment, ``_maybe_attach_shm`` / ``_ConnectionShm.refresh``
(vgi_rpc/rpc/_server.py) re-globalised with ``ShmSegment.attach`` := "returns a segment or raises
FileNotFoundError | PermissionError | ValueError | OSError | struct.error" (the documented behaviour
of ``SharedMemory(name=...)`` and of the header validation).

Asserted: only ``RpcError`` / ``VersionError`` (typed, answered by ``serve_one`` which then keeps
serving) or a normal return leave ``_read_request`` — plus ``pa.ArrowInvalid`` when, and only
when, the Arrow stub itself reports undecodable bytes (answered, then the loop ends: allowed by
the property).  Nothing but a return leaves ``_maybe_attach_shm`` / ``refresh`` (``serve_one``
calls them unguarded after validation), and whatever ``refresh`` leaves in the connection's cache
still lets the next (pointer) request be answered.  *Which* of the two allowed answers a request
gets (accept vs. typed refusal), the cache policy, attach counts and resource accounting are not
asserted — C05 does not state them.  The exception classes the serve loop survives are re-read
from the live source of ``RpcServer.serve`` / ``serve_one`` by a task that also sends the two typed-error
requests to the real server, so the "answered" set used here cannot drift from the code.

Real replays: always a real ``RpcServer.serve`` over ``os.pipe()``s — the crafted request (after the
earlier requests of its history, if any) must be answered with a complete IPC stream, and a follow-up
``add(1, 1)`` on the same connection must get *its own result* (reply streams are parsed, not counted).
"""

from __future__ import annotations

import ast
import inspect
import os
import struct
import textwrap
import time

import pyarrow as pa

from engine.api import HarnessModelError, cond, task
from engine.reglob import reglobalize

from vgi_rpc import metadata as md
from vgi_rpc.log import Level
from vgi_rpc import shm as shm_mod
from vgi_rpc.rpc import _server as srv
from vgi_rpc.rpc import _wire as wire
from vgi_rpc.rpc._common import RpcError, TransportKind, VersionError
from vgi_rpc.utils import IPCError as _IPCError
from vgi_rpc.utils import IpcValidation

PROPERTY = "C05"
ENCODED = [wire._read_request, shm_mod.resolve_shm_batch, shm_mod.is_shm_pointer_batch, shm_mod.ShmSegment.read_buffer, shm_mod.ShmSegment.free, shm_mod.ShmSegment.close, srv._maybe_attach_shm, srv._ConnectionShm.refresh, srv.RpcServer.serve_one, srv.RpcServer.serve]
BOUNDS = (
    "one request batch; metadata = None | mapping with symbolic presence of vgi_rpc.method / request_version / traceparent / tracestate / "
    "shm_segment_name / shm_segment_size / shm_offset / shm_length / log_level, byte values any bytes len<=3 (incl. non-UTF-8), numeric values "
    "(segment size, offset, length) = 'int() accepts -> any int' | 'int() rejects'; rows 0..3; columns 0..2; attach outcome in {segment, "
    "FileNotFoundError, PermissionError, ValueError, OSError, struct.error}; region decode in {ok, ArrowInvalid}; free in {ok, ValueError}; "
    "batch contents: reading the request batch in {ok, IPCError = contents fail validation}, 0..1 trailing valid batch, parameter value conversion "
    "(as_py) of either column in {ok, OverflowError, ValueError, ArrowInvalid, UnicodeDecodeError, ArrowIndexError}"
)
OUTSIDE = (
    "truncated / corrupted byte strings and what the Arrow C++ reader decides about framing (column contents enter as the two fault sites "
    "'validation of the request batch' and 'value conversion', with the exception classes observed on real pyarrow 25 over temporal, decimal, string, "
    "dictionary, nested, union, view and extension types); request streams with more than one batch where a trailing batch fails validation "
    "(outside the quantifier; item behind VERIF_C05_MULTIBATCH=1); the dispatch half of serve_one "
    "after _read_request (method lookup, parameter validation: C06/C04); external-location pointer requests; real POSIX shm semantics beyond "
    "the attach contract; segment CONTENTS (a pointer may name any bytes: modelled as decode ok | ArrowInvalid | OSError | StopIteration) (replays stage every attach outcome with real POSIX segments except PermissionError, which cannot be provoked as root); whether ending the connection on ArrowInvalid from a shm region (answered) is acceptable is taken from the property text"
)
ASSUMPTIONS = [
    "int(<bytes>) := returns some int or raises ValueError; int(None) raises TypeError (C-level parser; CrossHair realises int(symbolic bytes))",
    "ShmSegment.attach := returns a segment | raises FileNotFoundError | PermissionError | ValueError | OSError | struct.error (segment smaller than the header)",
    "the Arrow reader yields exactly one batch then StopIteration (well-framed single-batch request stream)",
    "typed errors RpcError / VersionError raised by _read_request are answered by serve_one and the loop continues (checked against the live source and, with two real requests, against the real server by serve_loop_answers_typed_errors)",
    "read_request_shm_pointer_real_segment runs the real ShmSegment class (read_buffer / free / close) over a modelled mapping: SharedMemory.buf := "
    "memoryview of symbolic size with Python's slice semantics (clamping; negative indices from the end), pa.py_buffer := identity on a slice, "
    "allocator.free := ok | ValueError, an empty region never decodes",
    "a closed ShmSegment fails untyped when used (real class: ``assert buf is not None`` in read_buffer); the fake segment does the same",
]

# ---------------------------------------------------------------------------
# symbolic metadata mapping, fake batch, fake reader
# ---------------------------------------------------------------------------

_KEYS = {
    "method": md.RPC_METHOD_KEY,
    "version": md.REQUEST_VERSION_KEY,
    "tp": md.TRACEPARENT_KEY,
    "ts": md.TRACESTATE_KEY,
    "seg_name": md.SHM_SEGMENT_NAME_KEY,
    "seg_size": md.SHM_SEGMENT_SIZE_KEY,
    "off": md.SHM_OFFSET_KEY,
    "len": md.SHM_LENGTH_KEY,
    "log": md.LOG_LEVEL_KEY,
}


class _Num:
    """Opaque wire bytes of a numeric metadata value: only int() looks inside (contract stub)."""

    def __init__(self, ok: bool, value: int) -> None:
        self.ok, self.value = ok, value

    def __repr__(self) -> str:
        return "b'<num>'"


def _int_contract(x: object = 0, *a: object) -> int:
    if isinstance(x, _Num):
        if x.ok:
            return x.value
        raise ValueError("invalid literal for int() with base 10")
    if x is None:
        raise TypeError("int() argument must be a string, a bytes-like object or a real number, not 'NoneType'")
    if isinstance(x, int) and not a:
        return x
    raise HarnessModelError("int() of a value the contract stub does not model")


class _MD:
    """Stand-in for pa.KeyValueMetadata: linear lookup over a fixed key list, symbolic presence/values."""

    def __init__(self, entries: list[tuple[bytes, bool, object]], other_keys: bool) -> None:
        self._entries = entries
        self._other = other_keys

    def get(self, key: bytes, default: object = None) -> object:
        for k, present, value in self._entries:
            if k == key:
                return value if present else default
        return default

    def __bool__(self) -> bool:
        if self._other:
            return True
        for _k, present, _v in self._entries:
            if present:
                return True
        return False

    def __getattr__(self, name: str) -> object:
        raise HarnessModelError(f"metadata mapping used through .{name}")


def _conv_errors() -> list:
    """What ``Scalar.as_py()`` raises on real pyarrow for a value Python cannot represent, by column type (each one
    observed on the real library: timestamp/date/duration/time out of range, timestamp[ns] out of range, unknown time
    zone, invalid UTF-8 below full validation, dictionary index out of bounds below full validation)."""
    return [None, OverflowError("date value out of range"), ValueError("year 292277026596 is out of range"),
            pa.ArrowInvalid("Cannot locate timezone 'No/Such_Zone'"), UnicodeDecodeError("utf-8", b"\xff", 0, 1, "invalid start byte"),
            pa.ArrowIndexError("tried to refer to element 5 but array is only 1 long")]


class _Scalar:
    def __init__(self, col: int = -1) -> None:
        self.col = col

    def as_py(self) -> int:
        k = _H.get("conv_fault", 0)
        if k and self.col == _H.get("conv_col", 0):
            raise _conv_errors()[k]
        return 7


class _Field:
    def __init__(self, name: str) -> None:
        self.name = name
        self.type = "int64"


class _Batch:
    def __init__(self, ncols: int, nrows: int) -> None:
        self.schema = [_Field("a"), _Field("b")][:ncols]
        self.num_rows = nrows

    def column(self, i: int) -> list[_Scalar]:
        if self.num_rows < 1:
            raise IndexError("index out of bounds")  # what pyarrow raises for [0] of an empty column
        return [_Scalar(i)]

    def __getattr__(self, name: str) -> object:
        raise HarnessModelError(f"batch used through .{name}")


_H: dict = {}


class _Reader:
    """ValidatedReader stand-in: one (batch, metadata) pair, then StopIteration."""

    def __init__(self, raw: object, validation: object) -> None:
        self.n = 0
        self.eos = False  # the stream's end marker has been read (the transport is aligned for the next request)
        _H["reader"] = self

    def _next(self) -> None:
        """Position bookkeeping shared by both read methods; raises what the real ValidatedReader raises.
        ``read_fault``: the request batch is well framed but its contents fail validation (IPCError: the message has
        been consumed, the stream goes on).  ``trailing``: one more, valid, batch follows the request batch."""
        self.n += 1
        total = 0 if _H.get("no_batch") else 1 + _H.get("trailing", 0)
        if self.n > total:
            self.eos = True
            raise StopIteration  # a well-framed stream may hold schema + EOS and no batch at all
        if (self.n == 1 and _H.get("read_fault")) or (self.n == 2 and _H.get("trailing_invalid")):
            raise _IPCError("IPC batch validation failed: In column 0: Invalid: date64[ms] 5 does not represent a whole number of days")

    def read_next_batch_with_custom_metadata(self) -> tuple[_Batch, object]:
        self._next()
        return _H["batch"], (_H["md"] if self.n == 1 else None)

    def read_next_batch(self) -> _Batch:
        self._next()
        return _H["batch"]

    def __getattr__(self, name: str) -> object:
        raise HarnessModelError(f"request reader used through .{name}")


class _IpcNS:
    @staticmethod
    def open_stream(src: object) -> object:
        return src

    def __getattr__(self, name: str) -> object:
        raise HarnessModelError(f"ipc.{name} is not modelled")


class _ClosedSegmentUse(AssertionError):
    """What using a closed ShmSegment amounts to on the real class (an untyped failure)."""


class _Seg:
    """Fake ShmSegment: counts free/close; free may raise ValueError (no allocation at that offset)."""

    name = "seg"

    def __init__(self, free_raises: bool = False, size: int = 0) -> None:
        self.freed: list[object] = []
        self.closed = 0
        self.free_raises = free_raises
        self.size = size

    def read_buffer(self, offset: int, length: int) -> tuple:
        if self.closed:
            # the real segment has no buffer any more (``assert buf is not None`` / subscript of None)
            raise _ClosedSegmentUse("read_buffer on a segment that has been closed")
        return ("region", offset, length)

    def free(self, offset: int) -> None:
        self.freed.append(offset)
        if self.free_raises:
            raise ValueError("No allocation at offset")

    def close(self) -> None:
        self.closed += 1

    def __getattr__(self, name: str) -> object:
        raise HarnessModelError(f"segment used through .{name}")


def _deser_stub(buf: object, schema: object) -> _Batch:
    if not _H["decode_ok"]:
        k = _H.get("decode_fail", 0)
        if k == 1:
            raise OSError("Invalid IPC stream: negative continuation token")  # observed on garbage regions
        if k == 2:
            raise StopIteration  # the region holds a stream with no batch: read_next_batch()
        raise pa.ArrowInvalid("Invalid IPC stream")
    if isinstance(buf, _Region) and buf.stop <= buf.start:
        # an empty region cannot hold an IPC stream whatever the solver chose for its contents
        raise pa.ArrowInvalid("Tried reading schema message, was null or length 0")
    return _Batch(len(schema), _H["resolved_rows"])  # type: ignore[arg-type]


# --- the REAL ShmSegment class over a modelled mapping --------------------------------------------------------
# ``ShmSegment.read_buffer`` / ``free`` / ``close`` / ``name`` are the repository's own bytecode; what is modelled is
# the memory under them: ``SharedMemory.buf`` as a memoryview of symbolic size with Python's documented slice
# semantics (clamping, negative indices count from the end), ``pa.py_buffer`` as the identity on a slice of it, and
# the allocator's ``free`` as ok | ValueError.


class _Region:
    """A slice ``buf[start:stop]`` of the modelled mapping, bounds already clamped to it (``stop <= start``: empty)."""

    def __init__(self, start: int, stop: int) -> None:
        self.start, self.stop = start, stop

    def __getattr__(self, name: str) -> object:
        raise HarnessModelError(f"shm region used through .{name}")


class _Mem:
    """memoryview stand-in: ``len()`` and slicing only (Python slice semantics for step 1)."""

    def __init__(self, size: int) -> None:
        self._size = size

    def __len__(self) -> int:
        return self._size

    def __getitem__(self, key: object) -> _Region:
        if not isinstance(key, slice) or key.step is not None:
            raise HarnessModelError("modelled mapping supports plain slices only")
        n = self._size

        def clamp(v: object, default: int) -> int:
            if v is None:
                return default
            if v < 0:  # type: ignore[operator]
                v = v + n  # type: ignore[operator]
                return 0 if v < 0 else v
            return n if v > n else v  # type: ignore[operator,return-value]

        return _Region(clamp(key.start, 0), clamp(key.stop, n))

    def __getattr__(self, name: str) -> object:
        raise HarnessModelError(f"modelled mapping used through .{name}")


class _FakeShm:
    """multiprocessing.shared_memory.SharedMemory stand-in: buf / name / size / close()."""

    def __init__(self, size: int) -> None:
        self.buf: object = _Mem(size)
        self.name = "seg"
        self.size = size
        self.closed = 0

    def close(self) -> None:
        self.closed += 1
        self.buf = None

    def __getattr__(self, name: str) -> object:
        raise HarnessModelError(f"SharedMemory stand-in used through .{name}")


class _FakeAllocator:
    """ShmAllocator contract: free(offset) succeeds or raises ValueError (no allocation at that offset)."""

    def __init__(self, free_raises: bool) -> None:
        self.free_raises = free_raises
        self.freed: list[object] = []
        self._buf: object = None  # (ShmSegment.close() drops the allocator's view of the mapping)

    def free(self, offset: int) -> None:
        self.freed.append(offset)
        if self.free_raises:
            raise ValueError("No allocation at offset")

    def __getattr__(self, name: str) -> object:
        raise HarnessModelError(f"allocator stand-in used through .{name}")


class _PaBufNS:
    @staticmethod
    def py_buffer(obj: object) -> object:
        if isinstance(obj, _Region):
            return obj
        raise HarnessModelError("pa.py_buffer of something that is not a slice of the modelled mapping")

    def __getattr__(self, name: str) -> object:
        raise HarnessModelError(f"pa.{name} is not modelled inside ShmSegment.read_buffer")


class _RealSeg(shm_mod.ShmSegment):
    """The repository's ShmSegment (real free / close / name), read_buffer re-globalised onto the ``pa`` stand-in."""

    read_buffer = reglobalize(shm_mod.ShmSegment.read_buffer, **({"pa": _PaBufNS()} if "pa" in shm_mod.ShmSegment.read_buffer.__code__.co_names else {}))


_resolve = reglobalize(
    shm_mod.resolve_shm_batch,
    int=_int_contract,
    _deserialize_from_shm=_deser_stub,
    strip_keys=lambda m, *k: m,
    merge_metadata=lambda *m: m[0],
)

_read_request = reglobalize(wire._read_request, ValidatedReader=_Reader, ipc=_IpcNS(), resolve_shm_batch=_resolve)


class _AttachNS:
    @staticmethod
    def attach(name: str, size: int, *, track: bool = True) -> _Seg:
        k = _H["attach"]
        _H["attach_calls"] = _H.get("attach_calls", 0) + 1
        if k == 1:
            raise FileNotFoundError(2, "No such file or directory")
        if k == 2:
            raise PermissionError(13, "Permission denied")
        if k == 3:
            raise ValueError("Bad SHM magic")
        if k == 4:
            raise OSError(22, "Invalid argument")
        if k == 5:
            raise struct.error("unpack_from requires a buffer of at least 24 bytes")  # foreign segment smaller than the header
        seg = _Seg(_H.get("free_raises", False))
        _H["attached"] = seg
        return seg

    def __getattr__(self, name: str) -> object:
        raise HarnessModelError(f"ShmSegment.{name} is not modelled")


_maybe_attach = reglobalize(srv._maybe_attach_shm, ShmSegment=_AttachNS(), int=_int_contract)


class _Conn:
    """Carrier for the real _ConnectionShm methods (refresh re-globalised onto the stubbed attach)."""

    __slots__ = ("name", "segment")

    def __init__(self, segment: object, name: object) -> None:
        self.segment = segment
        self.name = name

    refresh = reglobalize(
        srv._ConnectionShm.refresh,
        _maybe_attach_shm=_maybe_attach,
        **({"int": _int_contract} if "int" in srv._ConnectionShm.refresh.__code__.co_names else {}),
    )
    close = srv._ConnectionShm.close


_KINDS = [None, TransportKind.PIPE, TransportKind.UNIX, TransportKind.HTTP, TransportKind.TCP]

_STUB_READER = "ValidatedReader / ipc.open_stream := one fake batch (0..2 columns, 0..3 rows) + symbolic metadata mapping, then StopIteration"
_STUB_INT = "int := contract stub (any int | ValueError; TypeError on None) for numeric metadata values"
_STUB_ATTACH = "ShmSegment.attach := segment | FileNotFoundError | PermissionError | ValueError | OSError | struct.error (each observed on the real function)"
_STUB_RESOLVE = "_deserialize_from_shm := fake batch | pa.ArrowInvalid; strip_keys / merge_metadata := opaque; segment := fake (read_buffer token, free ok | ValueError, close)"


_WHY = {"why": ""}  # what the condition objected to on its last run (names the finding; read after the concrete re-run)


def _fail(reason: str) -> bool:
    _WHY["why"] = reason
    return False


def _sig(prefix: str, default: str) -> str:
    return prefix + (_WHY["why"] or default)


def _reset() -> None:
    _WHY["why"] = ""
    _H.clear()
    wire._current_request_batch.set(None)
    wire._current_request_metadata.set(None)
    wire._current_trace_headers.set(None)
    wire._current_request_param_schema.set(None)


def _entry(key: str, present: bool, value: object) -> tuple[bytes, bool, object]:
    return (_KEYS[key], present, value)


def _classify(exc: BaseException | None) -> str:
    if exc is None:
        return "return"
    if isinstance(exc, (RpcError, VersionError)):
        return "typed"
    if isinstance(exc, pa.ArrowInvalid):
        return "arrow"
    return "other"


# ---------------------------------------------------------------------------
# real replay: in-process pipe pair, the malformed request, then a normal call
# ---------------------------------------------------------------------------


def _req_schema(ncols: int):
    fields = [pa.field("a", pa.int64(), nullable=False), pa.field("b", pa.int64(), nullable=False)][:ncols]
    return fields, pa.schema(fields)


def _request_bytes(extra: dict[bytes, bytes] | None, nrows: int, ncols: int, none_md: bool = False) -> bytes:
    """A well-framed single-batch Arrow IPC request stream with full control over the custom metadata."""
    from vgi_rpc.utils import new_ipc_stream

    fields, schema = _req_schema(ncols)
    batch = pa.RecordBatch.from_arrays([pa.array([1] * nrows, type=pa.int64()) for _ in fields], schema=schema) if fields else pa.RecordBatch.from_pylist([{}] * nrows, schema=schema)
    sink = pa.BufferOutputStream()
    with new_ipc_stream(sink, schema) as w:
        if none_md:
            w.write_batch(batch)
        else:
            w.write_batch(batch, custom_metadata=pa.KeyValueMetadata(dict(extra or {})))
    return sink.getvalue().to_pybytes()


_REPLY_TIMEOUT_S = 10.0  # only ever waited out when the server neither answers nor dies (the hang this property is about)
_EOS = b"\xff\xff\xff\xff\x00\x00\x00\x00"


def _complete_streams(data: bytes) -> list:
    """The complete Arrow IPC streams (schema .. explicit end-of-stream marker) at the start of *data*, each as a
    list of (batch, custom_metadata).  Stops at the first incomplete / undecodable stream."""
    out: list = []
    src = pa.BufferReader(data)
    while src.tell() < len(data):
        items = []
        try:
            r = pa.ipc.open_stream(src)
            while True:
                try:
                    items.append(r.read_next_batch_with_custom_metadata())
                except StopIteration:
                    break
        except Exception:  # noqa: BLE001
            break
        pos = src.tell()
        if data[pos - len(_EOS):pos] != _EOS:
            break  # ran into the end of what has arrived so far, not into the stream's own end marker
        out.append(items)
    return out


def _is_add_answer(stream: list) -> bool:
    """Is this reply the result of add(1, 1)?  (log batches, if any, are skipped)"""
    for batch, _cm in stream:
        if batch.num_rows == 1 and batch.num_columns == 1:
            try:
                if batch.column(0)[0].as_py() == 2:
                    return True
            except Exception:  # noqa: BLE001
                return False
    return False


def _describe_reply(stream: list) -> str:
    for batch, cm in stream:
        if cm is not None and cm.get(md.LOG_LEVEL_KEY) is not None:
            msg = cm.get(md.LOG_MESSAGE_KEY) if hasattr(md, "LOG_MESSAGE_KEY") else None
            return f"an error/log batch ({bytes(cm.get(md.LOG_LEVEL_KEY))!r}: {bytes(msg)[:160]!r})" if msg is not None else "an error/log batch"
    return f"{len(stream)} batch(es) that are not its result"


def _serve_and_observe(extra_md: dict[bytes, bytes], rows: int, ncols: int = 2, static_region: str | None = None, md_none: bool = False, expect_survive: bool = True,
                       prelude: list | None = None, raw_request: bytes | None = None, validation: object = None) -> str | None:
    """Send one crafted request to a real RpcServer.serve() over os.pipe()s, then a normal call.

    *prelude*: metadata dicts of ordinary one-row calls sent (and required to be answered) first, on the
    same connection — the earlier part of a request history.  *raw_request*: the crafted request's bytes.

    Returns a description when the server neither answers nor keeps serving (silent death / hang).
    """
    import os
    import select
    import threading
    from typing import Protocol

    from vgi_rpc.rpc import RpcServer
    from vgi_rpc.rpc._transport import ShmPipeTransport, make_pipe_pair

    class Svc(Protocol):
        def add(self, a: int, b: int) -> int: ...

    class Impl:
        def add(self, a: int, b: int) -> int:
            return a + b

    fields, schema = _req_schema(ncols)

    def request(extra: dict[bytes, bytes] | None, nrows: int, none_md: bool = False) -> bytes:
        return _request_bytes(extra, nrows, ncols, none_md)

    seg = None
    extra_md = dict(extra_md)
    try:
        if static_region is not None:
            seg = shm_mod.ShmSegment.create(shm_mod.HEADER_SIZE + 262144)
            if static_region in ("valid", "stale"):
                full = pa.RecordBatch.from_arrays([pa.array([1], type=pa.int64()) for _ in fields], schema=schema)
                res = seg.allocate_and_write(full)
                assert res is not None
                if static_region == "stale":
                    seg.free(res[0])  # bytes still decode, but the table has no entry at that offset
                extra_md[md.SHM_OFFSET_KEY] = str(res[0]).encode()
                extra_md[md.SHM_LENGTH_KEY] = str(res[1]).encode()
        server = RpcServer(Svc, Impl()) if validation is None else RpcServer(Svc, Impl(), ipc_validation=validation)
        client_t, server_t = make_pipe_pair()
        transport = ShmPipeTransport(server_t, seg) if seg is not None else server_t
        end: dict = {}

        def target() -> None:
            try:
                server.serve(transport)
                end["how"] = "serve() returned"
            except BaseException as e:  # noqa: BLE001
                end["how"] = f"serve() raised {type(e).__name__}: {e}"

        th = threading.Thread(target=target, daemon=True)
        th.start()
        fd = client_t.reader.fileno()

        got = bytearray()  # everything the server has written on this connection, in order

        def replies(want: int, timeout: float = _REPLY_TIMEOUT_S) -> list:
            """Read until *want* complete reply streams have arrived (a reply = one IPC stream), the server thread is
            gone and silent, or *timeout* passes without a complete reply.  Returns the complete streams so far."""
            deadline = time.monotonic() + timeout
            while True:
                done = _complete_streams(bytes(got))
                if len(done) >= want or time.monotonic() > deadline:
                    return done
                ready, _, _ = select.select([fd], [], [], 0.05)
                if ready:
                    chunk = os.read(fd, 1 << 20)
                    if not chunk:
                        return _complete_streams(bytes(got))
                    got.extend(chunk)
                elif not th.is_alive():
                    return done

        sent = 0
        for pmd in prelude or []:
            client_t.writer.write(_request_bytes(pmd, 1, 2))
            client_t.writer.flush()
            sent += 1
            if len(replies(sent)) < sent:
                return None  # the history itself is not served on this tree: not this scenario
        before = len(got)
        client_t.writer.write(raw_request if raw_request is not None else request(extra_md, rows, md_none))
        client_t.writer.flush()
        sent += 1
        answered = len(replies(sent)) >= sent
        any_bytes = len(got) > before
        followup = None
        if answered:
            good = {md.RPC_METHOD_KEY: b"add", md.REQUEST_VERSION_KEY: md.REQUEST_VERSION}
            try:
                client_t.writer.write(_request_bytes(good, 1, 2))
                client_t.writer.flush()
                r = replies(sent + 1)
                followup = r[sent] if len(r) > sent else None
            except OSError:
                followup = None
        th.join(0.2)
        alive = th.is_alive()
        try:
            client_t.close()
        except Exception:  # noqa: BLE001
            pass
        th.join(1.0)
        what = f"request (metadata {extra_md!r}, {rows} rows)" if raw_request is None else f"request ({len(raw_request)} raw bytes)"
        if not answered:
            return (
                f"no {'complete ' if any_bytes else ''}reply to the {what}; server thread: {end.get('how', 'still blocked')}; "
                f"follow-up call on the same connection: {'not possible, serve loop is gone' if not alive else 'not attempted'}"
            )
        if expect_survive and followup is None:
            return f"{what} answered but the connection did not survive it: follow-up call add(1, 1) got no reply; server thread: {end.get('how', 'still running')}"
        if expect_survive and not _is_add_answer(followup):
            return f"{what} answered but the connection is no longer usable: the follow-up call add(1, 1) was answered with {_describe_reply(followup)} instead of its own result"
        return None
    finally:
        if seg is not None:
            try:
                seg.close()
                seg.unlink()
            except Exception:  # noqa: BLE001
                pass


def _wire_num(present: bool, ok: bool, value: int) -> bytes | None:
    if not present:
        return None
    return str(int(value)).encode() if ok else b"x"


def _md_from_args(a: dict) -> dict[bytes, bytes]:
    out: dict[bytes, bytes] = {}

    def put(key: str, present: bool, value: bytes | None) -> None:
        if present and value is not None:
            out[_KEYS[key]] = bytes(value)

    put("method", a.get("has_method", True), a.get("method", b"add"))
    put("version", a.get("has_version", True), a.get("version", md.REQUEST_VERSION))
    put("tp", a.get("has_tp", False), a.get("tp"))
    put("ts", a.get("has_ts", False), a.get("ts"))
    put("seg_name", a.get("has_name", False), a.get("name"))
    put("seg_size", a.get("has_size", False), _wire_num(True, a.get("size_ok", True), a.get("size", 1)))
    put("off", a.get("has_off", False), _wire_num(True, a.get("off_ok", True), a.get("off", 0)))
    put("len", a.get("has_len", False), _wire_num(True, a.get("len_ok", True), a.get("length", 0)))
    put("log", a.get("has_log", False), Level.INFO.value.encode())
    return out


# ---------------------------------------------------------------------------
# (1) dispatch metadata: method / version / row & column counts
# ---------------------------------------------------------------------------


def _replay_dispatch(a: dict) -> str | None:
    rows, ncols, md_none = a.get("rows", 1), a.get("ncols", 2), a.get("md_none", False)
    # C05 is indifferent to *which* answer a request gets (a response or a typed error): the judgement is the real
    # server's — the request is answered, and the follow-up call on the same connection gets its own result.
    return _serve_and_observe(_md_from_args(a), rows, ncols, md_none=md_none)


@cond(q=60, t=240, stubs=[_STUB_READER], encoded=[wire._read_request], replay=_replay_dispatch,
      bound="metadata None | empty | {method, request_version} present/absent, values any bytes len<=3; rows 0..3; columns 0..2",
      signature=lambda args, conc: _sig("C05:read-request:", "untyped-exception"))
def read_request_method_version(md_none: bool, other_keys: bool, has_method: bool, method: bytes, has_version: bool, version: bytes, rows: int, ncols: int) -> bool:
    """
    pre: len(method) <= 3 and len(version) <= 3 and 0 <= rows <= 3 and 0 <= ncols <= 2
    post: _
    """
    _reset()
    _H["batch"] = _Batch(ncols, rows)
    _H["md"] = None if md_none else _MD([_entry("method", has_method, method), _entry("version", has_version, version)], other_keys)
    exc: BaseException | None = None
    out = None
    try:
        out = _read_request(object(), attach_shm=lambda m: _maybe_attach(m, TransportKind.PIPE))
    except Exception as e:  # noqa: BLE001
        exc = e
    kind = _classify(exc)
    if kind not in ("return", "typed"):
        return _fail("untyped-exception" if kind == "other" else "arrow-invalid-for-well-framed-request")
    if not _H["reader"].eos:
        # rejected or accepted, the request stream must have been read past its EOS: on a pipe the
        # reader is shared, left-over bytes would be parsed as the start of the next request
        return _fail("request-stream-not-drained")
    # Accepted or refused with a typed error: C05 allows either answer for any request (which requests are
    # *acceptable* is C06's question), so nothing more is asserted.
    return True


# ---------------------------------------------------------------------------
# (2) trace context keys
# ---------------------------------------------------------------------------


@cond(q=60, t=240, stubs=[_STUB_READER], encoded=[wire._read_request], replay=_replay_dispatch,
      bound="valid method/version; traceparent / tracestate present/absent, any bytes len<=3; rows 1; columns 0..2",
      signature=lambda args, conc: "C05:trace-context:non-utf8-escapes")
def read_request_trace_context(has_tp: bool, tp: bytes, has_ts: bool, ts: bytes, ncols: int) -> bool:
    """
    pre: len(tp) <= 3 and len(ts) <= 3 and 0 <= ncols <= 2
    post: _
    """
    _reset()
    _H["batch"] = _Batch(ncols, 1)
    _H["md"] = _MD([_entry("method", True, b"add"), _entry("version", True, md.REQUEST_VERSION), _entry("tp", has_tp, tp), _entry("ts", has_ts, ts)], False)
    try:
        _read_request(object())
    except (RpcError, VersionError):
        return True  # answered
    except Exception:  # noqa: BLE001
        return False
    return True  # accepted (what it is dispatched to is not C05's subject)


# ---------------------------------------------------------------------------
# (3) shm pointer request resolved against a present (static / cached) segment
# ---------------------------------------------------------------------------


def _replay_pointer(a: dict) -> str | None:
    region = "valid"
    if a.get("has_off") and a.get("off_ok", True) and a.get("has_len") and a.get("len_ok", True):
        if a.get("free_raises"):
            region = "stale"
    else:
        region = "none"  # absent / non-numeric pointer values: no region is named at all
    # The item's precondition fixes decode_ok: whatever region is named does decode, so every request here is a
    # well-framed request with (at worst) malformed metadata — it must be answered *and* the connection must go on.
    return _serve_and_observe(_md_from_args(a), a.get("rows", 0), a.get("ncols", 2), static_region=region, expect_survive=True)


@cond(q=60, t=240, stubs=[_STUB_READER, _STUB_INT, _STUB_RESOLVE], encoded=[wire._read_request, shm_mod.resolve_shm_batch, shm_mod.is_shm_pointer_batch],
      replay=_replay_pointer, bound="valid method/version; shm_offset / shm_length / log_level present/absent; numeric values accepted (any int) or rejected by int(); rows 0..3; columns 0..2; resolved rows 0..3",
      signature=lambda args, conc: _sig("C05:shm-pointer:", "untyped-exception"))
def read_request_shm_pointer(has_off: bool, off_ok: bool, off: int, has_len: bool, len_ok: bool, length: int, has_log: bool, rows: int, ncols: int,
                             decode_ok: bool, resolved_rows: int, free_raises: bool) -> bool:
    """
    pre: 0 <= rows <= 3 and 0 <= ncols <= 2 and 0 <= resolved_rows <= 3
    pre: decode_ok
    post: _
    """
    _reset()
    _H["batch"] = _Batch(ncols, rows)
    _H["decode_ok"] = decode_ok
    _H["resolved_rows"] = resolved_rows
    _H["md"] = _MD([
        _entry("method", True, b"add"), _entry("version", True, md.REQUEST_VERSION),
        _entry("off", has_off, _Num(off_ok, off)), _entry("len", has_len, _Num(len_ok, length)), _entry("log", has_log, Level.INFO.value.encode()),
    ], False)
    seg = _Seg(free_raises)
    exc: BaseException | None = None
    try:
        _read_request(object(), shm=seg)
    except Exception as e:  # noqa: BLE001
        exc = e
    kind = _classify(exc)
    if kind == "other":
        return _fail("untyped-exception")
    if kind == "arrow":
        # only the Arrow stub may be the source: undecodable region bytes
        return decode_ok is False or _fail("arrow-invalid-for-decodable-request")
    # The static segment belongs to the connection: a request path that closes it leaves every later pointer
    # request on this connection with an untyped failure (see _Seg.read_buffer).  (How often the region is
    # released is resource accounting, not C05.)
    return seg.closed == 0 or _fail("static-segment-closed-by-request")


# ---------------------------------------------------------------------------
# (3b) shm pointer whose numbers point at bytes that are not a batch; (3c) a request stream with no batch
# ---------------------------------------------------------------------------


def _replay_garbage_pointer(a: dict) -> str | None:
    """Well-framed pointer request whose offset/length name bytes that do not decode, against a real static segment."""
    good = {md.RPC_METHOD_KEY: b"add", md.REQUEST_VERSION_KEY: md.REQUEST_VERSION}
    tried = []
    off, ln = int(a.get("off", 0)), int(a.get("length", 0))
    for o, n in ((off, ln), (shm_mod.HEADER_SIZE + 4464, 10), (10**9, 10), (-5, 3), (shm_mod.HEADER_SIZE, 0)):
        if abs(o) > 10**15 or abs(n) > 10**15 or (o, n) in tried:
            continue
        tried.append((o, n))
        m = dict(good)
        m[md.SHM_OFFSET_KEY], m[md.SHM_LENGTH_KEY] = str(o).encode(), str(n).encode()
        dead = _serve_and_observe(m, 0, 2, static_region="none")
        if dead:
            return dead
    return None


@cond(q=60, t=240, stubs=[_STUB_READER, _STUB_INT, _STUB_RESOLVE + "; decode failure := pa.ArrowInvalid | OSError | StopIteration"],
      encoded=[wire._read_request, shm_mod.resolve_shm_batch], replay=_replay_garbage_pointer,
      bound="valid method/version; pointer request with any int offset/length whose region does not decode (ArrowInvalid | OSError | StopIteration); static/cached or per-request segment; free ok | ValueError",
      signature=lambda args, conc: "C05:shm-pointer:undecodable-region-ends-connection")
def read_request_shm_pointer_garbage_region(off: int, length: int, fail_kind: int, owned: bool, free_raises: bool, ncols: int) -> bool:
    """
    pre: 0 <= fail_kind <= 2 and 0 <= ncols <= 2
    post: _
    """
    _reset()
    _H["batch"] = _Batch(ncols, 0)
    _H["decode_ok"] = False
    _H["decode_fail"] = fail_kind
    _H["resolved_rows"] = 1
    _H["md"] = _MD([
        _entry("method", True, b"add"), _entry("version", True, md.REQUEST_VERSION),
        _entry("off", True, _Num(True, off)), _entry("len", True, _Num(True, length)),
    ], False)
    seg = _Seg(free_raises)
    try:
        if owned:
            _read_request(object(), attach_shm=lambda _m: seg)
        else:
            _read_request(object(), shm=seg)
    except (RpcError, VersionError):
        # the request stream itself was valid IPC and has been drained: a typed answer, the connection goes on
        # (a static / cached segment must stay usable for the connection's later requests; whether a per-request
        # attachment is detached, and how often the region is released, is resource accounting, not C05)
        return owned or seg.closed == 0
    except Exception:  # noqa: BLE001
        return False  # incl. ArrowInvalid / StopIteration: both END the serve loop (the latter without any reply)
    return True  # accepted after all (e.g. served inline): a response is as good an answer as a typed error for C05


def _replay_pointer_vs_segment(a: dict) -> str | None:
    """A pointer request against a real static segment: the counterexample's own numbers, the same region placed
    relative to the real segment's end (the counterexample's segment size is the model's, not the real one's), and the
    standard probes — in range holding no stream, far past the end, negative, empty."""
    real_size = shm_mod.HEADER_SIZE + 262144
    off, ln, size = int(a.get("off", 0)), int(a.get("length", 0)), int(a.get("size", 0))
    if a.get("decode_ok") and 0 <= off and 0 <= ln and off + ln <= size:
        return _replay_pointer(dict(a, has_off=True, has_len=True, rows=0))
    good = {md.RPC_METHOD_KEY: b"add", md.REQUEST_VERSION_KEY: md.REQUEST_VERSION}
    tried: list = []
    for o, n in ((off, ln), (real_size + (off - size), ln), (real_size - 4, 16), (shm_mod.HEADER_SIZE + 4464, 10), (10**9, 10), (-5, 3), (5, -3), (shm_mod.HEADER_SIZE, 0)):
        if abs(o) > 10**15 or abs(n) > 10**15 or (o, n) in tried:
            continue
        tried.append((o, n))
        m = dict(good)
        m[md.SHM_OFFSET_KEY], m[md.SHM_LENGTH_KEY] = str(o).encode(), str(n).encode()
        dead = _serve_and_observe(m, 0, int(a.get("ncols", 2)), static_region="none")
        if dead:
            return dead
    return None


@cond(q=90, t=300, stubs=[_STUB_READER, _STUB_INT, "SharedMemory.buf := memoryview model of symbolic size (len, slice with clamping); pa.py_buffer := identity on a slice; "
                          "allocator.free := ok | ValueError; _deserialize_from_shm := batch | ArrowInvalid | OSError | StopIteration (always a failure for an empty region); strip_keys / merge_metadata := opaque"],
      encoded=[wire._read_request, shm_mod.resolve_shm_batch, shm_mod.ShmSegment.read_buffer, shm_mod.ShmSegment.free, shm_mod.ShmSegment.close],
      replay=_replay_pointer_vs_segment,
      bound="valid method/version; 0-row pointer request, offset / length any int (negative, past the end, ...) against the REAL ShmSegment class over a mapping of any size >= 0; "
            "static/cached or per-request (attached) segment; region decode ok | 3 failure classes; free ok | ValueError; 0..2 columns",
      signature=lambda args, conc: _sig("C05:shm-pointer:", "untyped-exception"))
def read_request_shm_pointer_real_segment(off: int, length: int, size: int, decode_ok: bool, fail_kind: int, owned: bool, free_raises: bool, ncols: int) -> bool:
    """
    pre: size >= 0 and 0 <= fail_kind <= 2 and 0 <= ncols <= 2
    post: _
    """
    _reset()
    _H["batch"] = _Batch(ncols, 0)
    _H["decode_ok"] = decode_ok
    _H["decode_fail"] = fail_kind
    _H["resolved_rows"] = 1
    _H["md"] = _MD([
        _entry("method", True, b"add"), _entry("version", True, md.REQUEST_VERSION),
        _entry("off", True, _Num(True, off)), _entry("len", True, _Num(True, length)),
    ], False)
    seg = _RealSeg(_FakeShm(size), _FakeAllocator(free_raises))  # type: ignore[arg-type]
    exc: BaseException | None = None
    try:
        if owned:
            _read_request(object(), attach_shm=lambda _m: seg)
        else:
            _read_request(object(), shm=seg)
    except Exception as e:  # noqa: BLE001
        exc = e
    kind = _classify(exc)
    if kind == "other":
        return _fail("pointer-outside-segment-escapes" if (off < 0 or length < 0 or off + length > size) else "untyped-exception")
    if kind == "arrow":
        return _fail("undecodable-region-ends-connection")  # the request's own stream was valid IPC and is drained
    # a static / cached segment must stay usable for the connection's later requests
    return owned or seg._shm.closed == 0 or _fail("static-segment-closed-by-request")


def _replay_empty_stream(a: dict) -> str | None:
    from vgi_rpc.utils import new_ipc_stream

    _fields, schema = _req_schema(int(a.get("ncols", 2)))
    sink = pa.BufferOutputStream()
    with new_ipc_stream(sink, schema):
        pass  # schema message + EOS, no batch
    return _serve_and_observe({}, 0, 2, raw_request=sink.getvalue().to_pybytes())


@cond(q=30, t=60, stubs=[_STUB_READER + "; or no batch at all (schema + EOS)"], encoded=[wire._read_request], replay=_replay_empty_stream,
      bound="a well-framed request stream holding zero batches; 0..2 columns",
      signature=lambda args, conc: "C05:empty-request-stream:silent-loop-end")
def read_request_empty_stream(ncols: int, with_attach: bool) -> bool:
    """
    pre: 0 <= ncols <= 2
    post: _
    """
    _reset()
    _H["no_batch"] = True
    _H["batch"] = _Batch(ncols, 0)
    _H["md"] = None
    try:
        if with_attach:
            _read_request(object(), attach_shm=lambda m: _maybe_attach(m, TransportKind.PIPE))
        else:
            _read_request(object())
    except (RpcError, VersionError):
        return True
    except Exception:  # noqa: BLE001
        return False  # StopIteration is in the serve loop's silent break list: no reply, connection gone
    return False


# ---------------------------------------------------------------------------
# (4) dynamic attach: through _read_request, and the two unguarded call sites of serve_one
# ---------------------------------------------------------------------------


class _AttachEnv:
    """Make the attach outcome the solver chose *real*: a POSIX segment for which the un-stubbed
    ShmSegment.attach does what the contract stub did (the stub ignores the name; the real function
    does not, so the counterexample's 0..3 name bytes alone cannot reproduce an outcome)."""

    def __init__(self, outcome: int) -> None:
        self.outcome = outcome
        self.owned: list = []
        self.name: bytes | None = None
        self.size = shm_mod.HEADER_SIZE + 65536

    def __enter__(self) -> "_AttachEnv":
        import os
        from multiprocessing.shared_memory import SharedMemory

        k = self.outcome
        if k == 0:  # a genuine vgi-rpc segment
            seg = shm_mod.ShmSegment.create(self.size)
            self.owned.append(seg)
            self.name, self.size = seg.name.encode(), seg.size
        elif k == 1:  # FileNotFoundError: no such segment
            self.name = b"verif-no-such-segment-%d" % os.getpid()
        elif k == 3:  # ValueError: a foreign segment that is large enough but carries no vgi-rpc header
            raw = SharedMemory(create=True, size=4096)
            self.owned.append(raw)
            self.name, self.size = raw.name.encode(), raw.size
        elif k == 4:  # OSError: a name the kernel refuses (EINVAL)
            self.name = b""
        elif k == 5:  # struct.error: a foreign segment smaller than the fixed header
            raw = SharedMemory(create=True, size=10)
            self.owned.append(raw)
            self.name, self.size = raw.name.encode(), raw.size
        # k == 2 (PermissionError) cannot be staged as root: keep the counterexample's own name
        return self

    def __exit__(self, *exc: object) -> None:
        for o in self.owned:
            try:
                o.close()
                o.unlink()
            except Exception:  # noqa: BLE001
                pass


def _replay_attach(a: dict) -> str | None:
    args = dict(a)
    args.setdefault("has_name", True)
    args.setdefault("has_size", True)
    if "rows" not in args:
        args["rows"] = 1  # refresh()/attach call site: an ordinary one-row call that advertises a segment
    if "off" in args:  # the pointer-request item always carries offset and length
        args.setdefault("has_off", True)
        args.setdefault("has_len", True)
    # 1. the request exactly as the solver produced it
    dead = _serve_and_observe(_md_from_args(args), args["rows"], 2)
    if dead:
        return dead
    # 2. the same request with the chosen attach outcome staged for real
    reaches_attach = args.get("has_name") and args.get("has_size") and args.get("size_ok", True) and not args.get("md_none")
    if not reaches_attach or "attach" not in args:
        return None
    with _AttachEnv(int(args["attach"])) as env:
        if env.name is None:
            return None
        mdd = _md_from_args(args)
        mdd[md.SHM_SEGMENT_NAME_KEY] = env.name
        mdd[md.SHM_SEGMENT_SIZE_KEY] = str(env.size).encode()
        return _serve_and_observe(mdd, args["rows"], 2)


@cond(q=60, t=240, stubs=[_STUB_INT, _STUB_ATTACH], encoded=[srv._maybe_attach_shm], replay=_replay_attach,
      bound="metadata None | {segment name: any bytes len<=3, present/absent; size: absent | rejected | any int}; transport kind in {None, PIPE, UNIX, HTTP, TCP}; attach outcome 0..5",
      signature=lambda args, conc: "C05:attach:exception-escapes")
def maybe_attach_never_raises(md_none: bool, has_name: bool, name: bytes, has_size: bool, size_ok: bool, size: int, kind: int, attach: int) -> bool:
    """
    pre: len(name) <= 3 and 0 <= kind <= 4 and 0 <= attach <= 5
    post: _
    """
    _reset()
    _H["attach"] = attach
    m = None if md_none else _MD([_entry("seg_name", has_name, name), _entry("seg_size", has_size, _Num(size_ok, size))], False)
    try:
        _maybe_attach(m, _KINDS[kind])
    except Exception:  # noqa: BLE001
        return False  # both call sites in serve_one are unguarded: the serve loop dies without a reply
    # (How many attach attempts are made, what is returned, and the refusal to attach over HTTP are not C05's
    # subject; what the request path does with the result is decided by read_request_dynamic_attach / refresh.)
    return True


def _replay_refresh(a: dict) -> str | None:
    """Real connections only: the request as produced; with the attach outcome staged on real POSIX segments; as the
    second request of a history whose first request got a real segment cached; and followed by a pointer request."""
    dead = _replay_attach(a)
    if dead:
        return dead
    if a.get("md_none") or not a.get("has_name"):
        return None
    if a.get("cached"):
        # two-request history on one connection: request 1 advertises a real segment (gets cached), request 2 is an
        # ordinary call naming the same segment (same-name case) or another one, with the counterexample's size value
        good = {md.RPC_METHOD_KEY: b"add", md.REQUEST_VERSION_KEY: md.REQUEST_VERSION}
        first = shm_mod.ShmSegment.create(shm_mod.HEADER_SIZE + 65536)
        other = shm_mod.ShmSegment.create(shm_mod.HEADER_SIZE + 131072)
        try:
            same = bytes(a["cached_name"]) == bytes(a["name"])
            target = first if same else other
            m1 = dict(good)
            m1[md.SHM_SEGMENT_NAME_KEY], m1[md.SHM_SEGMENT_SIZE_KEY] = first.name.encode(), str(first.size).encode()
            m2 = dict(good)
            m2[md.SHM_SEGMENT_NAME_KEY] = target.name.encode()
            if a.get("has_size"):
                sizes = [str(int(a["size"])).encode()] if a.get("size_ok") else [b"abc", b"", b"12.5", b"\xff"]
            else:
                sizes = [None]
            for sz in sizes:
                m2v = dict(m2)
                if sz is not None:
                    m2v[md.SHM_SEGMENT_SIZE_KEY] = sz
                dead = _serve_and_observe(m2v, 1, 2, prelude=[m1])
                if dead:
                    return "after an earlier request cached segment %r on this connection: %s" % (first.name, dead)
        finally:
            for sg in (first, other):
                try:
                    sg.close()
                    sg.unlink()
                except Exception:  # noqa: BLE001
                    pass
        # ... and the request after that one: whatever refresh did to the cache, a later pointer request is answered
        return _replay_refresh_then_pointer(a)
    return None


def _replay_refresh_then_pointer(a: dict) -> str | None:
    """Three requests on one real connection: (1) advertises a real segment (cached), (2) the counterexample's request
    naming the same segment, or another one with the chosen attach outcome staged for real, (3) an offset-only
    pointer request.  Whatever the cache policy is, (3) must be answered and the connection must go on."""
    good = {md.RPC_METHOD_KEY: b"add", md.REQUEST_VERSION_KEY: md.REQUEST_VERSION}
    first = shm_mod.ShmSegment.create(shm_mod.HEADER_SIZE + 262144)
    try:
        fields, schema = _req_schema(2)
        full = pa.RecordBatch.from_arrays([pa.array([1], type=pa.int64()) for _ in fields], schema=schema)
        res = first.allocate_and_write(full)
        if res is None:
            return None
        m1 = dict(good)
        m1[md.SHM_SEGMENT_NAME_KEY], m1[md.SHM_SEGMENT_SIZE_KEY] = first.name.encode(), str(first.size).encode()
        with _AttachEnv(int(a.get("attach", 1))) as env:
            same = bool(a.get("cached")) and bytes(a.get("cached_name", b"")) == bytes(a.get("name", b""))
            m2 = dict(good)
            if not a.get("md_none") and a.get("has_name"):
                if same:
                    m2[md.SHM_SEGMENT_NAME_KEY] = first.name.encode()
                elif env.name is not None:
                    m2[md.SHM_SEGMENT_NAME_KEY] = env.name
                if a.get("has_size") and md.SHM_SEGMENT_NAME_KEY in m2:
                    m2[md.SHM_SEGMENT_SIZE_KEY] = str(first.size if same else env.size).encode() if a.get("size_ok") else b"x"
            m3 = dict(good)
            m3[md.SHM_OFFSET_KEY], m3[md.SHM_LENGTH_KEY] = str(res[0]).encode(), str(res[1]).encode()
            dead = _serve_and_observe({}, 0, 2, prelude=[m1, m2], raw_request=_request_bytes(m3, 0, 2))
            if dead:
                return f"after a request cached segment {first.name!r} and a second one named {m2.get(md.SHM_SEGMENT_NAME_KEY)!r}, an offset-only pointer request: {dead}"
        return None
    finally:
        try:
            first.close()
            first.unlink()
        except Exception:  # noqa: BLE001
            pass


@cond(q=60, t=240, stubs=[_STUB_INT, _STUB_ATTACH], encoded=[srv._ConnectionShm.refresh, srv._maybe_attach_shm], replay=_replay_refresh,
      bound="history on one connection as an arbitrary cache pre-state (empty | segment of any size cached under a name, bytes len<=3) x next request naming the same / another / no segment with size absent | malformed | any int; PIPE/UNIX; then one offset-only pointer request resolved against whatever the cache holds",
      signature=lambda args, conc: _sig("C05:refresh:", "exception-escapes"))
def refresh_never_raises(md_none: bool, has_name: bool, name: bytes, has_size: bool, size_ok: bool, size: int, unix: bool, attach: int, cached: bool, cached_name: bytes,
                         cached_size: int = 0) -> bool:
    """
    pre: len(name) <= 3 and len(cached_name) <= 3 and 0 <= attach <= 5
    post: _
    """
    # The cache pre-state (empty | a segment of any size cached under any name by an earlier request)
    # is the inductive form of a request history on one connection: this call is "the next request",
    # naming the same or another segment with a well-formed or malformed size.
    _reset()
    _H["attach"] = attach
    old = _Seg(size=cached_size) if cached else None
    conn = _Conn(old, cached_name if cached else None)
    m = None if md_none else _MD([_entry("seg_name", has_name, name), _entry("seg_size", has_size, _Num(size_ok, size))], False)
    try:
        conn.refresh(m, TransportKind.UNIX if unix else TransportKind.PIPE)
    except Exception:  # noqa: BLE001
        return _fail("exception-escapes")  # serve_one calls it outside every handler: the loop dies without a reply
    # The cache policy (what is kept or dropped, when the old attachment is detached, the return value) is the
    # code's own business.  What C05 needs of the state refresh leaves behind is that the connection's *next*
    # request is still answered: an offset-only pointer request is resolved against whatever is cached now.
    seg = conn.segment
    if seg is None:
        return True
    _H["batch"] = _Batch(2, 0)
    _H["decode_ok"] = True
    _H["resolved_rows"] = 1
    _H["md"] = _MD([_entry("method", True, b"add"), _entry("version", True, md.REQUEST_VERSION), _entry("off", True, _Num(True, 0)), _entry("len", True, _Num(True, 0))], False)
    exc: BaseException | None = None
    try:
        _read_request(object(), shm=seg)
    except Exception as e:  # noqa: BLE001
        exc = e
    return _classify(exc) in ("return", "typed") or _fail("cached-segment-unusable-for-next-request")


@cond(q=60, t=240, stubs=[_STUB_READER, _STUB_INT, _STUB_ATTACH, _STUB_RESOLVE], encoded=[wire._read_request, srv._maybe_attach_shm, shm_mod.resolve_shm_batch], replay=_replay_attach,
      bound="pointer request (0 rows) naming its own segment: name bytes len<=3, size/offset/length accepted (any int) or rejected; attach outcome 0..5; decode ok | ArrowInvalid",
      signature=lambda args, conc: _sig("C05:read-request-attach:", "untyped-exception"))
def read_request_dynamic_attach(has_name: bool, name: bytes, has_size: bool, size_ok: bool, size: int, off: int, length: int, attach: int, decode_ok: bool, rows: int) -> bool:
    """
    pre: len(name) <= 3 and 0 <= attach <= 5 and 0 <= rows <= 1
    post: _
    """
    _reset()
    _H["attach"] = attach
    _H["decode_ok"] = decode_ok
    _H["resolved_rows"] = 1
    _H["batch"] = _Batch(2, rows)
    _H["md"] = _MD([
        _entry("method", True, b"add"), _entry("version", True, md.REQUEST_VERSION),
        _entry("seg_name", has_name, name), _entry("seg_size", has_size, _Num(size_ok, size)),
        _entry("off", True, _Num(True, off)), _entry("len", True, _Num(True, length)),
    ], False)
    exc: BaseException | None = None
    try:
        _read_request(object(), attach_shm=lambda m: _maybe_attach(m, TransportKind.PIPE))
    except Exception as e:  # noqa: BLE001
        exc = e
    kind = _classify(exc)
    if kind == "other":
        return _fail("untyped-exception")
    if kind == "arrow" and decode_ok:
        return _fail("arrow-invalid-for-decodable-request")
    # (whether the per-request attachment is detached again, and how often its region is released, is resource
    # accounting — no request goes unanswered over it — and not asserted)
    return True


# ---------------------------------------------------------------------------
# (4b) batch CONTENTS: validation failure of the request batch; values as_py() cannot represent
# ---------------------------------------------------------------------------


def _contents_request(a: dict) -> tuple[bytes, object]:
    """Real bytes for a counterexample of read_request_batch_contents: (request stream, server validation level)."""
    from vgi_rpc.utils import new_ipc_stream

    def i64(v: int, t: pa.DataType) -> pa.Array:
        return pa.array([v], pa.int64()).cast(t, safe=False)

    level: object = None
    ncols, col = int(a.get("ncols", 2)), int(a.get("conv_col", 0))
    arrays = [pa.array([1], pa.int64()) for _ in range(ncols)]
    if a.get("read_fault"):
        arrays[0] = i64(5, pa.date64())  # well framed; full validation: "does not represent a whole number of days"
    else:
        k = int(a.get("conv_fault", 0))
        if col < ncols and k:
            if k == 1:
                arrays[col] = i64(2**62, pa.timestamp("s"))  # OverflowError
            elif k == 2:
                arrays[col] = i64(2**62, pa.timestamp("ns"))  # ValueError (year out of range)
            elif k == 3:
                arrays[col] = pa.Array.from_buffers(pa.timestamp("s", tz="No/Such_Zone"), 1, [None, pa.py_buffer((0).to_bytes(8, "little"))])  # ArrowInvalid
            elif k == 4:  # UnicodeDecodeError — reaches as_py() only below full validation
                arrays[col] = pa.Array.from_buffers(pa.string(), 1, [None, pa.py_buffer(b"\x00\x00\x00\x00\x02\x00\x00\x00"), pa.py_buffer(b"\xff\xfe")])
                level = IpcValidation.NONE
            else:  # ArrowIndexError — dictionary index out of bounds, below full validation
                arrays[col] = pa.DictionaryArray.from_arrays(pa.array([5], pa.int8()), pa.array(["x"]), safe=False)
                level = IpcValidation.NONE
    schema = pa.schema([pa.field("ab"[i], arrays[i].type) for i in range(ncols)])
    batch = pa.RecordBatch.from_arrays(arrays, schema=schema)
    sink = pa.BufferOutputStream()
    with new_ipc_stream(sink, schema) as w:
        w.write_batch(batch, custom_metadata=pa.KeyValueMetadata({md.RPC_METHOD_KEY: b"add", md.REQUEST_VERSION_KEY: md.REQUEST_VERSION}))
        if a.get("trailing"):
            w.write_batch(pa.RecordBatch.from_arrays([pa.nulls(1, f.type) for f in schema], schema=schema))  # a valid extra batch
    return sink.getvalue().to_pybytes(), level


def _replay_contents(a: dict) -> str | None:
    body, level = _contents_request(a)
    return _serve_and_observe({}, 1, int(a.get("ncols", 2)), raw_request=body, validation=level)


_STUB_CONTENTS_READ = _STUB_READER + "; reading the request batch := batch | IPCError (contents fail validation; the message is consumed); at most one more, valid, batch"
_STUB_CONTENTS_CONV = "Scalar.as_py() := value | OverflowError | ValueError | ArrowInvalid | UnicodeDecodeError | ArrowIndexError (each observed on real pyarrow)"


@cond(q=30, t=60, stubs=[_STUB_CONTENTS_READ], encoded=[wire._read_request], replay=lambda a: _replay_contents(dict(a, read_fault=True)),
      bound="valid method/version, 1 row, 1..2 columns of arbitrary type whose contents fail IPC validation (e.g. a date64 that is not a whole day); 0..1 trailing valid batch",
      signature=lambda args, conc: _sig("C05:request-contents:", "validation-failure-escapes"))
def read_request_batch_fails_validation(trailing: int, ncols: int) -> bool:
    """
    pre: 0 <= trailing <= 1 and 1 <= ncols <= 2
    post: _
    """
    return _contents_outcome(True, trailing, 0, 0, ncols)


@cond(q=60, t=120, stubs=[_STUB_CONTENTS_READ, _STUB_CONTENTS_CONV], encoded=[wire._read_request], replay=_replay_contents,
      bound="valid method/version, 1 row, 1..2 columns of arbitrary type; the parameter value of column 0 | 1 converts (as_py) ok | raises one of the 5 exception "
            "classes real pyarrow raises for unrepresentable values; 0..1 trailing valid batch",
      signature=lambda args, conc: _sig("C05:request-contents:", "value-conversion-error-escapes"))
def read_request_value_conversion_fails(trailing: int, conv_fault: int, conv_col: int, ncols: int) -> bool:
    """
    pre: 0 <= trailing <= 1 and 0 <= conv_fault <= 5 and 1 <= ncols <= 2 and 0 <= conv_col <= 1
    post: _
    """
    return _contents_outcome(False, trailing, conv_fault, conv_col, ncols)


def _replay_trailing_invalid(a: dict) -> str | None:
    from vgi_rpc.utils import new_ipc_stream

    ncols = int(a.get("ncols", 2))
    schema = pa.schema([pa.field("ab"[i], pa.date64() if i == 0 else pa.int64()) for i in range(ncols)])

    def batch(ms: int) -> pa.RecordBatch:
        return pa.RecordBatch.from_arrays([pa.array([ms], pa.int64()).cast(pa.date64(), safe=False) if i == 0 else pa.array([1], pa.int64()) for i in range(ncols)], schema=schema)

    sink = pa.BufferOutputStream()
    with new_ipc_stream(sink, schema) as w:
        w.write_batch(batch(86400000), custom_metadata=pa.KeyValueMetadata({md.RPC_METHOD_KEY: b"add", md.REQUEST_VERSION_KEY: md.REQUEST_VERSION}))
        w.write_batch(batch(5))  # not a whole day: fails full validation when the stream is drained
    return _serve_and_observe({}, 1, ncols, raw_request=sink.getvalue().to_pybytes())


# A request stream with MORE than one batch is outside C05's quantifier ("all single-batch request streams") but inside
# its statement ("any well-framed request stream").  On /repo 1e62938 a trailing batch that failed validation escaped
# the serve loop through _drain_stream; repaired in /repo 8a98163, so the item is part of the claim.
_CLAIM_MULTI_BATCH = os.environ.get("VERIF_C05_MULTIBATCH", "1") == "1"

if _CLAIM_MULTI_BATCH:

    @cond(q=30, t=60, stubs=[_STUB_CONTENTS_READ + "; the trailing batch's read := IPCError"], encoded=[wire._read_request, wire._drain_stream], replay=_replay_trailing_invalid,
          bound="valid one-row request batch (1..2 columns) followed by one more batch whose contents fail IPC validation",
          signature=lambda args, conc: _sig("C05:request-contents:", "trailing-batch-validation-failure-escapes"))
    def read_request_trailing_batch_fails_validation(ncols: int) -> bool:
        """
        pre: 1 <= ncols <= 2
        post: _
        """
        return _contents_outcome(False, 1, 0, 0, ncols, trailing_invalid=True)


def _contents_outcome(read_fault: bool, trailing: int, conv_fault: int, conv_col: int, ncols: int, trailing_invalid: bool = False) -> bool:
    _reset()
    _H["trailing_invalid"] = trailing_invalid
    _H["batch"] = _Batch(ncols, 1)
    _H["md"] = _MD([_entry("method", True, b"add"), _entry("version", True, md.REQUEST_VERSION)], False)
    _H["read_fault"] = read_fault
    _H["trailing"] = trailing
    _H["conv_fault"] = conv_fault
    _H["conv_col"] = conv_col
    exc: BaseException | None = None
    try:
        _read_request(object())
    except Exception as e:  # noqa: BLE001
        exc = e
    kind = _classify(exc)
    if kind == "other":
        # the serve loop has no handler for it: the connection ends without a reply
        if isinstance(exc, _IPCError):
            return _fail("validation-failure-escapes" if read_fault else "trailing-batch-validation-failure-escapes")
        return _fail("value-conversion-error-escapes" if isinstance(exc, (ArithmeticError, ValueError, LookupError)) else "untyped-exception")
    if kind == "arrow":
        # ArrowInvalid out of _read_request is answered, then *ends* the loop — allowed only for bytes that are not
        # valid IPC, which this request is not
        return _fail("arrow-invalid-for-well-framed-request")
    if not _H["reader"].eos:
        return _fail("request-stream-not-drained")
    return True


# ---------------------------------------------------------------------------
# (5) which exceptions the serve loop answers / survives — read from the live source
# ---------------------------------------------------------------------------


def _call_name(c: ast.Call) -> str:
    return c.func.attr if isinstance(c.func, ast.Attribute) else getattr(c.func, "id", "")


def _calls_outside_nested_try(stmts: list) -> set[str]:
    names: set[str] = set()
    stack = list(stmts)
    while stack:
        n = stack.pop()
        if isinstance(n, ast.Try):
            continue
        if isinstance(n, ast.Call):
            names.add(_call_name(n))
        stack.extend(ast.iter_child_nodes(n))
    return names


def _handler_names(fn: object, around_call: str) -> list[list[str]]:
    """Exception class names of every ``except`` clause of the ``try`` whose body directly calls *around_call*."""
    tree = ast.parse(textwrap.dedent(inspect.getsource(fn)))  # type: ignore[arg-type]
    out: list[list[str]] = []
    for node in ast.walk(tree):
        if not isinstance(node, ast.Try) or around_call not in _calls_outside_nested_try(node.body):
            continue
        for h in node.handlers:
            t = h.type
            elts = t.elts if isinstance(t, ast.Tuple) else ([t] if t is not None else [])
            tags = (["<returns>"] if any(isinstance(x, ast.Return) for x in h.body) else []) + (["<raises>"] if any(isinstance(x, ast.Raise) for x in h.body) else []) + (["<break>"] if any(isinstance(x, ast.Break) for x in h.body) else [])
            if any(isinstance(c, ast.Call) and _call_name(c) == "_write_error_stream" for s in h.body for c in ast.walk(s)):
                tags.append("<writes-error>")
            out.append(([ast.unparse(e) for e in elts] if elts else ["<bare>"]) + tags)
    return out


@task(q=30, t=30, encoded=[srv.RpcServer.serve_one, srv.RpcServer.serve], bound="live source of serve_one / serve + two typed-error requests on the real server", engine="assumption-check")
def serve_loop_answers_typed_errors(budget: float, replay=None) -> dict:
    """ASSUMPTION CHECK for the conditions above (they equate "typed error out of _read_request" with
    "answered, connection goes on", and "any other exception" with "the serve loop dies or ends"):

    * source shape (AST of the live ``serve_one`` / ``serve``; the z3 query is a propositional restatement):
      the handler around ``_read_request`` that catches RpcError / VersionError *calls _write_error_stream*,
      returns and does not re-raise; neither class is in a handler of the serve loop (which would end it);
      no handler on either level is broader than the classes the conditions know about (``Exception`` /
      bare — then "other" would no longer mean "dies" and the conditions would be out of date);
    * behaviour, on the real server over a pipe: a request without ``vgi_rpc.method`` (RpcError) and one with a
      wrong request version (VersionError) are answered and the follow-up call gets its own result.

    VIOLATION when the real server fails the behaviour; INCONCLUSIVE when only the source shape is not the
    assumed one (the conditions' classification then needs a look); CONFIRMED when both hold.
    """
    import z3

    t0 = time.monotonic()
    one = _handler_names(srv.RpcServer.serve_one, "_read_request")
    loop = _handler_names(srv.RpcServer.serve, "serve_one")
    answered = {n for h in one if "<returns>" in h and "<writes-error>" in h and "<raises>" not in h for n in h}
    loop_caught = {n for h in loop for n in h if not n.startswith("<")}
    broad = sorted({n for h in one + loop for n in h if n in ("Exception", "BaseException", "<bare>")})
    typed = ["RpcError", "VersionError"]
    s = z3.Solver()
    ok_vars = []
    for c in typed:
        a_, l_ = z3.Bool("answered_" + c), z3.Bool("ends_loop_" + c)
        s.add(a_ == z3.BoolVal(c in answered), l_ == z3.BoolVal(c in loop_caught))
        ok_vars.append(z3.And(a_, z3.Not(l_)))
    b_ = z3.Bool("broad_handler")
    s.add(b_ == z3.BoolVal(bool(broad)))
    s.add(z3.Not(z3.And(*ok_vars, z3.Not(b_))))  # exists a way in which the assumed shape fails?
    r = s.check()
    shape_ok = r == z3.unsat
    # behaviour on the real server (never stubbed)
    good_v = {md.RPC_METHOD_KEY: b"add", md.REQUEST_VERSION_KEY: b"\x00bad"}
    real = [("RpcError (no vgi_rpc.method)", _serve_and_observe({md.REQUEST_VERSION_KEY: md.REQUEST_VERSION}, 1, 2)),
            ("VersionError (wrong request version)", _serve_and_observe(good_v, 1, 2))]
    failed = [(what, why) for what, why in real if why]
    res: dict = {"queries": 1, "discharged": 1 if shape_ok else 0, "solver_s": round(time.monotonic() - t0, 3),
                 "samples": [{"serve_one handlers around _read_request": one, "serve handlers around serve_one": loop}]}
    if failed:
        res.update(verdict="VIOLATION", replayed=True, signature="C05:serve-one:typed-error-not-answered",
                   cex={"typed_error": failed[0][0]}, detail=f"{failed[0][0]}: {failed[0][1]}")
    elif shape_ok:
        res.update(verdict="CONFIRMED", detail=f"answered-and-continue: {sorted(answered)}; loop-ending: {sorted(loop_caught)}")
    elif r == z3.sat:
        res.update(verdict="INCONCLUSIVE", detail=f"the real server answers typed errors, but the source no longer has the assumed shape (typed answered+return: {sorted(answered)}; "
                                                  f"caught by the loop: {sorted(loop_caught)}; broad handlers: {broad}): the conditions' typed/other classification needs a review; handlers {one} / {loop}")
    else:
        res.update(verdict="INCONCLUSIVE", detail="solver unknown")
    return res
