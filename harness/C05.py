"""C05 — malformed (but well-framed) requests never silently kill or hang a connection.

Partial (DESIGN section 3): the *metadata half* of the request path, on real bytecode.

``_read_request`` (vgi_rpc/rpc/_wire.py) re-globalised so that the Arrow reader is a stub yielding
one fake batch (row count 0..3, 0..2 columns) + a **symbolic** custom-metadata mapping (presence
and value of every framework key the function reads), ``resolve_shm_batch`` (vgi_rpc/shm.py)
re-globalised over a fake segment, ``_maybe_attach_shm`` / ``_ConnectionShm.refresh``
(vgi_rpc/rpc/_server.py) re-globalised with ``ShmSegment.attach`` := "returns a segment or raises
FileNotFoundError | PermissionError | ValueError | OSError | struct.error" (the documented behaviour
of ``SharedMemory(name=...)`` and of the header validation).

Asserted: only ``RpcError`` / ``VersionError`` (typed, answered by ``serve_one`` which then keeps
serving) or a normal return leave ``_read_request`` — plus ``pa.ArrowInvalid`` when, and only
when, the Arrow stub itself reports undecodable bytes (answered, then the loop ends: allowed by
the property).  Nothing but a return leaves ``_maybe_attach_shm`` / ``refresh`` (``serve_one``
calls them unguarded after validation).  The exception classes the serve loop survives are read
from the live source of ``RpcServer.serve`` / ``serve_one`` by an AST task so the
"answered" set used here cannot drift from the code.
"""

from __future__ import annotations

import ast
import inspect
import struct
import textwrap

import pyarrow as pa

from engine.api import HarnessModelError, cond, task
from engine.reglob import reglobalize

from vgi_rpc import metadata as md
from vgi_rpc.log import Level
from vgi_rpc import shm as shm_mod
from vgi_rpc.rpc import _server as srv
from vgi_rpc.rpc import _wire as wire
from vgi_rpc.rpc._common import RpcError, TransportKind, VersionError

PROPERTY = "C05"
ENCODED = [wire._read_request, shm_mod.resolve_shm_batch, shm_mod.is_shm_pointer_batch, srv._maybe_attach_shm, srv._ConnectionShm.refresh, srv.RpcServer.serve_one, srv.RpcServer.serve]
BOUNDS = (
    "one request batch; metadata = None | mapping with symbolic presence of vgi_rpc.method / request_version / traceparent / tracestate / "
    "shm_segment_name / shm_segment_size / shm_offset / shm_length / log_level, byte values any bytes len<=3 (incl. non-UTF-8), numeric values "
    "(segment size, offset, length) = 'int() accepts -> any int' | 'int() rejects'; rows 0..3; columns 0..2; attach outcome in {segment, "
    "FileNotFoundError, PermissionError, ValueError, OSError, struct.error}; region decode in {ok, ArrowInvalid}; free in {ok, ValueError}"
)
OUTSIDE = (
    "truncated / corrupted byte strings and everything the Arrow C++ reader decides (framing, column types); the dispatch half of serve_one "
    "after _read_request (method lookup, parameter validation: C06/C04); external-location pointer requests; real POSIX shm semantics beyond "
    "the attach contract; segment CONTENTS (a pointer may name any bytes: modelled as decode ok | ArrowInvalid | OSError | StopIteration) (replays stage every attach outcome with real POSIX segments except PermissionError, which cannot be provoked as root); whether ending the connection on ArrowInvalid from a shm region (answered) is acceptable is taken from the property text"
)
ASSUMPTIONS = [
    "int(<bytes>) := returns some int or raises ValueError; int(None) raises TypeError (C-level parser; CrossHair realises int(symbolic bytes))",
    "ShmSegment.attach := returns a segment | raises FileNotFoundError | PermissionError | ValueError | OSError | struct.error (segment smaller than the header)",
    "the Arrow reader yields exactly one batch then StopIteration (well-framed single-batch request stream)",
    "typed errors RpcError / VersionError raised by _read_request are answered by serve_one and the loop continues (checked against the live source by serve_loop_answers_typed_errors)",
]

# ---------------------------------------------------------------------------
# symbolic metadata mapping, fake batch, fake reader
# ---------------------------------------------------------------------------

_KEYS = {
    "method": md.RPC_METHOD_KEY,
    "version": md.REQUEST_VERSION_KEY,
    "tp": md.TRACEPARENT_KEY,
    "ts": md.TRACESTATE_KEY,
    "seg_name": md.SHM_SEGMENT_NAME_KEY,
    "seg_size": md.SHM_SEGMENT_SIZE_KEY,
    "off": md.SHM_OFFSET_KEY,
    "len": md.SHM_LENGTH_KEY,
    "log": md.LOG_LEVEL_KEY,
}


class _Num:
    """Opaque wire bytes of a numeric metadata value: only int() looks inside (contract stub)."""

    def __init__(self, ok: bool, value: int) -> None:
        self.ok, self.value = ok, value

    def __repr__(self) -> str:
        return "b'<num>'"


def _int_contract(x: object = 0, *a: object) -> int:
    if isinstance(x, _Num):
        if x.ok:
            return x.value
        raise ValueError("invalid literal for int() with base 10")
    if x is None:
        raise TypeError("int() argument must be a string, a bytes-like object or a real number, not 'NoneType'")
    if isinstance(x, int) and not a:
        return x
    raise HarnessModelError("int() of a value the contract stub does not model")


class _MD:
    """Stand-in for pa.KeyValueMetadata: linear lookup over a fixed key list, symbolic presence/values."""

    def __init__(self, entries: list[tuple[bytes, bool, object]], other_keys: bool) -> None:
        self._entries = entries
        self._other = other_keys

    def get(self, key: bytes, default: object = None) -> object:
        for k, present, value in self._entries:
            if k == key:
                return value if present else default
        return default

    def __bool__(self) -> bool:
        if self._other:
            return True
        for _k, present, _v in self._entries:
            if present:
                return True
        return False

    def __getattr__(self, name: str) -> object:
        raise HarnessModelError(f"metadata mapping used through .{name}")


class _Scalar:
    def as_py(self) -> int:
        return 7


class _Field:
    def __init__(self, name: str) -> None:
        self.name = name
        self.type = "int64"


class _Batch:
    def __init__(self, ncols: int, nrows: int) -> None:
        self.schema = [_Field("a"), _Field("b")][:ncols]
        self.num_rows = nrows

    def column(self, i: int) -> list[_Scalar]:
        if self.num_rows < 1:
            raise IndexError("index out of bounds")  # what pyarrow raises for [0] of an empty column
        return [_Scalar()]

    def __getattr__(self, name: str) -> object:
        raise HarnessModelError(f"batch used through .{name}")


_H: dict = {}


class _Reader:
    """ValidatedReader stand-in: one (batch, metadata) pair, then StopIteration."""

    def __init__(self, raw: object, validation: object) -> None:
        self.n = 0
        _H["reader"] = self

    def read_next_batch_with_custom_metadata(self) -> tuple[_Batch, object]:
        self.n += 1
        if self.n > 1 or _H.get("no_batch"):
            raise StopIteration  # a well-framed stream may hold schema + EOS and no batch at all
        return _H["batch"], _H["md"]

    def read_next_batch(self) -> _Batch:
        self.n += 1
        if self.n > 1 or _H.get("no_batch"):
            raise StopIteration
        return _H["batch"]


class _IpcNS:
    @staticmethod
    def open_stream(src: object) -> object:
        return src

    def __getattr__(self, name: str) -> object:
        raise HarnessModelError(f"ipc.{name} is not modelled")


class _Seg:
    """Fake ShmSegment: counts free/close; free may raise ValueError (no allocation at that offset)."""

    name = "seg"

    def __init__(self, free_raises: bool = False, size: int = 0) -> None:
        self.freed: list[object] = []
        self.closed = 0
        self.free_raises = free_raises
        self.size = size

    def read_buffer(self, offset: int, length: int) -> tuple:
        return ("region", offset, length)

    def free(self, offset: int) -> None:
        self.freed.append(offset)
        if self.free_raises:
            raise ValueError("No allocation at offset")

    def close(self) -> None:
        self.closed += 1

    def __getattr__(self, name: str) -> object:
        raise HarnessModelError(f"segment used through .{name}")


def _deser_stub(buf: object, schema: object) -> _Batch:
    if not _H["decode_ok"]:
        k = _H.get("decode_fail", 0)
        if k == 1:
            raise OSError("Invalid IPC stream: negative continuation token")  # observed on garbage regions
        if k == 2:
            raise StopIteration  # the region holds a stream with no batch: read_next_batch()
        raise pa.ArrowInvalid("Invalid IPC stream")
    return _Batch(len(schema), _H["resolved_rows"])  # type: ignore[arg-type]


_resolve = reglobalize(
    shm_mod.resolve_shm_batch,
    int=_int_contract,
    _deserialize_from_shm=_deser_stub,
    strip_keys=lambda m, *k: m,
    merge_metadata=lambda *m: m[0],
)

_read_request = reglobalize(wire._read_request, ValidatedReader=_Reader, ipc=_IpcNS(), resolve_shm_batch=_resolve)


class _AttachNS:
    @staticmethod
    def attach(name: str, size: int, *, track: bool = True) -> _Seg:
        k = _H["attach"]
        _H["attach_calls"] = _H.get("attach_calls", 0) + 1
        if k == 1:
            raise FileNotFoundError(2, "No such file or directory")
        if k == 2:
            raise PermissionError(13, "Permission denied")
        if k == 3:
            raise ValueError("Bad SHM magic")
        if k == 4:
            raise OSError(22, "Invalid argument")
        if k == 5:
            raise struct.error("unpack_from requires a buffer of at least 24 bytes")  # foreign segment smaller than the header
        seg = _Seg(_H.get("free_raises", False))
        _H["attached"] = seg
        return seg

    def __getattr__(self, name: str) -> object:
        raise HarnessModelError(f"ShmSegment.{name} is not modelled")


_maybe_attach = reglobalize(srv._maybe_attach_shm, ShmSegment=_AttachNS(), int=_int_contract)


class _Conn:
    """Carrier for the real _ConnectionShm methods (refresh re-globalised onto the stubbed attach)."""

    __slots__ = ("name", "segment")

    def __init__(self, segment: object, name: object) -> None:
        self.segment = segment
        self.name = name

    refresh = reglobalize(
        srv._ConnectionShm.refresh,
        _maybe_attach_shm=_maybe_attach,
        **({"int": _int_contract} if "int" in srv._ConnectionShm.refresh.__code__.co_names else {}),
    )
    close = srv._ConnectionShm.close


_KINDS = [None, TransportKind.PIPE, TransportKind.UNIX, TransportKind.HTTP, TransportKind.TCP]

_STUB_READER = "ValidatedReader / ipc.open_stream := one fake batch (0..2 columns, 0..3 rows) + symbolic metadata mapping, then StopIteration"
_STUB_INT = "int := contract stub (any int | ValueError; TypeError on None) for numeric metadata values"
_STUB_ATTACH = "ShmSegment.attach := segment | FileNotFoundError | PermissionError | ValueError | OSError | struct.error (each observed on the real function)"
_STUB_RESOLVE = "_deserialize_from_shm := fake batch | pa.ArrowInvalid; strip_keys / merge_metadata := opaque; segment := fake (read_buffer token, free ok | ValueError, close)"


def _reset() -> None:
    _H.clear()
    wire._current_request_batch.set(None)
    wire._current_request_metadata.set(None)
    wire._current_trace_headers.set(None)
    wire._current_request_param_schema.set(None)


def _entry(key: str, present: bool, value: object) -> tuple[bytes, bool, object]:
    return (_KEYS[key], present, value)


def _classify(exc: BaseException | None) -> str:
    if exc is None:
        return "return"
    if isinstance(exc, (RpcError, VersionError)):
        return "typed"
    if isinstance(exc, pa.ArrowInvalid):
        return "arrow"
    return "other"


# ---------------------------------------------------------------------------
# real replay: in-process pipe pair, the malformed request, then a normal call
# ---------------------------------------------------------------------------


def _req_schema(ncols: int):
    fields = [pa.field("a", pa.int64(), nullable=False), pa.field("b", pa.int64(), nullable=False)][:ncols]
    return fields, pa.schema(fields)


def _request_bytes(extra: dict[bytes, bytes] | None, nrows: int, ncols: int, none_md: bool = False) -> bytes:
    """A well-framed single-batch Arrow IPC request stream with full control over the custom metadata."""
    from vgi_rpc.utils import new_ipc_stream

    fields, schema = _req_schema(ncols)
    batch = pa.RecordBatch.from_arrays([pa.array([1] * nrows, type=pa.int64()) for _ in fields], schema=schema) if fields else pa.RecordBatch.from_pylist([{}] * nrows, schema=schema)
    sink = pa.BufferOutputStream()
    with new_ipc_stream(sink, schema) as w:
        if none_md:
            w.write_batch(batch)
        else:
            w.write_batch(batch, custom_metadata=pa.KeyValueMetadata(dict(extra or {})))
    return sink.getvalue().to_pybytes()


def _serve_and_observe(extra_md: dict[bytes, bytes], rows: int, ncols: int = 2, static_region: str | None = None, md_none: bool = False, expect_survive: bool = True,
                       prelude: list | None = None, raw_request: bytes | None = None) -> str | None:
    """Send one crafted request to a real RpcServer.serve() over os.pipe()s, then a normal call.

    *prelude*: metadata dicts of ordinary one-row calls sent (and required to be answered) first, on the
    same connection — the earlier part of a request history.  *raw_request*: the crafted request's bytes.

    Returns a description when the server neither answers nor keeps serving (silent death / hang).
    """
    import os
    import select
    import threading
    from typing import Protocol

    from vgi_rpc.rpc import RpcServer
    from vgi_rpc.rpc._transport import ShmPipeTransport, make_pipe_pair

    class Svc(Protocol):
        def add(self, a: int, b: int) -> int: ...

    class Impl:
        def add(self, a: int, b: int) -> int:
            return a + b

    fields, schema = _req_schema(ncols)

    def request(extra: dict[bytes, bytes] | None, nrows: int, none_md: bool = False) -> bytes:
        return _request_bytes(extra, nrows, ncols, none_md)

    seg = None
    extra_md = dict(extra_md)
    try:
        if static_region is not None:
            seg = shm_mod.ShmSegment.create(shm_mod.HEADER_SIZE + 262144)
            if static_region in ("valid", "stale"):
                full = pa.RecordBatch.from_arrays([pa.array([1], type=pa.int64()) for _ in fields], schema=schema)
                res = seg.allocate_and_write(full)
                assert res is not None
                if static_region == "stale":
                    seg.free(res[0])  # bytes still decode, but the table has no entry at that offset
                extra_md[md.SHM_OFFSET_KEY] = str(res[0]).encode()
                extra_md[md.SHM_LENGTH_KEY] = str(res[1]).encode()
        server = RpcServer(Svc, Impl())
        client_t, server_t = make_pipe_pair()
        transport = ShmPipeTransport(server_t, seg) if seg is not None else server_t
        end: dict = {}

        def target() -> None:
            try:
                server.serve(transport)
                end["how"] = "serve() returned"
            except BaseException as e:  # noqa: BLE001
                end["how"] = f"serve() raised {type(e).__name__}: {e}"

        th = threading.Thread(target=target, daemon=True)
        th.start()
        fd = client_t.reader.fileno()

        def reply(timeout: float) -> int:
            n = 0
            waited = 0.0
            while waited < timeout:
                ready, _, _ = select.select([fd], [], [], 0.05)
                waited += 0.05
                if ready:
                    chunk = os.read(fd, 1 << 20)
                    n += len(chunk)
                    if not chunk:
                        break
                    timeout = waited + 0.2  # drain what follows
                elif n or not th.is_alive():
                    break
            return n

        for pmd in prelude or []:
            client_t.writer.write(_request_bytes(pmd, 1, 2))
            client_t.writer.flush()
            if not reply(3.0):
                return None  # the history itself is not served on this tree: not this scenario
        client_t.writer.write(raw_request if raw_request is not None else request(extra_md, rows, md_none))
        client_t.writer.flush()
        first = reply(3.0)
        second = None
        if first:
            good = {md.RPC_METHOD_KEY: b"add", md.REQUEST_VERSION_KEY: md.REQUEST_VERSION}
            try:
                client_t.writer.write(_request_bytes(good, 1, 2))
                client_t.writer.flush()
                second = reply(3.0)
            except OSError:
                second = 0
        th.join(0.2)
        alive = th.is_alive()
        try:
            client_t.close()
        except Exception:  # noqa: BLE001
            pass
        th.join(1.0)
        if first == 0:
            return (
                f"no reply to the request (metadata {extra_md!r}, {rows} rows); server thread: {end.get('how', 'still blocked')}; "
                f"follow-up call on the same connection: {'not possible, serve loop is gone' if not alive else 'not attempted'}"
            )
        if expect_survive and not second:
            return f"request (metadata {extra_md!r}, {rows} rows) answered ({first} bytes) but the connection did not survive it: follow-up call got no reply; server thread: {end.get('how', 'still running')}"
        return None
    finally:
        if seg is not None:
            try:
                seg.close()
                seg.unlink()
            except Exception:  # noqa: BLE001
                pass


def _wire_num(present: bool, ok: bool, value: int) -> bytes | None:
    if not present:
        return None
    return str(int(value)).encode() if ok else b"x"


def _md_from_args(a: dict) -> dict[bytes, bytes]:
    out: dict[bytes, bytes] = {}

    def put(key: str, present: bool, value: bytes | None) -> None:
        if present and value is not None:
            out[_KEYS[key]] = bytes(value)

    put("method", a.get("has_method", True), a.get("method", b"add"))
    put("version", a.get("has_version", True), a.get("version", md.REQUEST_VERSION))
    put("tp", a.get("has_tp", False), a.get("tp"))
    put("ts", a.get("has_ts", False), a.get("ts"))
    put("seg_name", a.get("has_name", False), a.get("name"))
    put("seg_size", a.get("has_size", False), _wire_num(True, a.get("size_ok", True), a.get("size", 1)))
    put("off", a.get("has_off", False), _wire_num(True, a.get("off_ok", True), a.get("off", 0)))
    put("len", a.get("has_len", False), _wire_num(True, a.get("len_ok", True), a.get("length", 0)))
    put("log", a.get("has_log", False), Level.INFO.value.encode())
    return out


# ---------------------------------------------------------------------------
# (1) dispatch metadata: method / version / row & column counts
# ---------------------------------------------------------------------------


def _replay_dispatch(a: dict) -> str | None:
    rows, ncols, md_none = a.get("rows", 1), a.get("ncols", 2), a.get("md_none", False)
    dead = _serve_and_observe(_md_from_args(a), rows, ncols, md_none=md_none)
    if dead or "has_method" not in a:
        return dead
    # un-stubbed _read_request (real pyarrow reader) on the same request: accepted <=> well-formed
    from io import BytesIO

    mdd = _md_from_args(a)
    well_formed = (not md_none) and a["has_method"] and a["has_version"] and bytes(a["version"]) == md.REQUEST_VERSION and (ncols == 0 or rows == 1)
    try:
        bytes(a["method"]).decode()
        utf8 = True
    except UnicodeDecodeError:
        utf8 = False
    try:
        got = wire._read_request(BytesIO(_request_bytes(mdd, rows, ncols, md_none)))
    except (RpcError, VersionError) as e:
        if well_formed and utf8:
            return f"well-formed request (metadata {mdd!r}, {rows} rows, {ncols} columns) rejected with {type(e).__name__}: {e}"
        return None
    except Exception as e:  # noqa: BLE001
        return f"_read_request raised {type(e).__name__}: {e} for metadata {mdd!r}"
    if not (well_formed and utf8):
        return f"malformed request accepted: metadata {None if md_none else mdd!r}, {rows} rows, {ncols} columns -> {got!r}"
    return None


@cond(q=60, t=240, stubs=[_STUB_READER], encoded=[wire._read_request], replay=_replay_dispatch,
      bound="metadata None | empty | {method, request_version} present/absent, values any bytes len<=3; rows 0..3; columns 0..2",
      signature=lambda args, conc: "C05:read-request:untyped-exception")
def read_request_method_version(md_none: bool, other_keys: bool, has_method: bool, method: bytes, has_version: bool, version: bytes, rows: int, ncols: int) -> bool:
    """
    pre: len(method) <= 3 and len(version) <= 3 and 0 <= rows <= 3 and 0 <= ncols <= 2
    post: _
    """
    _reset()
    _H["batch"] = _Batch(ncols, rows)
    _H["md"] = None if md_none else _MD([_entry("method", has_method, method), _entry("version", has_version, version)], other_keys)
    exc: BaseException | None = None
    out = None
    try:
        out = _read_request(object(), attach_shm=lambda m: _maybe_attach(m, TransportKind.PIPE))
    except Exception as e:  # noqa: BLE001
        exc = e
    kind = _classify(exc)
    if kind not in ("return", "typed"):
        return False
    if _H["reader"].n < 2:
        # rejected or accepted, the request stream must have been read past its EOS: on a pipe the
        # reader is shared, left-over bytes would be parsed as the start of the next request
        return False
    well_formed = (not md_none) and has_method and has_version and version == md.REQUEST_VERSION and (ncols == 0 or rows == 1)
    if kind == "return":
        # a request is accepted only when it is well-formed, and then with the decoded method name
        if not well_formed or out is None:
            return False
        return out[0] == method.decode() and len(out[1]) == ncols
    # typed error: the request was not acceptable (or the method name is not UTF-8)
    if well_formed:
        try:
            method.decode()
        except UnicodeDecodeError:
            return True
        return False
    return True


# ---------------------------------------------------------------------------
# (2) trace context keys
# ---------------------------------------------------------------------------


@cond(q=60, t=240, stubs=[_STUB_READER], encoded=[wire._read_request], replay=_replay_dispatch,
      bound="valid method/version; traceparent / tracestate present/absent, any bytes len<=3; rows 1; columns 0..2",
      signature=lambda args, conc: "C05:trace-context:non-utf8-escapes")
def read_request_trace_context(has_tp: bool, tp: bytes, has_ts: bool, ts: bytes, ncols: int) -> bool:
    """
    pre: len(tp) <= 3 and len(ts) <= 3 and 0 <= ncols <= 2
    post: _
    """
    _reset()
    _H["batch"] = _Batch(ncols, 1)
    _H["md"] = _MD([_entry("method", True, b"add"), _entry("version", True, md.REQUEST_VERSION), _entry("tp", has_tp, tp), _entry("ts", has_ts, ts)], False)
    try:
        out = _read_request(object())
    except (RpcError, VersionError):
        return True  # answered
    except Exception:  # noqa: BLE001
        return False
    return out[0] == "add"


# ---------------------------------------------------------------------------
# (3) shm pointer request resolved against a present (static / cached) segment
# ---------------------------------------------------------------------------


def _replay_pointer(a: dict) -> str | None:
    region = "valid"
    if a.get("has_off") and a.get("off_ok", True) and a.get("has_len") and a.get("len_ok", True):
        if not a.get("decode_ok", True):
            region = "none"  # offsets as given: whatever is there
        elif a.get("free_raises"):
            region = "stale"
    else:
        region = "none"
    # a region that does not decode is "bytes that are not a valid Arrow IPC stream": answered, then the loop may end
    return _serve_and_observe(_md_from_args(a), a.get("rows", 0), a.get("ncols", 2), static_region=region, expect_survive=region != "none")


@cond(q=60, t=240, stubs=[_STUB_READER, _STUB_INT, _STUB_RESOLVE], encoded=[wire._read_request, shm_mod.resolve_shm_batch, shm_mod.is_shm_pointer_batch],
      replay=_replay_pointer, bound="valid method/version; shm_offset / shm_length / log_level present/absent; numeric values accepted (any int) or rejected by int(); rows 0..3; columns 0..2; resolved rows 0..3",
      signature=lambda args, conc: "C05:shm-pointer:untyped-exception")
def read_request_shm_pointer(has_off: bool, off_ok: bool, off: int, has_len: bool, len_ok: bool, length: int, has_log: bool, rows: int, ncols: int,
                             decode_ok: bool, resolved_rows: int, free_raises: bool) -> bool:
    """
    pre: 0 <= rows <= 3 and 0 <= ncols <= 2 and 0 <= resolved_rows <= 3
    pre: decode_ok
    post: _
    """
    _reset()
    _H["batch"] = _Batch(ncols, rows)
    _H["decode_ok"] = decode_ok
    _H["resolved_rows"] = resolved_rows
    _H["md"] = _MD([
        _entry("method", True, b"add"), _entry("version", True, md.REQUEST_VERSION),
        _entry("off", has_off, _Num(off_ok, off)), _entry("len", has_len, _Num(len_ok, length)), _entry("log", has_log, Level.INFO.value.encode()),
    ], False)
    seg = _Seg(free_raises)
    exc: BaseException | None = None
    try:
        _read_request(object(), shm=seg)
    except Exception as e:  # noqa: BLE001
        exc = e
    kind = _classify(exc)
    if kind == "other":
        return False
    if kind == "arrow":
        # only the Arrow stub may be the source: undecodable region bytes
        return not decode_ok
    # the static segment is caller-owned: never closed by the request path
    return seg.closed == 0 and len(seg.freed) <= 1


# ---------------------------------------------------------------------------
# (3b) shm pointer whose numbers point at bytes that are not a batch; (3c) a request stream with no batch
# ---------------------------------------------------------------------------


def _replay_garbage_pointer(a: dict) -> str | None:
    """Well-framed pointer request whose offset/length name bytes that do not decode, against a real static segment."""
    good = {md.RPC_METHOD_KEY: b"add", md.REQUEST_VERSION_KEY: md.REQUEST_VERSION}
    tried = []
    off, ln = int(a.get("off", 0)), int(a.get("length", 0))
    for o, n in ((off, ln), (shm_mod.HEADER_SIZE + 4464, 10), (10**9, 10), (-5, 3), (shm_mod.HEADER_SIZE, 0)):
        if abs(o) > 10**15 or abs(n) > 10**15 or (o, n) in tried:
            continue
        tried.append((o, n))
        m = dict(good)
        m[md.SHM_OFFSET_KEY], m[md.SHM_LENGTH_KEY] = str(o).encode(), str(n).encode()
        dead = _serve_and_observe(m, 0, 2, static_region="none")
        if dead:
            return dead
    return None


@cond(q=60, t=240, stubs=[_STUB_READER, _STUB_INT, _STUB_RESOLVE + "; decode failure := pa.ArrowInvalid | OSError | StopIteration"],
      encoded=[wire._read_request, shm_mod.resolve_shm_batch], replay=_replay_garbage_pointer,
      bound="valid method/version; pointer request with any int offset/length whose region does not decode (ArrowInvalid | OSError | StopIteration); static/cached or per-request segment; free ok | ValueError",
      signature=lambda args, conc: "C05:shm-pointer:undecodable-region-ends-connection")
def read_request_shm_pointer_garbage_region(off: int, length: int, fail_kind: int, owned: bool, free_raises: bool, ncols: int) -> bool:
    """
    pre: 0 <= fail_kind <= 2 and 0 <= ncols <= 2
    post: _
    """
    _reset()
    _H["batch"] = _Batch(ncols, 0)
    _H["decode_ok"] = False
    _H["decode_fail"] = fail_kind
    _H["resolved_rows"] = 1
    _H["md"] = _MD([
        _entry("method", True, b"add"), _entry("version", True, md.REQUEST_VERSION),
        _entry("off", True, _Num(True, off)), _entry("len", True, _Num(True, length)),
    ], False)
    seg = _Seg(free_raises)
    try:
        if owned:
            _read_request(object(), attach_shm=lambda _m: seg)
        else:
            _read_request(object(), shm=seg)
    except (RpcError, VersionError):
        # the request stream itself was valid IPC and has been drained: a typed answer, the connection goes on
        return seg.closed == (1 if owned else 0) and len(seg.freed) <= 1
    except Exception:  # noqa: BLE001
        return False  # incl. ArrowInvalid / StopIteration: both END the serve loop (the latter without any reply)
    return False  # an undecodable region cannot yield a request


def _replay_empty_stream(a: dict) -> str | None:
    from vgi_rpc.utils import new_ipc_stream

    _fields, schema = _req_schema(int(a.get("ncols", 2)))
    sink = pa.BufferOutputStream()
    with new_ipc_stream(sink, schema):
        pass  # schema message + EOS, no batch
    return _serve_and_observe({}, 0, 2, raw_request=sink.getvalue().to_pybytes())


@cond(q=30, t=60, stubs=[_STUB_READER + "; or no batch at all (schema + EOS)"], encoded=[wire._read_request], replay=_replay_empty_stream,
      bound="a well-framed request stream holding zero batches; 0..2 columns",
      signature=lambda args, conc: "C05:empty-request-stream:silent-loop-end")
def read_request_empty_stream(ncols: int, with_attach: bool) -> bool:
    """
    pre: 0 <= ncols <= 2
    post: _
    """
    _reset()
    _H["no_batch"] = True
    _H["batch"] = _Batch(ncols, 0)
    _H["md"] = None
    try:
        if with_attach:
            _read_request(object(), attach_shm=lambda m: _maybe_attach(m, TransportKind.PIPE))
        else:
            _read_request(object())
    except (RpcError, VersionError):
        return True
    except Exception:  # noqa: BLE001
        return False  # StopIteration is in the serve loop's silent break list: no reply, connection gone
    return False


# ---------------------------------------------------------------------------
# (4) dynamic attach: through _read_request, and the two unguarded call sites of serve_one
# ---------------------------------------------------------------------------


class _AttachEnv:
    """Make the attach outcome the solver chose *real*: a POSIX segment for which the un-stubbed
    ShmSegment.attach does what the contract stub did (the stub ignores the name; the real function
    does not, so the counterexample's 0..3 name bytes alone cannot reproduce an outcome)."""

    def __init__(self, outcome: int) -> None:
        self.outcome = outcome
        self.owned: list = []
        self.name: bytes | None = None
        self.size = shm_mod.HEADER_SIZE + 65536

    def __enter__(self) -> "_AttachEnv":
        import os
        from multiprocessing.shared_memory import SharedMemory

        k = self.outcome
        if k == 0:  # a genuine vgi-rpc segment
            seg = shm_mod.ShmSegment.create(self.size)
            self.owned.append(seg)
            self.name, self.size = seg.name.encode(), seg.size
        elif k == 1:  # FileNotFoundError: no such segment
            self.name = b"verif-no-such-segment-%d" % os.getpid()
        elif k == 3:  # ValueError: a foreign segment that is large enough but carries no vgi-rpc header
            raw = SharedMemory(create=True, size=4096)
            self.owned.append(raw)
            self.name, self.size = raw.name.encode(), raw.size
        elif k == 4:  # OSError: a name the kernel refuses (EINVAL)
            self.name = b""
        elif k == 5:  # struct.error: a foreign segment smaller than the fixed header
            raw = SharedMemory(create=True, size=10)
            self.owned.append(raw)
            self.name, self.size = raw.name.encode(), raw.size
        # k == 2 (PermissionError) cannot be staged as root: keep the counterexample's own name
        return self

    def __exit__(self, *exc: object) -> None:
        for o in self.owned:
            try:
                o.close()
                o.unlink()
            except Exception:  # noqa: BLE001
                pass


def _replay_attach(a: dict) -> str | None:
    args = dict(a)
    args.setdefault("has_name", True)
    args.setdefault("has_size", True)
    if "rows" not in args:
        args["rows"] = 1  # refresh()/attach call site: an ordinary one-row call that advertises a segment
    if "off" in args:  # the pointer-request item always carries offset and length
        args.setdefault("has_off", True)
        args.setdefault("has_len", True)
    # 1. the request exactly as the solver produced it
    dead = _serve_and_observe(_md_from_args(args), args["rows"], 2)
    if dead:
        return dead
    # 2. the same request with the chosen attach outcome staged for real
    reaches_attach = args.get("has_name") and args.get("has_size") and args.get("size_ok", True) and not args.get("md_none")
    if not reaches_attach or "attach" not in args:
        return None
    with _AttachEnv(int(args["attach"])) as env:
        if env.name is None:
            return None
        mdd = _md_from_args(args)
        mdd[md.SHM_SEGMENT_NAME_KEY] = env.name
        mdd[md.SHM_SEGMENT_SIZE_KEY] = str(env.size).encode()
        return _serve_and_observe(mdd, args["rows"], 2)


@cond(q=60, t=240, stubs=[_STUB_INT, _STUB_ATTACH], encoded=[srv._maybe_attach_shm], replay=_replay_attach,
      bound="metadata None | {segment name: any bytes len<=3, present/absent; size: absent | rejected | any int}; transport kind in {None, PIPE, UNIX, HTTP, TCP}; attach outcome 0..5",
      signature=lambda args, conc: "C05:attach:exception-escapes")
def maybe_attach_never_raises(md_none: bool, has_name: bool, name: bytes, has_size: bool, size_ok: bool, size: int, kind: int, attach: int) -> bool:
    """
    pre: len(name) <= 3 and 0 <= kind <= 4 and 0 <= attach <= 5
    post: _
    """
    _reset()
    _H["attach"] = attach
    m = None if md_none else _MD([_entry("seg_name", has_name, name), _entry("seg_size", has_size, _Num(size_ok, size))], False)
    try:
        got = _maybe_attach(m, _KINDS[kind])
    except Exception:  # noqa: BLE001
        return False
    calls = _H.get("attach_calls", 0)
    if _KINDS[kind] == TransportKind.HTTP:
        return got is None and calls == 0  # never attaches for a remote client
    if got is not None:
        return calls == 1 and attach == 0 and got is _H.get("attached")
    return calls == 0 or attach != 0


def _seg_open(seg: object) -> bool:
    try:
        return seg.buf is not None  # type: ignore[attr-defined]
    except Exception:  # noqa: BLE001
        return False


def _replay_refresh(a: dict) -> str | None:
    """Pipe replay first; then the real _ConnectionShm over real POSIX segments (cache consistency)."""
    dead = _replay_attach(a)
    if dead:
        return dead
    if a.get("md_none") or not a.get("has_name"):
        return None
    if a.get("cached"):
        # two-request history on one connection: request 1 advertises a real segment (gets cached), request 2 is an
        # ordinary call naming the same segment (same-name case) or another one, with the counterexample's size value
        good = {md.RPC_METHOD_KEY: b"add", md.REQUEST_VERSION_KEY: md.REQUEST_VERSION}
        first = shm_mod.ShmSegment.create(shm_mod.HEADER_SIZE + 65536)
        other = shm_mod.ShmSegment.create(shm_mod.HEADER_SIZE + 131072)
        try:
            same = bytes(a["cached_name"]) == bytes(a["name"])
            target = first if same else other
            m1 = dict(good)
            m1[md.SHM_SEGMENT_NAME_KEY], m1[md.SHM_SEGMENT_SIZE_KEY] = first.name.encode(), str(first.size).encode()
            m2 = dict(good)
            m2[md.SHM_SEGMENT_NAME_KEY] = target.name.encode()
            if a.get("has_size"):
                sizes = [str(int(a["size"])).encode()] if a.get("size_ok") else [b"abc", b"", b"12.5", b"\xff"]
            else:
                sizes = [None]
            for sz in sizes:
                m2v = dict(m2)
                if sz is not None:
                    m2v[md.SHM_SEGMENT_SIZE_KEY] = sz
                dead = _serve_and_observe(m2v, 1, 2, prelude=[m1])
                if dead:
                    return "after an earlier request cached segment %r on this connection: %s" % (first.name, dead)
        finally:
            for sg in (first, other):
                try:
                    sg.close()
                    sg.unlink()
                except Exception:  # noqa: BLE001
                    pass
    owner_old = shm_mod.ShmSegment.create(shm_mod.HEADER_SIZE + 65536)
    owner_new = shm_mod.ShmSegment.create(shm_mod.HEADER_SIZE + 65536)
    conn = srv._ConnectionShm()
    staged: list = []
    try:
        old = None
        if a.get("cached"):
            old = shm_mod.ShmSegment.attach(owner_old.name, owner_old.size, track=False)
            conn.segment, conn.name = old, bytes(a["cached_name"])
        ok = a.get("attach") == 0
        env = _AttachEnv(int(a.get("attach", 1)))
        env.__enter__()
        staged.append(env)
        name = owner_new.name.encode() if ok else (env.name if env.name is not None else b"verif-no-such-segment")
        if a.get("cached") and bytes(a["cached_name"]) == bytes(a["name"]):
            name = bytes(a["cached_name"])  # same name as cached: refresh must be a no-op
        fields = {md.SHM_SEGMENT_NAME_KEY: name}
        if a.get("has_size"):
            fields[md.SHM_SEGMENT_SIZE_KEY] = str(owner_new.size).encode() if a.get("size_ok") else b"x"
        req = pa.KeyValueMetadata(fields)
        try:
            conn.refresh(req, TransportKind.UNIX if a.get("unix") else TransportKind.PIPE)
        except Exception as e:  # noqa: BLE001
            return f"_ConnectionShm.refresh raised {type(e).__name__}: {e}"
        switched = conn.segment is not old and conn.segment is not None
        if switched:
            if conn.name != name or not _seg_open(conn.segment) or (old is not None and _seg_open(old)):
                return f"after switching segments the cache holds name {conn.name!r} (advertised {name!r}); old attachment still open: {old is not None and _seg_open(old)}"
        elif old is not None and (conn.segment is None or not _seg_open(old)):
            return f"refresh for {name!r} did not attach anything but detached the cached segment {a['cached_name']!r}: later offset-only batches can no longer be resolved"
        return None
    finally:
        conn.close()
        for env_ in staged:
            env_.__exit__()
        for sg in (owner_old, owner_new):
            try:
                sg.close()
                sg.unlink()
            except Exception:  # noqa: BLE001
                pass


@cond(q=60, t=240, stubs=[_STUB_INT, _STUB_ATTACH], encoded=[srv._ConnectionShm.refresh, srv._maybe_attach_shm], replay=_replay_refresh,
      bound="history on one connection as an arbitrary cache pre-state (empty | segment of any size cached under a name, bytes len<=3) x next request naming the same / another / no segment with size absent | malformed | any int; PIPE/UNIX",
      signature=lambda args, conc: "C05:attach:exception-escapes")
def refresh_never_raises(md_none: bool, has_name: bool, name: bytes, has_size: bool, size_ok: bool, size: int, unix: bool, attach: int, cached: bool, cached_name: bytes,
                         cached_size: int = 0) -> bool:
    """
    pre: len(name) <= 3 and len(cached_name) <= 3 and 0 <= attach <= 5
    post: _
    """
    # The cache pre-state (empty | a segment of any size cached under any name by an earlier request)
    # is the inductive form of a request history on one connection: this call is "the next request",
    # naming the same or another segment with a well-formed or malformed size.
    _reset()
    _H["attach"] = attach
    old = _Seg(size=cached_size) if cached else None
    conn = _Conn(old, cached_name if cached else None)
    m = None if md_none else _MD([_entry("seg_name", has_name, name), _entry("seg_size", has_size, _Num(size_ok, size))], False)
    try:
        r = conn.refresh(m, TransportKind.UNIX if unix else TransportKind.PIPE)
    except Exception:  # noqa: BLE001
        return False
    if r is not None:
        return False
    new = _H.get("attached")
    if new is not None:
        # switched: the old attachment is detached exactly once, the new one cached under the advertised name
        return conn.segment is new and conn.name == name and (old is None or old.closed == 1)
    # nothing attached: the cache is untouched
    return conn.segment is old and (old is None or old.closed == 0) and (conn.name == cached_name if cached else conn.name is None)


@cond(q=60, t=240, stubs=[_STUB_READER, _STUB_INT, _STUB_ATTACH, _STUB_RESOLVE], encoded=[wire._read_request, srv._maybe_attach_shm, shm_mod.resolve_shm_batch], replay=_replay_attach,
      bound="pointer request (0 rows) naming its own segment: name bytes len<=3, size/offset/length accepted (any int) or rejected; attach outcome 0..5; decode ok | ArrowInvalid",
      signature=lambda args, conc: "C05:attach:exception-escapes")
def read_request_dynamic_attach(has_name: bool, name: bytes, has_size: bool, size_ok: bool, size: int, off: int, length: int, attach: int, decode_ok: bool, rows: int) -> bool:
    """
    pre: len(name) <= 3 and 0 <= attach <= 5 and 0 <= rows <= 1
    post: _
    """
    _reset()
    _H["attach"] = attach
    _H["decode_ok"] = decode_ok
    _H["resolved_rows"] = 1
    _H["batch"] = _Batch(2, rows)
    _H["md"] = _MD([
        _entry("method", True, b"add"), _entry("version", True, md.REQUEST_VERSION),
        _entry("seg_name", has_name, name), _entry("seg_size", has_size, _Num(size_ok, size)),
        _entry("off", True, _Num(True, off)), _entry("len", True, _Num(True, length)),
    ], False)
    exc: BaseException | None = None
    try:
        _read_request(object(), attach_shm=lambda m: _maybe_attach(m, TransportKind.PIPE))
    except Exception as e:  # noqa: BLE001
        exc = e
    kind = _classify(exc)
    if kind == "other":
        return False
    if kind == "arrow" and decode_ok:
        return False
    seg = _H.get("attached")
    if seg is not None:
        # a segment attached for this request is detached again before returning, its region released at most once
        return seg.closed == 1 and len(seg.freed) <= 1
    return True


# ---------------------------------------------------------------------------
# (5) which exceptions the serve loop answers / survives — read from the live source
# ---------------------------------------------------------------------------


def _call_name(c: ast.Call) -> str:
    return c.func.attr if isinstance(c.func, ast.Attribute) else getattr(c.func, "id", "")


def _calls_outside_nested_try(stmts: list) -> set[str]:
    names: set[str] = set()
    stack = list(stmts)
    while stack:
        n = stack.pop()
        if isinstance(n, ast.Try):
            continue
        if isinstance(n, ast.Call):
            names.add(_call_name(n))
        stack.extend(ast.iter_child_nodes(n))
    return names


def _handler_names(fn: object, around_call: str) -> list[list[str]]:
    """Exception class names of every ``except`` clause of the ``try`` whose body directly calls *around_call*."""
    tree = ast.parse(textwrap.dedent(inspect.getsource(fn)))  # type: ignore[arg-type]
    out: list[list[str]] = []
    for node in ast.walk(tree):
        if not isinstance(node, ast.Try) or around_call not in _calls_outside_nested_try(node.body):
            continue
        for h in node.handlers:
            t = h.type
            elts = t.elts if isinstance(t, ast.Tuple) else ([t] if t is not None else [])
            tags = (["<returns>"] if any(isinstance(x, ast.Return) for x in h.body) else []) + (["<raises>"] if any(isinstance(x, ast.Raise) for x in h.body) else []) + (["<break>"] if any(isinstance(x, ast.Break) for x in h.body) else [])
            out.append([ast.unparse(e) for e in elts] + tags)
    return out


@task(q=10, t=10, encoded=[srv.RpcServer.serve_one, srv.RpcServer.serve], bound="live source", engine="assumption-check")
def serve_loop_answers_typed_errors(budget: float, replay=None) -> dict:
    """ASSUMPTION CHECK, not a deciding step: the conditions assume that serve_one answers typed
    errors and returns; this item re-reads that from the live source (the z3 query is a trivial
    propositional restatement and adds nothing a set comparison would not).

    serve_one must catch RpcError and VersionError around _read_request, write an error stream and
    *return*; z3 checks that the handler set read from the AST covers both typed classes and that
    the serve loop's break list contains none of the untyped classes the conditions reject.
    """
    import time

    import z3

    t0 = time.monotonic()
    one = _handler_names(srv.RpcServer.serve_one, "_read_request")
    loop = _handler_names(srv.RpcServer.serve, "serve_one")
    answered = {n for h in one if "<returns>" in h for n in h}
    breaks = {n for h in loop for n in h}
    # booleans: class c is answered-and-continues; query: exists typed class not answered
    typed = ["RpcError", "VersionError"]
    s = z3.Solver()
    vars_ = {c: z3.Bool(c) for c in typed}
    for c in typed:
        s.add(vars_[c] == z3.BoolVal(c in answered))
    s.add(z3.Not(z3.And(*vars_.values())))
    r = s.check()
    res = {"queries": 1, "discharged": 1 if r == z3.unsat else 0, "solver_s": round(time.monotonic() - t0, 3),
           "samples": [{"serve_one handlers around _read_request": one, "serve handlers around serve_one": loop}]}
    if r == z3.unsat:
        res["verdict"] = "CONFIRMED"
        res["detail"] = f"answered-and-continue: {sorted(answered)}; loop-ending: {sorted(breaks)}"
    elif r == z3.sat:
        res.update(verdict="INCONCLUSIVE", detail=f"serve_one no longer answers every typed error and returns: handlers {one}")
    else:
        res.update(verdict="INCONCLUSIVE", detail="solver unknown")
    return res
