"""C40 — capability headers advertise exactly the configuration.

The real ``make_wsgi_app`` is *executed* with symbolic limits (each ``int | None``), a symbolic sticky TTL and
symbolic feature flags; the ``_CapabilitiesMiddleware`` it built is pulled out of the falcon app, its real
``process_response`` is run on a fake request/response (symbolic HTTP method, symbolic outcome flag), and the real
``http_capabilities`` parses the produced header map through a fake client.

Asserted: header present <=> feature configured; value == str(configured value) (list-valued headers: the same
set of comma-separated tokens, whatever the spacing / order / case); every call sets all of them
(whatever the method / success flag); no other ``VGI-*`` header; the probe reads every int back exactly
(``int(str(n)) == n`` for unbounded n is the solver's part) together with the boolean features.
"""

from __future__ import annotations

import time as _time_mod
import warnings
from typing import Optional, Protocol

from engine.api import HarnessModelError, cond, pick
from engine.reglob import reglobalize

from vgi_rpc.external import ExternalLocationConfig
from vgi_rpc.http import _client as hc
from vgi_rpc.http import _common as hcommon
from vgi_rpc.http.server import _factory as fac
from vgi_rpc.http.server import _introspect as intro
from vgi_rpc.http.server import _middleware as mw
from vgi_rpc.http.server._introspect import TokenIdentity
from vgi_rpc.rpc import RpcServer

PROPERTY = "C40"
ENCODED = [fac.make_wsgi_app, mw._CapabilitiesMiddleware.process_response, hc.http_capabilities]
BOUNDS = (
    "max_request_bytes / max_response_bytes / max_externalized_response_bytes / max_upload_bytes: any int or None "
    "and sticky_default_ttl: presence in all 16x2 combinations with fixed values, and one value at a time = any int "
    "0..%d; external-location mode (none / resolve-only without storage / with storage), upload provider, compression on/off, sticky, echo headers, proof-required, "
    "introspection: all 192 combinations; request method: any of 6 x success flag on two configurations; thorough "
    "tier: the full 3072-configuration product with fixed values" % pick(10**5, 10**7)
)
OUTSIDE = (
    "interaction between the groups above in the quick tier (limits x features x method are decided group by group, "
    "the factory builds each header in an independent `if`); ints outside the stated range (CrossHair enumerates the "
    "digit count of str(n)/int(s), it does not decide the round trip for unbounded n); "
    "Falcon invoking the middleware on error / 401 / 404 / OPTIONS / HEAD responses (the middleware is run directly; "
    "the replay checks those route kinds on the real app for the counterexample configuration only); a non-integral "
    "float sticky_default_ttl (the header carries int(ttl)); CORS expose list; zstd availability in the interpreter; "
    "Cache-Control on the discovery response (a MAY in WIRE_PROTOCOL) and the client's cache_expires_at stamp; spacing / order / "
    "case inside the comma-separated list headers; headers that are not VGI-* (not capability headers)"
)
ASSUMPTIONS = [
    "sticky_default_ttl modelled as int (symbolic floats are ~60x slower; the factory renders str(int(ttl)))",
    "falcon request/response and the HTTP client are attribute fakes: set_header/method on the server side, "
    "options()->headers.get() (case-insensitive) on the client side",
    "token_key fixed; os.urandom not reached",
]


class _P(Protocol):
    def ping(self) -> str: ...


class _Impl:
    def ping(self) -> str:
        return "pong"


class _Storage:
    """Opaque storage backend (never called: only its presence is advertised)."""

    def __getattr__(self, name: str) -> object:
        raise HarnessModelError(f"storage.{name} used")


class _UploadProvider:
    def generate_upload_url(self, schema: object) -> object:
        raise HarnessModelError("upload provider used")


def _resolver(token: str) -> TokenIdentity | None:
    return None


with warnings.catch_warnings():
    warnings.simplefilter("ignore")
    _SERVER_PLAIN = RpcServer(_P, _Impl())
    _SERVER_STORAGE = RpcServer(_P, _Impl(), external_location=ExternalLocationConfig(storage=_Storage()))  # type: ignore[arg-type]
    # external-location config used only to *resolve* externalised inputs: no storage backend, nothing can be externalised
    _SERVER_RESOLVE_ONLY = RpcServer(_P, _Impl(), external_location=ExternalLocationConfig(storage=None))

# `ext` (external-location mode) everywhere below: 0 = no external config, 1 = resolve-only config (storage=None),
# 2 = config with a storage backend.  HttpServerCapabilities documents externalization_enabled as
# "True iff the server has a storage backend wired up", i.e. ext == 2.
_EXT_FULL = 2

_ECHO = {"X-Shard": "a", "X-Zone": "b"}
_METHODS = ["OPTIONS", "GET", "HEAD", "POST", "DELETE", "PUT"]


def _find_capabilities_middleware(app: object) -> object | None:
    """The instance the factory handed to falcon (falcon keeps the bound process_response methods)."""
    found = []
    stack = [getattr(app, "_middleware", None), getattr(app, "_unprepared_middleware", None)]
    seen = 0
    while stack and seen < 200:
        seen += 1
        item = stack.pop()
        if item is None:
            continue
        if isinstance(item, mw._CapabilitiesMiddleware):
            if not any(item is f for f in found):
                found.append(item)
            continue
        owner = getattr(item, "__self__", None)
        if isinstance(owner, mw._CapabilitiesMiddleware):
            if not any(owner is f for f in found):
                found.append(owner)
            continue
        if isinstance(item, (list, tuple)):
            stack.extend(item)
    if len(found) > 1:
        raise HarnessModelError("more than one _CapabilitiesMiddleware in the app")
    return found[0] if found else None


def _unmodelled(who: str, name: str) -> object:
    raise HarnessModelError(f"C40 {who} fake: attribute {name!r} is not modelled")


class _Req:
    def __init__(self, method: str) -> None:
        self.method = method
        self.path = "/health"

    def __getattr__(self, name: str) -> object:
        return _unmodelled("request", name)


class _Resp:
    def __init__(self) -> None:
        self.headers: list = []

    def set_header(self, name: str, value: str) -> None:
        self.headers = [(n, v) for n, v in self.headers if n.lower() != name.lower()] + [(name, value)]

    def get_header(self, name: str, default: object = None) -> object:
        return _Headers(self.headers).get(name, default)

    def __getattr__(self, name: str) -> object:
        return _unmodelled("response", name)


class _Headers:
    """Case-insensitive header map of the probe response (linear scan: values may be symbolic)."""

    def __init__(self, pairs: list) -> None:
        self._pairs = pairs

    def get(self, name: str, default: object = None) -> object:
        for n, v in self._pairs:
            if n.lower() == name.lower():
                return v
        return default

    def __getattr__(self, name: str) -> object:
        return _unmodelled("header map", name)


class _ProbeResponse:
    status_code = 200

    def __init__(self, pairs: list) -> None:
        self.headers = _Headers(pairs)

    def __getattr__(self, name: str) -> object:
        return _unmodelled("probe response", name)


class _ProbeClient:
    prefix = ""

    def __init__(self, pairs: list) -> None:
        self._pairs = pairs
        self.urls: list = []

    def options(self, url: str, *a: object, **kw: object) -> _ProbeResponse:
        self.urls.append(url)
        return _ProbeResponse(self._pairs)

    # WIRE_PROTOCOL: "HEAD and GET carry the same headers" - a probe may use any of the three verbs
    head = options
    get = options

    def close(self) -> None:
        return None

    def __getattr__(self, name: str) -> object:
        return _unmodelled("probe client", name)


def _fixed_clock() -> float:
    return 1000.0


def _get(pairs: list, name: str) -> object:
    for n, v in pairs:
        if n.lower() == name.lower():
            return v
    return None


class _FakeApp:
    """falcon.App as the factory uses it: remembers what it is given (route compilation is not the subject and
    makes the traced factory ~50x slower)."""

    def __init__(self, middleware: object = None, **kw: object) -> None:
        self._unprepared_middleware = list(middleware or [])  # type: ignore[call-overload]
        self.routes: list = []
        self.sinks: list = []

    def add_route(self, template: str, resource: object, **kw: object) -> None:
        self.routes.append((template, resource))

    def add_sink(self, sink: object, prefix: str = "/") -> None:
        self.sinks.append(sink)

    def set_error_serializer(self, serializer: object) -> None:
        self.error_serializer = serializer

    def add_error_handler(self, *a: object, **kw: object) -> None:
        return None

    def add_middleware(self, m: object) -> None:
        self._unprepared_middleware.append(m)


class _FakeFalcon:
    App = _FakeApp

    def __getattr__(self, name: str) -> object:
        raise HarnessModelError(f"falcon.{name} used by make_wsgi_app is not modelled")


_make_wsgi_app = reglobalize(fac.make_wsgi_app, falcon=_FakeFalcon())


def _build_app(mreq, mresp, mext, mup, ttl, storage, provider, compression, sticky, echo, proof, introspect, real: bool = False, alias: bool = False):
    with warnings.catch_warnings():
        warnings.simplefilter("ignore")
        return (fac.make_wsgi_app if real else _make_wsgi_app)(
            _SERVER_STORAGE if storage == _EXT_FULL else (_SERVER_RESOLVE_ONLY if storage == 1 else _SERVER_PLAIN),
            token_key=b"k" * 32,
            max_request_bytes=mreq,
            max_response_bytes=None if alias else mresp,
            max_stream_response_bytes=mresp if alias else None,  # deprecated spelling of the same limit
            max_externalized_response_bytes=mext,
            upload_url_provider=_UploadProvider() if provider else None,  # type: ignore[arg-type]
            max_upload_bytes=mup,
            compression_level=1 if compression else None,
            enable_sticky=sticky,
            sticky_default_ttl=ttl,
            sticky_echo_headers=_ECHO if echo else None,
            proxy_proof_required=proof,
            introspect_resolver=_resolver if introspect else None,
            introspect_principals=["proxy"] if introspect else None,
            # page rendering is irrelevant to the headers and dominates the traced run time
            enable_not_found_page=False,
            enable_landing_page=False,
            enable_describe_page=False,
        )


def _expected_headers(mreq, mresp, mext, mup, ttl, storage, provider, compression, sticky, echo, proof, introspect) -> list:
    """The specification: (header name, expected value | None when it must be absent | Ellipsis = 'non-empty list')."""
    return [
        (hcommon.MAX_REQUEST_BYTES_HEADER, None if mreq is None else str(mreq)),
        (hcommon.MAX_RESPONSE_BYTES_HEADER, None if mresp is None else str(mresp)),
        (hcommon.MAX_EXTERNALIZED_RESPONSE_BYTES_HEADER, None if mext is None else str(mext)),
        (hcommon.EXTERNALIZATION_ENABLED_HEADER, "true" if storage == _EXT_FULL else "false"),
        (hcommon.UPLOAD_URL_HEADER, "true" if provider else None),
        (hcommon.MAX_UPLOAD_BYTES_HEADER, str(mup) if (provider and mup is not None) else None),
        (hcommon.SUPPORTED_ENCODINGS_HEADER, ... if compression else ""),
        (hcommon.PROOF_REQUIRED_HEADER, "true" if proof else None),
        (intro.INTROSPECT_ENABLED_HEADER, "true" if introspect else None),
        (hcommon.STICKY_ENABLED_HEADER, "true" if sticky else None),
        (hcommon.STICKY_DEFAULT_TTL_HEADER, str(ttl) if sticky else None),
        # WIRE_PROTOCOL: "Comma-separated header names" - separator spacing, order and case are not part of the contract
        (hcommon.STICKY_ECHO_HEADERS_HEADER, _Names(_ECHO) if (sticky and echo) else None),
    ]


def _tokens(value: object) -> list | None:
    """A comma-separated header value as the sorted list of its lower-cased non-empty tokens."""
    if not isinstance(value, str):
        return None
    return sorted(t.strip().lower() for t in value.split(",") if t.strip() != "")


class _Names:
    """Expected value 'a comma-separated list holding exactly these header names'."""

    def __init__(self, names: object) -> None:
        self.names = sorted(str(n).lower() for n in names)  # type: ignore[attr-defined]

    def matches(self, got: object) -> bool:
        return _tokens(got) == self.names

    def __repr__(self) -> str:
        return "a comma-separated list of exactly " + repr(self.names)


def _header_bad(want: object, got: object) -> bool:
    if want is None:
        return got is not None
    if want is ...:
        return not isinstance(got, str) or got.strip() == ""
    if isinstance(want, _Names):
        return not want.matches(got)
    return got != want


def _check(mreq, mresp, mext, mup, ttl, storage, provider, compression, sticky, echo, proof, introspect, method: int, succeeded: bool, alias: bool = False) -> bool:
    cfg = (mreq, mresp, mext, mup, ttl, storage, provider, compression, sticky, echo, proof, introspect)
    app = _build_app(*cfg, alias=alias)
    cap = _find_capabilities_middleware(app)
    if cap is None:
        return False  # EXTERNALIZATION_ENABLED / SUPPORTED_ENCODINGS are always advertised, so there is always one
    spec = _expected_headers(*cfg)
    # (1) any response: every capability header, nothing else capability-like, Cache-Control only on OPTIONS
    verb = "OPTIONS"
    for i, m in enumerate(_METHODS):
        if i == method:
            verb = m
    resp = _Resp()
    cap.process_response(_Req(verb), resp, None, succeeded)  # type: ignore[attr-defined]
    names = [n.lower() for n, _v in spec]
    for name, want in spec:
        if _header_bad(want, _get(resp.headers, name)):
            return False
    # "exactly the capability headers": no capability-like (VGI-*) header beyond the spec'd ones.  Other headers
    # (Cache-Control - "MAY" on the discovery response -, Vary, ...) are not the property's business.
    for n, _v in resp.headers:
        if n.lower().startswith("vgi-") and n.lower() not in names:
            return False
    # (2) the client's probe reads the configuration back
    probe_resp = _Resp()
    cap.process_response(_Req("OPTIONS"), probe_resp, None, True)  # type: ignore[attr-defined]
    client = _ProbeClient(probe_resp.headers)
    # http_capabilities does `import time as _time` locally and stamps cache_expires_at = monotonic() + max-age.
    # CrossHair models time.monotonic() as a fresh symbolic float per call (several paths per call); the clock is
    # environment here, so it is pinned for the duration of the call (only `is not None` is asserted on the stamp).
    real_monotonic = _time_mod.monotonic
    _time_mod.monotonic = _fixed_clock
    try:
        caps = hc.http_capabilities(client=client)  # type: ignore[arg-type]
    finally:
        _time_mod.monotonic = real_monotonic
    # the discovery target is {prefix}/health (WIRE_PROTOCOL); how many requests the probe makes is its business
    if not client.urls or any(u != "/health" for u in client.urls):
        return False
    if caps.max_request_bytes != mreq or caps.max_response_bytes != mresp or caps.max_externalized_response_bytes != mext:
        return False
    if caps.externalization_enabled != (storage == _EXT_FULL) or caps.upload_url_support != provider:
        return False
    if caps.max_upload_bytes != (mup if provider else None):
        return False
    if caps.sticky_enabled != sticky or caps.sticky_default_ttl != (ttl if sticky else None):
        return False
    if sorted(str(h).lower() for h in caps.sticky_echo_headers) != (sorted(h.lower() for h in _ECHO) if (sticky and echo) else []):
        return False
    if compression:
        if len(caps.supported_encodings) == 0:
            return False
        advertised = _get(probe_resp.headers, hcommon.SUPPORTED_ENCODINGS_HEADER)
        adv = _tokens(advertised) or []
        # every codec read back was advertised (a client may not know every advertised token)
        if any(str(e.value).lower() not in adv for e in caps.supported_encodings):
            return False
    elif len(caps.supported_encodings) != 0:
        return False
    # Cache-Control on the discovery response is a MAY: the refresh stamp is not part of the configuration read back
    return True


def _replay_real_app(args: dict) -> str | None:
    """Un-stubbed: the real app behind falcon's test client; every route kind must carry exactly the spec'd headers
    and the real http_capabilities probe must read the configuration back."""
    from vgi_rpc.http._testing import _SyncTestClient  # noqa: PLC0415

    cfg = tuple(args.get(k) for k in ("mreq", "mresp", "mext", "mup")) + (args.get("ttl", 300), int(args.get("storage") or 0)) + tuple(
        bool(args.get(k)) for k in ("provider", "compression", "sticky", "echo", "proof", "introspect")
    )
    import falcon.testing

    app = _build_app(*cfg, real=True, alias=bool(args.get("alias")))
    tc = falcon.testing.TestClient(app)
    spec = _expected_headers(*cfg)
    probes = [("OPTIONS", "/health"), ("GET", "/health"), ("HEAD", "/health"), ("GET", "/no/such/route"), ("POST", "/ping"), ("POST", "/nope"), ("POST", "/__introspect_token__")]
    for verb, path in probes:
        r = tc.simulate_request(verb, path, body=b"garbage" if verb == "POST" else None)
        hdr = {k.lower(): v for k, v in r.headers.items()}
        for name, want in spec:
            got = hdr.get(name.lower())
            if _header_bad(want, got):
                return f"{verb} {path} -> {r.status_code}: header {name} = {got!r}, configuration implies {('absent' if want is None else 'a codec list' if want is ... else repr(want))}"
        if path == "/health":
            # the pure discovery response: nothing capability-like beyond the spec'd table
            known = [n.lower() for n, _w in spec]
            for k in hdr:
                if k.startswith("vgi-") and k not in known:
                    return f"{verb} {path} -> {r.status_code}: carries {k}: {hdr[k]!r}, which no configured feature implies (not in the capability table)"
    mreq, mresp, mext, mup, ttl, storage, provider, compression, sticky, echo, proof, introspect = cfg
    want = (mreq, mresp, mext, storage == _EXT_FULL, provider, mup if provider else None, sticky, ttl if sticky else None,
            tuple(sorted(h.lower() for h in _ECHO)) if (sticky and echo) else (), compression)  # fmt: skip
    # two real clients: the repo's test client (lower-cased plain dict headers) and an httpx-like one
    # (case-insensitive header lookup) fed with the real app's real OPTIONS /health response
    real_options = tc.simulate_request("OPTIONS", "/health")
    for label, client in (("_SyncTestClient", _SyncTestClient(app)), ("case-insensitive client", _ProbeClient(list(real_options.headers.items())))):
        try:
            caps = hc.http_capabilities(client=client)  # type: ignore[arg-type]
        except Exception as e:  # noqa: BLE001
            return f"http_capabilities failed on the real app ({label}): {type(e).__name__}: {e}"
        got = _caps_tuple(caps)
        if got != want:
            return f"http_capabilities ({label}) read back {got}, configuration is {want}"
    return None


def _caps_tuple(caps: object) -> tuple:
    return (caps.max_request_bytes, caps.max_response_bytes, caps.max_externalized_response_bytes, caps.externalization_enabled, caps.upload_url_support,
           caps.max_upload_bytes, caps.sticky_enabled, caps.sticky_default_ttl, tuple(sorted(str(h).lower() for h in caps.sticky_echo_headers)),
           bool(caps.supported_encodings))  # fmt: skip


def _canon(args: dict) -> dict:
    """Item arguments -> the configuration the item builds (same mapping as the condition bodies)."""
    if "rich" in args:
        if args["rich"]:
            return dict(mreq=1000, mresp=2000, mext=3000, mup=4000, ttl=60, storage=_EXT_FULL, provider=True, compression=True, sticky=True, echo=True, proof=True, introspect=True)
        return dict(mreq=None, mresp=None, mext=None, mup=None, ttl=300, compression=False)
    out = dict(args)
    if "has_req" in args:
        out.update(mreq=1001 if args["has_req"] else None, mresp=2002 if args["has_resp"] else None, mext=3003 if args["has_ext"] else None)
        out.setdefault("compression", True)
        out.setdefault("ttl", 60 if "storage" in args else 300)
    if "has_up" in args:
        out["mup"] = 4004 if args["has_up"] else None
    out.setdefault("ttl", 300)
    return out


def _replay_item(args: dict) -> str | None:
    return _replay_real_app(_canon(args))


_STUBS = ["falcon req/resp + HTTP client := attribute fakes", "time.monotonic := fixed clock while http_capabilities runs", "falcon.App := recorder of middleware/routes (no route compilation)"]
_SIG = lambda args, conc: "C40:capability-headers-differ-from-configuration"  # noqa: E731


@cond(q=60, t=300, stubs=_STUBS, encoded=ENCODED, replay=_replay_item, signature=_SIG,
      bound="which of the four byte limits are configured (16 combinations) x upload provider on/off x response cap passed as max_response_bytes or its deprecated alias; configured values fixed and distinct")
def limit_headers_present_iff_configured(has_req: bool, has_resp: bool, has_ext: bool, has_up: bool, provider: bool, alias: bool) -> bool:
    """
    post: _
    """
    return _check(1001 if has_req else None, 2002 if has_resp else None, 3003 if has_ext else None, 4004 if has_up else None,
                  300, 0, provider, True, False, False, False, False, 0, True, alias=alias)  # fmt: skip


_NMAX = pick(10**5, 10**7)


def _args_one_value(which: int, n: int) -> dict:
    return {"mreq": n if which == 0 else None, "mresp": n if which == 1 else None, "mext": n if which == 2 else None,
            "mup": n if which == 3 else None, "ttl": n if which == 4 else 300, "provider": which == 3, "sticky": which == 4, "compression": True}  # fmt: skip


@cond(q=60, t=900, stubs=_STUBS, encoded=ENCODED, replay=lambda args: _replay_real_app(_args_one_value(args["which"], args["n"])), signature=_SIG,
      bound="one numeric setting at a time (4 byte limits, sticky ttl) = any int 0..%d, rendered by the factory and parsed back by the probe" % _NMAX)
def each_numeric_value_rendered_and_read_back(which: int, n: int) -> bool:
    """
    pre: 0 <= which <= 4 and 0 <= n <= _NMAX
    post: _
    """
    a = _args_one_value(which, n)
    return _check(a["mreq"], a["mresp"], a["mext"], a["mup"], a["ttl"], 0, a["provider"], True, a["sticky"], False, False, False, 0, True)


@cond(q=60, t=300, stubs=_STUBS, encoded=ENCODED, replay=_replay_item, signature=_SIG,
      bound="external-location mode {none, resolve-only config without storage, config with storage} x upload provider x compression x sticky x echo headers x proof-required x introspection: all 192 combinations; limits unset; ttl fixed")
def features_advertised_and_read_back(storage: int, provider: bool, compression: bool, sticky: bool, echo: bool, proof: bool, introspect: bool) -> bool:
    """
    pre: 0 <= storage <= 2
    post: _
    """
    return _check(None, None, None, None, 300, storage, provider, compression, sticky, echo, proof, introspect, 0, True)


@cond(q=60, t=300, stubs=_STUBS, encoded=ENCODED, replay=_replay_item, signature=_SIG,
      bound="any of 6 request methods x success flag x {everything configured, nothing configured}")
def every_response_carries_all_headers(method: int, succeeded: bool, rich: bool) -> bool:
    """
    pre: 0 <= method <= 5
    post: _
    """
    if rich:
        return _check(1000, 2000, 3000, 4000, 60, _EXT_FULL, True, True, True, True, True, True, method, succeeded)
    return _check(None, None, None, None, 300, 0, False, False, False, False, False, False, method, succeeded)


@cond(q=600, t=1800, tiers=("thorough",), stubs=_STUBS, encoded=ENCODED, replay=_replay_item, signature=_SIG,
      bound="full product: which limits are configured (16) x upload provider x external-location mode (3) x compression x sticky x echo x proof x introspection (3072 configurations), fixed values")
def capability_headers_equal_configuration(has_req: bool, has_resp: bool, has_ext: bool, has_up: bool, storage: int, provider: bool, compression: bool,
                                           sticky: bool, echo: bool, proof: bool, introspect: bool) -> bool:  # fmt: skip
    """
    pre: 0 <= storage <= 2
    post: _
    """
    return _check(1001 if has_req else None, 2002 if has_resp else None, 3003 if has_ext else None, 4004 if has_up else None,
                  60, storage, provider, compression, sticky, echo, proof, introspect, 0, True)  # fmt: skip
