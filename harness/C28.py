"""C28 — shared-memory allocations never overlap or overflow.

(a) ONE INDUCTIVE STEP on the real bytecode of ``ShmAllocator.allocate`` / ``free`` /
    ``_read_allocs`` / ``_write_allocs`` (re-globalised: ``struct`` / ``_HEADER_STRUCT`` /
    ``_ALLOC_STRUCT`` are a field-granular little-endian memory model built from the *live*
    format strings, ``MAX_ALLOCS`` is 4 so the limit branch is reachable).  The pre-state is an
    arbitrary allocation table satisfying the representation invariant *Inv*; the post-state is
    read back from the memory model by the harness.  One step from an arbitrary *Inv* state
    covers allocate/free histories of any length.
    A z3 task ties the patched capacity back to the live constants (table fits the header).
(b) ``ShmSegment.allocate_and_write`` + ``_ShmSink.write`` (real bytecode) over a size-abstract
    Arrow model: every byte range stored into the segment lies inside the range that was
    allocated for this batch.  The column TYPE is structural and symbolic (plain / dictionary,
    bare or nested in list-likes, structs, extension types): whether the writer will emit
    dictionary messages is decided by the repository's own helpers (``_has_dictionary_columns``,
    ``_type_contains_dictionary``, whatever allocate_and_write reaches) running un-stubbed on
    that type tree, while the Arrow model emits them iff the tree really nests a dictionary.
    Replay = real pyarrow batch of that type on a real POSIX segment between live neighbours.
"""

from __future__ import annotations

import random
import struct as _real_struct

from engine.api import SEED, HarnessModelError, cond, pick, task
from engine.reglob import reglobalize

from vgi_rpc import shm

PROPERTY = "C28"
ENCODED = [
    shm.ShmAllocator.allocate,
    shm.ShmAllocator.free,
    shm.ShmAllocator._read_allocs,
    shm.ShmAllocator._write_allocs,
    shm.ShmSegment.allocate_and_write,
    shm._ShmSink.write,
]

_CAP = 4  # patched MAX_ALLOCS (live value is read for the header-fit task)
_HS = shm.HEADER_SIZE
_U64 = 2**64

BOUNDS = (
    "allocator: one step from ANY table of <=%d entries satisfying Inv (offsets/lengths/total/size unbounded ints, total < 2**64), "
    "any size > 0, MAX_ALLOCS patched to %d; write: schema-message size, record-batch size, dictionary-message / dict-path size, segment size unbounded "
    "non-negative ints; column type = any chain of <= 2 (quick) / 3 (thorough) wrappers {list-like, struct, extension} around a plain or dictionary type, "
    "decided by the REAL _has_dictionary_columns / _type_contains_dictionary" % (_CAP, _CAP)
)
OUTSIDE = (
    "Arrow C++ framing itself (sizes enter as symbolic ints under the stated size model, validated against real pyarrow at import); "
    "POSIX shm / mmap; concurrent use of one segment by both peers (the protocol is lockstep); tables with more than 4 live entries "
    "are covered only through the inductive argument (the loop body is the same code per entry); the near-capacity log warning; "
    "allocate() with a non-positive size (the property speaks about positive sizes); union / run-end-encoded parents of a dictionary "
    "(structurally 'k child fields', like struct); several dictionary columns in one schema; what allocate()/free() return beyond the offset"
)
ASSUMPTIONS = [
    "Inv (sorted, non-overlapping, inside [HEADER_SIZE, total], lengths > 0, count <= MAX_ALLOCS) holds initially: ShmAllocator.initialize writes count 0",
    "MAX_ALLOCS := 4 in the analysed copy of allocate(); header capacity of the memory model = 4 entries (real: 4094 entries, z3 task checks they fit the real header)",
    "Arrow size model: stream bytes = schema message S (written lazily before the first batch) + record batch message B == ipc.get_record_batch_size(batch) + 8 bytes EOS; "
    "batch.schema.serialize().size == S; plus D > 0 bytes of dictionary messages between schema and batch message iff some column is, or nests at any depth "
    "(list / struct / map / extension storage), a dictionary type; validated on concrete real-pyarrow batches (every quick-tier shape, 0 and 3 rows) at import",
    "Arrow types := structure-only objects (num_fields / field(i).type / storage_type / is-dictionary flag), interface validated against real pyarrow types at import",
    "allocator contract used in (b) (justified by (a)): allocate(n) returns None or an offset with HEADER_SIZE <= off and off + n <= total",
    "functools.lru_cache objects called directly by allocate_and_write := plain-Python memo (hit = equal hash and ==); CrossHair itself bypasses lru_cache",
]


# ---------------------------------------------------------------------------
# field-granular struct / memory model
# ---------------------------------------------------------------------------


def _parse_fmt(fmt: str) -> list[tuple[str, int]]:
    """'<4sIQII' -> [('s',4),('I',4),('Q',8),('I',4),('I',4)] (little-endian, unpadded only)."""
    if not fmt.startswith("<"):
        raise HarnessModelError(f"struct model: only '<' formats are modelled, got {fmt!r}")
    out: list[tuple[str, int]] = []
    num = ""
    for ch in fmt[1:]:
        if ch.isdigit():
            num += ch
            continue
        if ch == "s":
            out.append(("s", int(num or "1")))
        elif ch in ("I", "Q"):
            for _ in range(int(num or "1")):
                out.append((ch, 4 if ch == "I" else 8))
        else:
            raise HarnessModelError(f"struct model: format code {ch!r} not modelled")
        num = ""
    return out


_FMT_CACHE: dict[str, list[tuple[str, int]]] = {f: _parse_fmt(f) for f in (shm._HEADER_FMT, shm._ALLOC_FMT, "<I", "<Q")}


def _layout(fmt: str) -> list[tuple[str, int]]:
    got = _FMT_CACHE.get(fmt)
    return got if got is not None else _parse_fmt(fmt)


class _HeaderOverflow(Exception):
    """A field was stored outside the header table (would land in the data region)."""


class _Mem:
    """The segment header as a set of typed little-endian fields keyed by byte offset."""

    def __init__(self, limit: int) -> None:
        self.cells: list[list] = []  # [offset, width, value]
        self.limit = limit
        self.stores = 0

    def preset(self, off: int, width: int, value: object) -> None:
        self.cells.append([off, width, value])

    def load(self, off: int, width: int) -> object:
        for c in self.cells:
            if c[0] == off:
                if c[1] != width:
                    raise HarnessModelError("struct model: field read with a different width than it was written")
                return c[2]
        for c in self.cells:
            if c[0] < off + width and off < c[0] + c[1]:
                raise HarnessModelError("struct model: read straddles fields")
        if off < 0 or off + width > self.limit:
            raise _real_struct.error("unpack_from requires a buffer of at least %d bytes" % (off + width))
        raise HarnessModelError("struct model: read of a field that was never written")

    def store(self, off: int, width: int, value: object) -> None:
        if off < 0 or off + width > self.limit:
            raise _HeaderOverflow(off)
        self.stores += 1
        for c in self.cells:
            if c[0] == off:
                if c[1] != width:
                    raise HarnessModelError("struct model: field written with a different width")
                c[2] = value
                return
        for c in self.cells:
            if c[0] < off + width and off < c[0] + c[1]:
                raise HarnessModelError("struct model: write straddles fields")
        self.cells.append([off, width, value])


def _check_range(code: str, width: int, v: object) -> None:
    if code == "s":
        return
    if not isinstance(v, int):
        raise _real_struct.error("required argument is not an integer")
    if v < 0 or v >= (1 << (8 * width)):
        raise _real_struct.error("argument out of range")


def _m_unpack_from(fmt: str, buf: _Mem, offset: int = 0) -> tuple:
    if not isinstance(buf, _Mem):
        raise HarnessModelError("struct model used on a foreign buffer")
    out = []
    pos = offset
    for _code, width in _layout(fmt):
        out.append(buf.load(pos, width))
        pos += width
    return tuple(out)


def _m_pack_into(fmt: str, buf: _Mem, offset: int, *values: object) -> None:
    if not isinstance(buf, _Mem):
        raise HarnessModelError("struct model used on a foreign buffer")
    lay = _layout(fmt)
    if len(values) != len(lay):
        raise _real_struct.error("pack_into expected %d items for packing (got %d)" % (len(lay), len(values)))
    for (code, width), v in zip(lay, values):
        _check_range(code, width, v)
    pos = offset
    for (_code, width), v in zip(lay, values):
        buf.store(pos, width, v)
        pos += width


class _StructModule:
    error = _real_struct.error
    unpack_from = staticmethod(_m_unpack_from)
    pack_into = staticmethod(_m_pack_into)

    def __getattr__(self, name: str) -> object:
        raise HarnessModelError(f"struct.{name} is not modelled")


class _StructObj:
    def __init__(self, fmt: str) -> None:
        self.format = fmt
        self.size = sum(w for _c, w in _layout(fmt))

    def unpack_from(self, buf: _Mem, offset: int = 0) -> tuple:
        return _m_unpack_from(self.format, buf, offset)

    def pack_into(self, buf: _Mem, offset: int, *values: object) -> None:
        _m_pack_into(self.format, buf, offset, *values)

    def __getattr__(self, name: str) -> object:
        raise HarnessModelError(f"Struct.{name} is not modelled")


_STRUCT = _StructModule()
_HDR_S = _StructObj(shm._HEADER_FMT)
_ALLOC_S = _StructObj(shm._ALLOC_FMT)
_BASE = _HDR_S.size
_ESZ = _ALLOC_S.size
_COUNT_OFF = 16  # documented header layout: num_allocs at byte 16


def _validate_struct_model() -> None:
    """The model against the real struct on concrete vectors (model validation, not a verdict)."""
    rng = random.Random(SEED or 1)
    if _HDR_S.size != shm._HEADER_STRUCT.size or _ALLOC_S.size != shm._ALLOC_STRUCT.size:
        raise HarnessModelError("struct model: sizes disagree with the live Struct objects")
    # the count field of the header format sits at byte 16 and is a uint32
    pos, found = 0, False
    for code, width in _layout(shm._HEADER_FMT):
        if pos == _COUNT_OFF and code == "I":
            found = True
        pos += width
    if not found:
        raise HarnessModelError("header layout changed: no uint32 at byte 16")
    for _ in range(40):
        k = rng.randrange(0, 6)
        real = bytearray(_BASE + 8 * _ESZ)
        mem = _Mem(len(real))
        off, ln = rng.randrange(0, _U64), rng.randrange(0, _U64)
        n = rng.randrange(0, 2**32)
        _real_struct.pack_into("<I", real, 16, n)
        shm._ALLOC_STRUCT.pack_into(real, _BASE + k * _ESZ, off, ln)
        _m_pack_into("<I", mem, 16, n)
        _ALLOC_S.pack_into(mem, _BASE + k * _ESZ, off, ln)
        if _real_struct.unpack_from("<I", real, 16) != _m_unpack_from("<I", mem, 16):
            raise HarnessModelError("struct model disagrees with struct on '<I'")
        if shm._ALLOC_STRUCT.unpack_from(real, _BASE + k * _ESZ) != _ALLOC_S.unpack_from(mem, _BASE + k * _ESZ):
            raise HarnessModelError("struct model disagrees with struct on the entry format")
        if _real_struct.unpack_from("<Q", real, _BASE + k * _ESZ + 8)[0] != ln:
            raise HarnessModelError("entry layout is not (offset, length) little-endian uint64 pairs")
    for bad, fmt in ((-1, "<I"), (2**32, "<I"), (-1, "<Q"), (2**64, "<Q")):
        for target, fn in ((bytearray(64), _real_struct.pack_into), (_Mem(64), _m_pack_into)):
            try:
                fn(fmt, target, 0, bad)
            except _real_struct.error:
                continue
            raise HarnessModelError("struct range check differs")


_validate_struct_model()


class _Alloc:
    """Carrier object: the re-globalised real methods of ShmAllocator over the memory model."""

    __slots__ = ("_buf", "_total_size")

    def __init__(self, buf: _Mem, total: int) -> None:
        self._buf = buf
        self._total_size = total

    allocate = reglobalize(shm.ShmAllocator.allocate, MAX_ALLOCS=_CAP)
    free = reglobalize(shm.ShmAllocator.free)
    _read_allocs = reglobalize(shm.ShmAllocator._read_allocs, struct=_STRUCT, _HEADER_STRUCT=_HDR_S, _ALLOC_STRUCT=_ALLOC_S)
    _write_allocs = reglobalize(shm.ShmAllocator._write_allocs, struct=_STRUCT, _HEADER_STRUCT=_HDR_S, _ALLOC_STRUCT=_ALLOC_S)
    _warn_if_near_limit = shm.ShmAllocator._warn_if_near_limit  # real; logging is disabled by the worker


_STUBS_A = [
    "struct/_HEADER_STRUCT/_ALLOC_STRUCT := field-granular little-endian memory model (typed fields by byte offset, C range checks, refuses straddling access), built from the live format strings",
    "MAX_ALLOCS := 4 (header capacity of the model = 4 entries)",
]


def _inv(n: int, total: int, o0: int, l0: int, o1: int, l1: int, o2: int, l2: int, o3: int, l3: int) -> bool:
    """Representation invariant of the allocation table (first n of the 4 slots are live)."""
    if not (0 <= n <= _CAP and _HS < total < _U64):
        return False
    prev = _HS
    for i, (o, ln) in enumerate(((o0, l0), (o1, l1), (o2, l2), (o3, l3))):
        if i < n:
            if not (o >= prev and ln > 0):
                return False
            prev = o + ln
    return prev <= total


def _inv_list(tab: list[tuple[int, int]], total: int) -> bool:
    if len(tab) > _CAP:
        return False
    prev = _HS
    for o, ln in tab:
        if not (o >= prev and ln > 0):
            return False
        prev = o + ln
    return prev <= total


def _mk(n: int, total: int, ents: tuple, g0: int, g1: int) -> tuple[_Alloc, _Mem, list[tuple[int, int]]]:
    mem = _Mem(_BASE + _CAP * _ESZ)
    pos = 0
    for (code, width), v in zip(_layout(shm._HEADER_FMT), (shm._MAGIC, shm._VERSION, total - _HS, n, 0)):
        mem.preset(pos, width, v)
        pos += width
    old: list[tuple[int, int]] = []
    for i in range(_CAP):
        if i < n:
            o, ln = ents[i]
            old.append((o, ln))
        else:
            o, ln = g0, g1  # stale slot: arbitrary uint64 garbage
        mem.preset(_BASE + i * _ESZ, 8, o)
        mem.preset(_BASE + i * _ESZ + 8, 8, ln)
    return _Alloc(mem, total), mem, old


def _table(mem: _Mem) -> list[tuple[int, int]] | None:
    """The table as a peer would read it from the header (harness's own reader)."""
    cnt = mem.load(_COUNT_OFF, 4)
    if not (0 <= cnt <= _CAP):
        return None
    out = []
    for i in range(_CAP):
        if i < cnt:
            out.append((mem.load(_BASE + i * _ESZ, 8), mem.load(_BASE + i * _ESZ + 8, 8)))
    return out


def _same(a: list[tuple[int, int]], b: list[tuple[int, int]]) -> bool:
    if len(a) != len(b):
        return False
    for x, y in zip(a, b):
        if x[0] != y[0] or x[1] != y[1]:
            return False
    return True


def _replay_alloc(args: dict) -> str | None:
    """Un-stubbed replay: real ShmAllocator over a real bytearray header, real struct, live MAX_ALLOCS.

    Only pre-states whose count is below the live limit are replayable (the patched limit is not).
    """
    n, total = args["n"], args["total"]
    if n >= _CAP and "size" in args:
        ents4 = [(args["o%d" % i], args["l%d" % i]) for i in range(n)]
        return _replay_at_live_limit(args["size"], ents4, total)
    ents = [(args["o%d" % i], args["l%d" % i]) for i in range(n)]
    buf = bytearray(_HS)
    shm.ShmAllocator.initialize(memoryview(buf), total)
    a = shm.ShmAllocator(memoryview(buf), total)
    a._write_allocs(list(ents))
    if "size" in args:
        size = args["size"]
        if size <= 0:
            return None  # the property speaks about positive sizes only
        try:
            r = a.allocate(size)
        except ValueError:
            return "allocate raised ValueError for a positive size"
        new = a._read_allocs()
        fits = _fits(ents, total, size)
        if r is None:
            if fits and n < shm.MAX_ALLOCS:
                return f"allocate({size}) returned None although a gap fits; table {ents}, total {total}"
            return None if new == ents else "table changed by a failed allocate"
        if not fits:
            return f"allocate({size}) returned {r} although no gap fits; table {ents}, total {total}"
        if not (_HS <= r and r + size <= total):
            return f"allocate({size}) returned block [{r},{r + size}) outside the data region [{_HS},{total})"
        for o, ln in ents:
            if r < o + ln and o < r + size:
                return f"allocate({size}) returned block [{r},{r + size}) overlapping live entry ({o},{ln})"
        # the table is the old one plus ONE entry starting at r and covering at least `size` bytes
        # (a recorded length above `size`, e.g. alignment rounding, is the allocator's business),
        # still sorted, non-overlapping and inside the data region
        added = [e for e in new if e not in ents]
        if len(new) != len(ents) + 1 or [e for e in new if e in ents] != ents or len(added) != 1 or added[0][0] != r or added[0][1] < size:
            return f"table after allocate({size}) -> {r} is {new}; expected {ents} plus one entry ({r}, >= {size})"
        if not _inv_list(new, total):  # n < _CAP here, so the entry-count clause of Inv cannot be what fails
            return f"table after allocate({size}) -> {r} is {new}: recorded entries are not sorted + disjoint + inside [{_HS},{total})"
        return None
    off = args["off"]
    hit = [e for e in ents if e[0] == off]
    try:
        a.free(off)
    except ValueError:
        if hit:
            return f"free({off}) raised although an entry starts there"
        return None if a._read_allocs() == ents else "table changed by a failing free"
    if not hit:
        return f"free({off}) succeeded although no entry starts there; table {ents} -> {a._read_allocs()}"
    want = [e for e in ents if e[0] != off]
    return None if a._read_allocs() == want else f"table after free({off}) is {a._read_allocs()}, expected {want}"


class _Off:
    """An int-like offset whose text rendering is opaque.

    free() formats the offset into its ValueError message; CrossHair renders an unbounded symbolic
    int digit by digit (one path per magnitude, never exhausts).  The message text is not part of
    the property, every comparison free() makes is forwarded to the symbolic int unchanged.
    """

    def __init__(self, v: int) -> None:
        self.v = v

    def __eq__(self, other: object) -> bool:  # type: ignore[override]
        return self.v == other

    def __ne__(self, other: object) -> bool:  # type: ignore[override]
        return self.v != other

    def __lt__(self, other: object) -> bool:
        return self.v < other  # type: ignore[operator]

    def __le__(self, other: object) -> bool:
        return self.v <= other  # type: ignore[operator]

    def __gt__(self, other: object) -> bool:
        return self.v > other  # type: ignore[operator]

    def __ge__(self, other: object) -> bool:
        return self.v >= other  # type: ignore[operator]

    def __hash__(self) -> int:
        raise HarnessModelError("offset hashed")

    def __format__(self, spec: str) -> str:
        return "<offset>"

    def __str__(self) -> str:
        return "<offset>"

    __repr__ = __str__

    def __getattr__(self, name: str) -> object:
        raise HarnessModelError(f"offset used through {name}: comparison not forwarded by the wrapper")


def _replay_at_live_limit(size: int, ents4: list[tuple[int, int]] | None = None, total4: int = 0) -> str | None:
    """The patched limit (4) is not the live one: replay the 'table full' case scaled to the live MAX_ALLOCS.

    The *shape* of the counterexample is kept: the live table is (MAX_ALLOCS - 4) contiguous one-byte
    entries at the start of the data region followed by the counterexample's own entries shifted
    behind them, so every gap of the counterexample (before, between and after its entries) exists
    with the same width.  Only the header is touched by the allocator, so the byte buffer is the
    header plus a canary strip whatever the (possibly astronomically large) offsets are.
    """
    cap = shm.MAX_ALLOCS
    size = int(size)
    if ents4 is None or len(ents4) > cap:
        ents4, total4 = [], _HS
    pad = cap - len(ents4)
    ents = [(_HS + i, 1) for i in range(pad)] + [(int(o) + pad, int(ln)) for o, ln in ents4]
    total = int(total4) + pad if ents4 else _HS + pad + max(1, min(size, 1 << 16)) + 16
    if total >= _U64 or size <= 0:
        return None
    buf = bytearray(_HS + 4096)
    shm.ShmAllocator.initialize(memoryview(buf), total)
    a = shm.ShmAllocator(memoryview(buf), total)
    a._write_allocs(list(ents))
    data_before = bytes(buf[_HS:])
    try:
        r = a.allocate(size)
    except Exception as e:  # noqa: BLE001
        return f"allocate({size}) on a full table ({cap} entries) raised {type(e).__name__}: {e}"
    if r is not None or a.num_allocs != cap or bytes(buf[_HS:]) != data_before:
        gaps = "a gap inside the table" if _fits(ents, ents[-1][0] + ents[-1][1], size) else "the gap after the last entry"
        return (
            f"allocate({size}) on a full table ({cap} entries, request fits {gaps}) returned {r}; count is now {a.num_allocs}; "
            f"data region {'was overwritten by the table' if bytes(buf[_HS:]) != data_before else 'untouched'}"
        )
    return None


def _fits(ents: list[tuple[int, int]], total: int, size: int) -> bool:
    prev = _HS
    for o, ln in ents:
        if o - prev >= size:
            return True
        prev = o + ln
    return total - prev >= size


_SIG_CLASSES = (
    ("full table", "entry-limit"),
    ("overlapping", "overlap"),
    ("outside the data region", "out-of-region"),
    ("although a gap fits", "spurious-failure"),
    ("although no gap fits", "spurious-success"),
    ("raised", "raised"),
    ("succeeded although no entry", "free-of-unallocated"),
)


def _sig_step(base: str, args: dict) -> str:
    """Finding signature = base + the defect class the REAL replay reports (limit / overlap / spurious None / ...)."""
    try:
        text = _replay_alloc(dict(args)) or ""
    except Exception:  # noqa: BLE001
        text = ""
    for needle, cls in _SIG_CLASSES:
        if needle in text:
            return base + ":" + cls
    return base + ":table"


@cond(q=60, t=240, stubs=_STUBS_A, encoded=[shm.ShmAllocator.allocate, shm.ShmAllocator._read_allocs, shm.ShmAllocator._write_allocs],
      bound="any Inv table of <=4 entries, unbounded ints, total < 2**64, any size > 0", replay=_replay_alloc,
      signature=lambda args, conc: _sig_step("C28:allocate:step-breaks-invariant", args))
def allocate_step(n: int, total: int, o0: int, l0: int, o1: int, l1: int, o2: int, l2: int, o3: int, l3: int, g0: int, g1: int, size: int) -> bool:
    """
    pre: _inv(n, total, o0, l0, o1, l1, o2, l2, o3, l3)
    pre: 0 <= g0 < _U64 and 0 <= g1 < _U64
    pre: size > 0
    post: _
    """
    a, mem, old = _mk(n, total, ((o0, l0), (o1, l1), (o2, l2), (o3, l3)), g0, g1)
    try:
        r = a.allocate(size)
    except HarnessModelError:
        raise
    except Exception:  # noqa: BLE001  (incl. _HeaderOverflow: table written past the header)
        return False
    new = _table(mem)
    if new is None:
        return False
    # every gap of the old table
    prev = _HS
    fit = False
    for o, ln in old:
        if o - prev >= size:
            fit = True
        prev = o + ln
    if total - prev >= size:
        fit = True
    if r is None:
        # fails only at the entry limit or when no gap is large enough; table untouched
        return (n >= _CAP or not fit) and _same(new, old)
    if n >= _CAP or not fit:
        return False
    # block inside the data region and disjoint from every live entry
    if not (_HS <= r and r + size <= total):
        return False
    for o, ln in old:
        if r < o + ln and o < r + size:
            return False
    # the new table is the old one plus ONE entry that starts at r and covers at least `size` bytes, still
    # satisfying Inv (sorted, non-overlapping, in-region — judged on the RECORDED length, so an allocator
    # that records a rounded-up length is fine as long as the rounded block is disjoint and in-region)
    if len(new) != len(old) + 1 or not _inv_list(new, total):
        return False
    k = 0
    for o, _ln in old:
        if o < r:
            k += 1
    return _same(new[:k], old[:k]) and new[k][0] == r and new[k][1] >= size and _same(new[k + 1 :], old[k:])


@cond(q=60, t=240, stubs=_STUBS_A, encoded=[shm.ShmAllocator.free, shm.ShmAllocator._read_allocs, shm.ShmAllocator._write_allocs],
      bound="any Inv table of <=4 entries, unbounded ints, total < 2**64, any offset", replay=_replay_alloc,
      signature=lambda args, conc: _sig_step("C28:free:step-breaks-invariant", args))
def free_step(n: int, total: int, o0: int, l0: int, o1: int, l1: int, o2: int, l2: int, o3: int, l3: int, g0: int, g1: int, off: int) -> bool:
    """
    pre: _inv(n, total, o0, l0, o1, l1, o2, l2, o3, l3)
    pre: 0 <= g0 < _U64 and 0 <= g1 < _U64
    post: _
    """
    a, mem, old = _mk(n, total, ((o0, l0), (o1, l1), (o2, l2), (o3, l3)), g0, g1)
    hit = -1
    for i, (o, _ln) in enumerate(old):
        if o == off:
            hit = i
    raised = False
    try:
        ret = a.free(_Off(off))
    except ValueError:
        raised = True
        ret = None
    except HarnessModelError:
        raise
    except Exception:  # noqa: BLE001
        return False
    new = _table(mem)
    del ret  # what free() returns is not part of the property
    if new is None:
        return False
    if hit < 0:
        return raised and _same(new, old)
    if raised:
        return False
    return _inv_list(new, total) and _same(new, old[:hit] + old[hit + 1 :])


@task(q=10, t=10, encoded=[shm.ShmAllocator], bound="live constants", engine="z3")
def table_fits_header(budget: float, replay=None) -> dict:
    """z3: no count <= MAX_ALLOCS makes the last entry end beyond HEADER_SIZE; count field is a uint32 able to hold MAX_ALLOCS."""
    import time

    import z3

    t0 = time.monotonic()
    c = z3.Int("count")
    s = z3.Solver()
    s.add(c >= 0, c <= shm.MAX_ALLOCS)
    s.add(z3.Or(shm._HEADER_STRUCT.size + c * shm._ALLOC_STRUCT.size > shm.HEADER_SIZE, c >= 2**32))
    r = s.check()
    res = {"queries": 1, "discharged": 1 if r == z3.unsat else 0, "solver_s": round(time.monotonic() - t0, 3),
           "samples": [{"query": "exists count<=MAX_ALLOCS: header + count*entry > HEADER_SIZE or count >= 2**32", "result": str(r)}]}
    if r == z3.unsat:
        res["verdict"] = "CONFIRMED"
    elif r == z3.sat:
        cnt = s.model()[c].as_long()
        res.update(verdict="VIOLATION", replayed=True, cex={"count": cnt}, signature="C28:header:table-exceeds-header",
                   detail=f"{cnt} entries end at byte {shm._HEADER_STRUCT.size + cnt * shm._ALLOC_STRUCT.size} > HEADER_SIZE {shm.HEADER_SIZE}: the table overlaps the data region")
    else:
        res.update(verdict="INCONCLUSIVE", detail="solver unknown")
    return res


# ---------------------------------------------------------------------------
# (b) written range within allocated range — size-abstract Arrow
# ---------------------------------------------------------------------------


class _FakeMV:
    """Size-abstract memoryview / pa.Buffer: only its length matters."""

    format = "B"

    def __init__(self, n: int) -> None:
        self.n = n

    def cast(self, fmt: str) -> "_FakeMV":
        return self

    def __len__(self) -> int:
        return self.n

    @property
    def size(self) -> int:
        return self.n


def _fake_memoryview(obj: object) -> _FakeMV:
    if isinstance(obj, _FakeMV):
        return obj
    raise HarnessModelError("memoryview() of a non-model object")


class _SegBuf:
    """The segment's memoryview: records stored ranges; slice clipping + length mismatch as memoryview does."""

    def __init__(self, total: int) -> None:
        self.total = total
        self.ranges: list[tuple[int, int]] = []

    def __setitem__(self, key: slice, value: _FakeMV) -> None:
        if not isinstance(key, slice) or key.step is not None:
            raise HarnessModelError("segment buffer model: only contiguous slice stores")
        start, stop = key.start, key.stop
        n = value.n
        if start < 0 or stop < start:
            raise HarnessModelError("segment buffer model: negative slice")
        cs = start if start < self.total else self.total
        ce = stop if stop < self.total else self.total
        if ce - cs != n:
            # real memoryview: "lvalue and rvalue have different structures"
            raise ValueError("memoryview assignment: lvalue and rvalue have different structures")
        if n > 0:
            self.ranges.append((start, start + n))

    def __len__(self) -> int:
        return self.total

    def __getattr__(self, name: str) -> object:
        raise HarnessModelError(f"segment buffer model: {name}")


def _unmodelled(what: str, name: str) -> Exception:
    """Protocol probes (copy / pickle look up __deepcopy__, __setstate__, ...) get the ordinary AttributeError;
    any real attribute outside the model is a HarnessModelError."""
    if name.startswith("__") and name.endswith("__"):
        return AttributeError(name)
    return HarnessModelError(f"{what}: .{name} is not modelled")


class _FakeField:
    """Structure-only pa.Field: only its type matters."""

    def __init__(self, t: "_FakeType") -> None:
        self.type = t

    def __getattr__(self, name: str) -> object:
        raise _unmodelled("field model", name)


class _FakeType:
    """Structure-only Arrow DataType: child fields and the 'is a dictionary type' flag, nothing else.

    Mirrors pyarrow's structural interface (validated against real pyarrow at import): ``num_fields`` /
    ``field(i)`` for list-likes (1 child), structs (k children), maps (1 child: the entries struct);
    0 children for primitives, dictionaries and extension types (those expose ``storage_type``)."""

    def __init__(self, children: tuple = (), is_dict: bool = False, label: str = "plain") -> None:
        self._children = tuple(_FakeField(c) for c in children)
        self._is_dict = is_dict
        self._label = label

    @property
    def num_fields(self) -> int:
        return len(self._children)

    def field(self, i: int) -> _FakeField:
        if not (0 <= i < len(self._children)):
            raise HarnessModelError("type model: field index out of range")
        return self._children[i]

    @property
    def fields(self) -> list:
        return list(self._children)

    @property
    def value_type(self) -> "_FakeType":
        if self._label != "list":
            raise HarnessModelError("type model: value_type of a non-list")
        return self._children[0].type

    def __getattr__(self, name: str) -> object:
        raise _unmodelled("type model", name)


class _FakeExtBase:
    """Stands for pa.BaseExtensionType in isinstance tests."""


class _FakeExt(_FakeType, _FakeExtBase):
    def __init__(self, storage: _FakeType) -> None:
        _FakeType.__init__(self, (), False, "ext")
        self.storage_type = storage


class _PaTypesNS:
    @staticmethod
    def is_dictionary(t: object) -> bool:
        if not isinstance(t, _FakeType):
            raise HarnessModelError("pa.types.is_dictionary on a non-model type")
        return t._is_dict

    @staticmethod
    def is_nested(t: object) -> bool:
        if not isinstance(t, _FakeType):
            raise HarnessModelError("pa.types.is_nested on a non-model type")
        return len(t._children) > 0

    def __getattr__(self, name: str) -> object:
        raise HarnessModelError(f"pa.types.{name} is not modelled")


class _Counter:
    """pa.MockOutputStream / pa.BufferOutputStream as a byte counter (size-abstract Arrow has no bytes)."""

    def __init__(self) -> None:
        self.n = 0
        self.closed = False

    def write(self, data: object) -> int:
        if not isinstance(data, _FakeMV):
            raise HarnessModelError("counting sink: write of a non-model buffer")
        self.n += data.n
        return data.n

    def size(self) -> int:
        return self.n

    def tell(self) -> int:
        return self.n

    def getvalue(self) -> _FakeMV:
        return _FakeMV(self.n)

    def flush(self) -> None:
        pass

    def close(self) -> None:
        self.closed = True

    def __getattr__(self, name: str) -> object:
        raise _unmodelled("counting sink", name)


class _PaNS:
    Buffer = _FakeMV
    BaseExtensionType = _FakeExtBase
    ExtensionType = _FakeExtBase
    MockOutputStream = _Counter
    BufferOutputStream = _Counter
    types = _PaTypesNS()

    def __getattr__(self, name: str) -> object:
        raise HarnessModelError(f"pa.{name} is not modelled")


_sink_write = reglobalize(shm._ShmSink.write, pa=_PaNS(), memoryview=_fake_memoryview)


class _Sink(shm._ShmSink):
    """The real _ShmSink (real __init__, real bytes_written) with write() re-globalised."""

    write = _sink_write  # type: ignore[assignment]


_RUN = {"n": 0}


class _FakeSchema:
    """Size-abstract schema.  Its equality/hash identity is INDEPENDENT of its serialized size:
    pa.Schema.__eq__/__hash__ ignore metadata, so two schemas may compare (and hash) equal and
    still serialize to different sizes.  Anything the code memoises per schema therefore shows."""

    def __init__(self, msg_size: int, ident: int = 0, types: tuple = (), emits_dict: bool = False) -> None:
        self._msg = msg_size
        self._ident = ident
        self._run = _RUN["n"]
        self._fields = tuple(_FakeField(t) for t in (types or (_PLAIN,)))
        # environment fact (Arrow's writer, validated at import): dictionary messages are emitted iff some
        # field is, or nests at any depth, a dictionary type.  Known BY CONSTRUCTION of the type tree
        # (_SHAPES), never computed by walking it.
        self._emits_dict = emits_dict

    def __eq__(self, other: object) -> bool:
        if not isinstance(other, _FakeSchema):
            return NotImplemented
        if other._run != self._run:
            return False  # objects of an earlier explored path are strangers
        return self is other or self._ident == other._ident

    def __hash__(self) -> int:
        return 7  # equal schemas hash equal; collisions are legal

    def equals(self, other: object, check_metadata: bool = False) -> bool:
        if check_metadata:
            return self is other
        return self == other

    def serialize(self) -> _FakeMV:
        return _FakeMV(self._msg)

    def __iter__(self):  # type: ignore[no-untyped-def]
        return iter(self._fields)

    def __len__(self) -> int:
        return len(self._fields)

    def field(self, i: int) -> _FakeField:
        if not (isinstance(i, int) and 0 <= i < len(self._fields)):
            raise HarnessModelError("schema model: field() by name / out of range")
        return self._fields[i]

    @property
    def types(self) -> list:
        return [f.type for f in self._fields]

    def __getattr__(self, name: str) -> object:
        raise _unmodelled("schema model", name)


_PLAIN = _FakeType()

# wrapper kinds around the innermost type of the ONE interesting column (outside in)
_WRAPPERS = ("list", "struct-first", "struct-second", "ext")
_MAX_DEPTH = pick(2, 3)


def _wrap(kind: str, inner: _FakeType) -> _FakeType:
    if kind == "list":  # list / large_list / fixed_size_list / map (map<k, v> = list<struct<k, v>> structurally)
        return _FakeType((inner,), False, "list")
    if kind == "struct-first":
        return _FakeType((inner, _FakeType()), False, "struct")
    if kind == "struct-second":
        return _FakeType((_FakeType(), inner), False, "struct")
    return _FakeExt(inner)


def _all_shapes() -> list[tuple[tuple[str, ...], bool, _FakeType]]:
    """Every chain of <= _MAX_DEPTH wrappers around a plain or a dictionary innermost type.

    Entry = (wrappers outside-in, innermost is a dictionary, type object).  'Some type in the tree is a
    dictionary' is the second component by construction (all other leaves are plain)."""
    chains: list[tuple[str, ...]] = [()]
    frontier: list[tuple[str, ...]] = [()]
    for _ in range(_MAX_DEPTH):
        # an extension type whose storage is again an extension type is not a shape Arrow IPC supports
        # (pyarrow writes a stream it cannot read back): not in the domain
        frontier = [c + (w,) for c in frontier for w in _WRAPPERS if not (w == "ext" and c and c[-1] == "ext")]
        chains += frontier
    out = []
    for chain in chains:
        for leaf_dict in (False, True):
            t = _FakeType((), leaf_dict, "dict" if leaf_dict else "plain")
            for w in reversed(chain):
                t = _wrap(w, t)
            out.append((chain, leaf_dict, t))
    return out


_SHAPES = _all_shapes()
_N_SHAPES = len(_SHAPES)


class _FakeBatch:
    def __init__(self, schema: _FakeSchema, rb_size: int, has_dict: bool, dict_size: int) -> None:
        self.schema = schema
        self.rb_size = rb_size
        self.has_dict = has_dict
        self.dict_size = dict_size


class _IpcNS:
    @staticmethod
    def get_record_batch_size(batch: _FakeBatch) -> int:
        return batch.rb_size

    def __getattr__(self, name: str) -> object:
        raise HarnessModelError(f"ipc.{name} is not modelled")


_SPLIT = {"m": 0}


class _Writer:
    """Size model of RecordBatchStreamWriter: schema message lazily, batch message, 8-byte EOS."""

    def __init__(self, sink: object, schema: _FakeSchema) -> None:
        if not isinstance(schema, _FakeSchema):
            raise HarnessModelError("writer model: opened on a non-model schema")
        self.sink, self.schema, self.started = sink, schema, False

    def _start(self) -> None:
        if not self.started:
            self.started = True
            self.sink.write(_FakeMV(self.schema._msg))

    def write_batch(self, batch: _FakeBatch) -> None:
        if not isinstance(batch, _FakeBatch) or batch.schema is not self.schema:
            raise HarnessModelError("writer model: batch of another schema object")
        self._start()
        if self.schema._emits_dict:
            # dictionary messages (D > 0 bytes, one per dictionary incl. nested ones) precede the batch message
            self.sink.write(_FakeMV(batch.dict_size))
        m = _SPLIT["m"]  # metadata part / body part (symbolic split)
        self.sink.write(_FakeMV(m))
        self.sink.write(_FakeMV(batch.rb_size - m))

    def close(self) -> None:
        if self.__dict__.get("closed"):
            return
        self.closed = True
        self._start()
        self.sink.write(_FakeMV(4))
        self.sink.write(_FakeMV(4))

    def __enter__(self) -> "_Writer":
        return self

    def __exit__(self, *exc: object) -> None:
        self.close()

    def __getattr__(self, name: str) -> object:
        raise _unmodelled("writer model", name)


_HOLD = {"ret_none": False, "off": 0}


class _AllocContract:
    """allocate(n): None or an offset with HEADER_SIZE <= off and off+n <= total (decided in part (a))."""

    def __init__(self, total: int) -> None:
        self.total = total
        self.calls: list[tuple[int, int]] = []
        self.bad_size = False
        self.none = False

    def allocate(self, size: int) -> int | None:
        if size <= 0:
            self.bad_size = True
            raise ValueError("Allocation size must be positive")
        offs = _HOLD.get("offs")
        off = offs[len(self.calls)] if offs else _HOLD["off"]
        if _HOLD["ret_none"] or off + size > self.total:
            self.none = True
            return None
        self.calls.append((off, size))
        return off


class _Shm:
    def __init__(self, buf: _SegBuf) -> None:
        self.buf = buf


class _Memo:
    """functools.lru_cache contract in plain Python (CrossHair bypasses the C cache and calls
    __wrapped__, which would hide any memoisation): a hit needs equal hash and ==, like the dict
    inside lru_cache; eviction is not modelled (maxsize >= 2 entries is all the history needs)."""

    def __init__(self, fn) -> None:  # type: ignore[no-untyped-def]
        self.fn = fn
        self.entries: list = []

    def __call__(self, *args: object, **kw: object) -> object:
        if kw:
            raise HarnessModelError("memo model: keyword call")
        for k, v in self.entries:
            if len(k) == len(args) and all(hash(x) == hash(y) and (x is y or x == y) for x, y in zip(k, args)):
                return v
        v = self.fn(*args)
        self.entries.append((args, v))
        return v

    def cache_clear(self) -> None:
        self.entries.clear()


def _memo_models(fn, module) -> dict:  # type: ignore[no-untyped-def]
    """Every module-level functools cache the function calls directly, as a _Memo over its __wrapped__."""
    import functools

    out = {}
    for name in fn.__code__.co_names:
        obj = module.__dict__.get(name)
        if isinstance(obj, functools._lru_cache_wrapper):
            out[name] = _Memo(obj.__wrapped__)
    return out


_MEMOS = _memo_models(shm.ShmSegment.allocate_and_write, shm)

_ENV_B = dict(
    pa=_PaNS(),
    ipc=_IpcNS(),
    new_ipc_stream=lambda sink, schema, *a, **k: _Writer(sink, schema),
    _ShmSink=_Sink,
    _serialize_for_shm=lambda batch, *a, **k: _FakeMV(batch.dict_size),
    memoryview=_fake_memoryview,
    **_MEMOS,
)


def _real_helpers(root, module, env: dict) -> dict:  # type: ignore[no-untyped-def]
    """The module's own plain-Python helper functions that *root* reaches (transitively, by global name),
    as the SAME bytecode over one shared globals dict in which the environment names are the models.

    This is what makes the dictionary decision REAL: whichever helpers allocate_and_write consults to
    decide "does the writer emit dictionary messages for this schema" (_has_dictionary_columns,
    _type_contains_dictionary, anything a refactor adds) run un-stubbed on the structural type model."""
    import types as _types

    def names_of(code) -> set:  # type: ignore[no-untyped-def]
        out = set(code.co_names)
        for c in code.co_consts:
            if isinstance(c, _types.CodeType):
                out |= names_of(c)
        return out

    g = dict(module.__dict__)
    g.update(env)
    found: dict = {}
    todo = [root.__code__]
    while todo:
        for name in names_of(todo.pop()):
            obj = module.__dict__.get(name)
            if name in env or name in found or not isinstance(obj, _types.FunctionType) or obj.__module__ != module.__name__:
                continue
            new = _types.FunctionType(obj.__code__, g, obj.__name__, obj.__defaults__, obj.__closure__)
            new.__kwdefaults__ = obj.__kwdefaults__
            found[name] = new
            todo.append(obj.__code__)
    g.update(found)
    return found


_HELPERS = _real_helpers(shm.ShmSegment.allocate_and_write, shm, _ENV_B)
ENCODED += [getattr(shm, _n) for _n in sorted(_HELPERS)]


def _referenced(fn, table: dict) -> dict:  # type: ignore[no-untyped-def]
    names = set(fn.__code__.co_names)
    for c in fn.__code__.co_consts:
        if hasattr(c, "co_names"):
            names |= set(c.co_names)
    return {k: v for k, v in table.items() if k in names}


class _Seg:
    __slots__ = ("_allocator", "_shm")

    def __init__(self, alloc: _AllocContract, buf: _SegBuf) -> None:
        self._allocator = alloc
        self._shm = _Shm(buf)

    allocate_and_write = reglobalize(
        shm.ShmSegment.allocate_and_write,
        **_referenced(shm.ShmSegment.allocate_and_write, {**_ENV_B, **_HELPERS}),
    )


_STUBS_B = [
    "ipc.get_record_batch_size / new_ipc_stream writer := size-abstract Arrow (schema message S lazily, D > 0 bytes of dictionary messages iff a field is or nests a dictionary type, "
    "batch message == get_record_batch_size, EOS 8 bytes; symbolic chunking); pa.MockOutputStream / BufferOutputStream := byte counter",
    "pa.DataType / pa.Field / pa.Schema := structure-only objects (child fields, is-dictionary flag, extension storage_type); pa.types.is_dictionary reads the flag; "
    "_has_dictionary_columns, _type_contains_dictionary and any other shm helper allocate_and_write reaches are the REAL bytecode over these objects",
    "_serialize_for_shm := buffer of symbolic size D > 0",
    "segment memoryview := range recorder with memoryview's slice-clipping / length-mismatch ValueError",
    "allocator := contract 'None or in-region offset' (decided by allocate_step)",
    "pa.Buffer / memoryview := length-only objects",
]


def _heavy_schema(nbytes: int, field_level: bool = False):
    import pyarrow as pa

    if field_level:  # compares and hashes equal to the plain schema (pa.Schema ignores metadata there)
        return pa.schema([pa.field("a", pa.int64(), metadata={b"doc": b"x" * max(0, nbytes)})])
    return pa.schema([pa.field("a", pa.int64())], metadata={b"doc": b"x" * max(0, nbytes)})


def _replay_write(args: dict) -> str | None:
    """Real pyarrow, real POSIX segment, history 'plain, plain, free first, heavy': the heavy schema
    differs from the plain one only in metadata — field-level (schemas compare equal) and schema-level."""
    S = min(int(args.get("schema_msg2", args.get("schema_msg", 0))), 1 << 20)
    rb = int(args.get("rb2", args.get("rb_size", 512)))
    rows = max(1, min(rb // 8, 8192))  # the counterexample's batch-message size, in int64 rows
    shape = args.get("shape")
    chain, leaf_dict = (_SHAPES[shape][0], _SHAPES[shape][1]) if shape is not None and 0 <= shape < _N_SHAPES else ((), False)
    dict_len = max(1, min(int(args.get("dict_size", 64)), 1 << 16))
    for field_level in (True, False):
        got = _replay_write_one(S, field_level, rows, chain, leaf_dict, bool(args.get("lead")), dict_len)
        if got:
            same_eq = field_level and not (chain or leaf_dict or args.get("lead"))
            return got + (" [heavy schema == plain schema under pa.Schema.__eq__: differs in field metadata only]" if same_eq else "")
    return None


_REAL_EXT: list = []


def _real_ext_type(storage):  # type: ignore[no-untyped-def]
    """A real (registered) pyarrow extension type over *storage* — the 'ext' wrapper of a shape."""
    import pyarrow as pa

    if not _REAL_EXT:

        class HarnessExt(pa.ExtensionType):  # type: ignore[misc]
            def __init__(self, st) -> None:  # type: ignore[no-untyped-def]
                super().__init__(st, "harness.c28.ext")

            def __arrow_ext_serialize__(self) -> bytes:
                return b""

            @classmethod
            def __arrow_ext_deserialize__(cls, st, ser):  # type: ignore[no-untyped-def]
                return cls(st)

        try:
            pa.register_extension_type(HarnessExt(pa.int64()))
        except Exception:  # noqa: BLE001  (already registered in this process)
            pass
        _REAL_EXT.append(HarnessExt)
    return _REAL_EXT[0](storage)


def _real_column(chain: tuple, leaf_dict: bool, rows: int, dict_len: int):  # type: ignore[no-untyped-def]
    """Real pyarrow array of *rows* rows whose type is the shape's wrapper chain around int64 / dictionary<int8,string>."""
    import pyarrow as pa

    if leaf_dict:
        arr = pa.DictionaryArray.from_arrays(pa.array([i % 2 for i in range(rows)], type=pa.int8()), pa.array(["d" * dict_len, "e"]))
    else:
        arr = pa.array(list(range(rows)), type=pa.int64())
    for w in reversed(chain):
        if w == "list":
            arr = pa.ListArray.from_arrays(pa.array(list(range(len(arr) + 1)), type=pa.int32()), arr)[: len(arr)]
        elif w == "struct-first":
            arr = pa.StructArray.from_arrays([arr, pa.array([0] * len(arr), type=pa.int32())], names=["x", "y"])
        elif w == "struct-second":
            arr = pa.StructArray.from_arrays([pa.array([0] * len(arr), type=pa.int32()), arr], names=["x", "y"])
        else:
            arr = pa.ExtensionArray.from_storage(_real_ext_type(arr.type), arr)
    return arr


def _replay_write_one(S: int, field_level: bool, nrows: int = 64, chain: tuple = (), leaf_dict: bool = False, lead: bool = False, dict_len: int = 64) -> str | None:
    """History on a real POSIX segment with real pyarrow: plain, plain, free the first, then the
    counterexample's batch (its column type = the shape, schema metadata of S bytes) — first fit puts it
    into the freed slot directly in front of the live second batch."""
    import pyarrow as pa

    plain = pa.schema([pa.field("a", pa.int64())])
    rows = list(range(64))
    b_plain = pa.RecordBatch.from_pydict({"a": rows}, schema=plain)
    if chain or leaf_dict or lead:
        col = _real_column(chain, leaf_dict, nrows, dict_len)
        meta = {b"doc": b"x" * max(0, S)}
        fields = ([pa.field("lead", pa.int64())] if lead else []) + [pa.field("a", col.type, metadata=meta if field_level else None)]
        heavy = pa.schema(fields, metadata=None if field_level else meta)
        cols = ([pa.array(list(range(nrows)), type=pa.int64())] if lead else []) + [col]
        b_heavy = pa.RecordBatch.from_arrays(cols, schema=heavy)
    else:
        heavy = _heavy_schema(S, field_level)  # schema message >= S bytes
        b_heavy = pa.RecordBatch.from_pydict({"a": list(range(nrows))}, schema=heavy)
    seg = shm.ShmSegment.create(_HS + 16 * 1024 * 1024)
    try:
        # dry run: how many bytes does the code reserve for this batch?  (then undo it)
        # (a plain batch goes first and stays live, as in any session: whatever the code remembers per
        # schema has then seen the plain schema before the counterexample's one)
        if seg.allocate_and_write(b_plain) is None:
            return None
        r0 = seg.allocate_and_write(b_heavy)
        if r0 is None:
            return None
        slot = dict(seg.allocator._read_allocs())[r0[0]]
        seg.free(r0[0])
        seg.buf[r0[0] : r0[0] + max(slot, r0[1]) + 4096] = bytes(max(slot, r0[1]) + 4096)
        # a live region of exactly that size, a live plain batch right behind it, then free the first
        o1 = seg.allocator.allocate(slot)
        r2 = seg.allocate_and_write(b_plain)
        if o1 is None or r2 is None:
            return None
        o2, n2 = r2
        seg.free(o1)
        everything = bytes(seg.buf[_HS:])
        r3 = seg.allocate_and_write(b_heavy)  # first fit: lands in the freed slot directly in front of batch 2
        if r3 is None:
            return None
        o3, n3 = r3
        alloc_len = dict(seg.allocator._read_allocs()).get(o3)
        if alloc_len is None:
            return f"allocate_and_write returned offset {o3}, which is not an entry of the allocation table"
        now = bytes(seg.buf[_HS:])
        lo, hi = o3 - _HS, o3 - _HS + alloc_len
        outside_changed = now[:lo] != everything[:lo] or now[hi:] != everything[hi:]
        neighbour_changed = now[o2 - _HS : o2 - _HS + n2] != everything[o2 - _HS : o2 - _HS + n2]
        if n3 <= alloc_len and not outside_changed:
            # stayed inside: the reported (offset, length) must cover the stream that was written
            try:
                ok = shm._deserialize_from_shm(seg.read_buffer(o3, n3), heavy).equals(b_heavy)
            except Exception:  # noqa: BLE001
                ok = False
            return None if ok else f"allocate_and_write reported ({o3}, {n3}) but that range does not hold the written stream"
        state = "unreadable"
        try:
            got = shm._deserialize_from_shm(seg.read_buffer(o2, n2), plain)
            state = "equal" if got.equals(b_plain) else "different data"
        except Exception as e:  # noqa: BLE001
            state = f"unreadable ({type(e).__name__})"
        return (
            f"allocate_and_write wrote {n3} bytes at offset {o3} into an allocation of {alloc_len} bytes "
            f"(column type {heavy.field(len(heavy) - 1).type}, schema message {heavy.serialize().size} bytes); bytes outside the allocation "
            f"{'changed' if outside_changed else 'did not change'}; the live neighbour at {o2} "
            f"{'was overwritten' if neighbour_changed else 'was not touched'} and is now {state}"
        )
    finally:
        seg.close()
        seg.unlink()


def _validate_arrow_model() -> None:
    """Size model against real pyarrow on concrete batches (model validation)."""
    import pyarrow as pa
    from pyarrow import ipc

    from vgi_rpc.utils import new_ipc_stream

    class Rec:
        def __init__(self) -> None:
            self.n = 0
            self.closed = False

        def write(self, d: object) -> int:
            k = len(memoryview(d))  # type: ignore[arg-type]
            self.n += k
            return k

        def flush(self) -> None:
            pass

    rng = random.Random(SEED or 1)
    for i in range(12):
        meta = {b"k": b"v" * rng.choice((0, 7, 300, 5000))} if i % 2 else None
        fields = [pa.field(f"c{j}", rng.choice((pa.int64(), pa.string(), pa.float32(), pa.list_(pa.int8())))) for j in range(rng.randrange(0, 5))]
        sch = pa.schema(fields, metadata=meta)
        rows = rng.randrange(0, 50)
        b = pa.RecordBatch.from_arrays([pa.nulls(rows, type=f.type) for f in fields], schema=sch) if fields else pa.RecordBatch.from_pylist([{}] * rows, schema=sch)
        rec = Rec()
        w = new_ipc_stream(rec, sch)
        pre = rec.n
        w.write_batch(b)
        w.close()
        if pre != 0 or rec.n != sch.serialize().size + ipc.get_record_batch_size(b) + 8:
            raise HarnessModelError(f"Arrow size model does not hold: wrote {rec.n}, model {sch.serialize().size}+{ipc.get_record_batch_size(b)}+8")
    # dictionary part of the model, on every shape of the quick bound as REAL pyarrow types: the writer
    # emits D > 0 extra bytes exactly when the shape's innermost type is a dictionary (also for 0 rows),
    # pa.MockOutputStream counts what a sink receives, and the structural interface of the type model
    # (num_fields / field(i).type / storage_type / is_dictionary) is the one real pyarrow types have
    for chain, leaf_dict, fake in _SHAPES:
        if len(chain) > 2:
            continue
        for rows in (0, 3):
            col = _real_column(chain, leaf_dict, rows, 5)
            sch = pa.schema([pa.field("x", col.type)])
            b = pa.RecordBatch.from_arrays([col], schema=sch)
            rec, mock = Rec(), pa.MockOutputStream()
            for sink in (rec, mock):
                w = new_ipc_stream(sink, sch)
                w.write_batch(b)
                w.close()
            extra = rec.n - (sch.serialize().size + ipc.get_record_batch_size(b) + 8)
            if mock.size() != rec.n or (extra > 0) != leaf_dict or extra < 0:
                raise HarnessModelError(f"Arrow dictionary-message model does not hold for {col.type}: extra={extra}, mock={mock.size()}, sink={rec.n}")
        real_t, fake_t = col.type, fake
        while True:
            if pa.types.is_dictionary(real_t) != _PaTypesNS.is_dictionary(fake_t) or isinstance(real_t, pa.BaseExtensionType) != isinstance(fake_t, _FakeExtBase):
                raise HarnessModelError(f"type model disagrees with pyarrow on {real_t}")
            if isinstance(real_t, pa.BaseExtensionType):
                real_t, fake_t = real_t.storage_type, fake_t.storage_type
                continue
            if real_t.num_fields != fake_t.num_fields:
                raise HarnessModelError(f"type model: num_fields of {real_t} is {real_t.num_fields}, model {fake_t.num_fields}")
            if real_t.num_fields == 0:
                break
            # descend into the child that carries the chain (the other struct child is a plain leaf in both)
            k = [i for i in range(real_t.num_fields) if fake_t.field(i).type.num_fields or fake_t.field(i).type._is_dict or isinstance(fake_t.field(i).type, _FakeExtBase)]
            i = k[0] if k else real_t.num_fields - 1
            real_t, fake_t = real_t.field(i).type, fake_t.field(i).type
    # map<k, v> is list<struct<k, v>> structurally, as the type model assumes
    mt = pa.map_(pa.string(), pa.int8())
    if mt.num_fields != 1 or mt.field(0).type.num_fields != 2:
        raise HarnessModelError("type model: map type is no longer list<struct<key, value>> structurally")


_validate_arrow_model()


def _sig_write(args: dict) -> str:
    shape = args.get("shape", -1)
    if not (0 <= shape < _N_SHAPES) or not _SHAPES[shape][1]:
        return "C28:write:exceeds-allocation"
    return "C28:write:exceeds-allocation" + ("-nested-dict" if _SHAPES[shape][0] else "-dict")


_N_FLAT = 2  # _SHAPES[0], _SHAPES[1]: no wrapper, plain / dictionary column
assert [s[0] for s in _SHAPES[:_N_FLAT + 1]][: _N_FLAT] == [(), ()] and _SHAPES[_N_FLAT][0] != ()

_DEPTH_OF_ENCODED = [shm.ShmSegment.allocate_and_write, shm._ShmSink.write] + [getattr(shm, _n) for _n in sorted(_HELPERS)]


@cond(q=60, t=180, stubs=_STUBS_B, encoded=_DEPTH_OF_ENCODED, replay=_replay_write,
      bound="schema message, batch message, dict-path size, segment size, offset: unbounded ints within the size model; "
            "schema = [optional plain column] + one plain or (top-level) dictionary column; allocator may refuse",
      signature=lambda args, conc: _sig_write(args))
def write_within_allocation(total: int, off: int, ret_none: bool, shape: int, lead: bool, schema_msg: int, rb_size: int, meta_part: int, dict_size: int) -> bool:
    """
    pre: _HS < total < _U64 and _HS <= off
    pre: schema_msg >= 8 and rb_size >= 8 and 0 <= meta_part <= rb_size and dict_size > 0
    pre: 0 <= shape < _N_FLAT
    post: _
    """
    return _write_ok(total, off, ret_none, shape, lead, schema_msg, rb_size, meta_part, dict_size)


@cond(q=150, t=900, stubs=_STUBS_B, encoded=_DEPTH_OF_ENCODED, replay=_replay_write,
      bound="schema message, batch message, dictionary-message size, segment size, offset: unbounded ints within the size model; "
            "schema = [optional plain column] + one column whose type is ANY chain of 1..%d wrappers from {list-like (list / large_list / fixed_size_list / map), "
            "struct (either position), extension} around a plain or a dictionary type (%d shapes; no extension directly over an extension)" % (_MAX_DEPTH, _N_SHAPES - _N_FLAT),
      signature=lambda args, conc: _sig_write(args))
def nested_column_write_within_allocation(total: int, off: int, shape: int, lead: bool, schema_msg: int, rb_size: int, meta_part: int, dict_size: int) -> bool:
    """
    pre: _HS < total < _U64 and _HS <= off
    pre: schema_msg >= 8 and rb_size >= 8 and 0 <= meta_part <= rb_size and dict_size > 0
    pre: _N_FLAT <= shape < _N_SHAPES
    post: _
    """
    return _write_ok(total, off, False, shape, lead, schema_msg, rb_size, meta_part, dict_size)


def _write_ok(total: int, off: int, ret_none: bool, shape: int, lead: bool, schema_msg: int, rb_size: int, meta_part: int, dict_size: int) -> bool:
    """One allocate_and_write of a batch whose column type is _SHAPES[shape]: True iff every stored range lies
    inside the range allocated for this batch and the reported (offset, length) covers what was stored."""
    _RUN["n"] += 1
    for m in _MEMOS.values():
        m.cache_clear()
    _HOLD["ret_none"] = ret_none
    _HOLD["off"] = off
    _SPLIT["m"] = meta_part
    buf = _SegBuf(total)
    alloc = _AllocContract(total)
    seg = _Seg(alloc, buf)
    chain, leaf_dict, col_type = _SHAPES[shape]
    types = (_PLAIN, col_type) if lead else (col_type,)
    top_dict = leaf_dict and len(chain) == 0
    batch = _FakeBatch(_FakeSchema(schema_msg, 0, types, emits_dict=leaf_dict), rb_size, top_dict, dict_size)
    try:
        res = seg.allocate_and_write(batch)
    except HarnessModelError:
        raise
    except Exception:  # noqa: BLE001
        # e.g. ValueError from the clipped memoryview store (write past the end of the segment):
        # the call failed, what it stored before failing must still be inside its own allocation
        if len(alloc.calls) > 1:
            return False
        for s, e in buf.ranges:
            if not alloc.calls or s < alloc.calls[0][0] or e > alloc.calls[0][0] + alloc.calls[0][1]:
                return False
        return True
    if res is None:
        return alloc.none and not buf.ranges
    if alloc.none or len(alloc.calls) != 1:
        return False
    a_off, a_len = alloc.calls[0]
    r_off, r_len = res
    if r_off != a_off or r_len > a_len or r_len <= 0:
        return False
    lo, hi = a_off, a_off + a_len
    for s, e in buf.ranges:
        if s < lo or e > hi:
            return False
    # the reported length covers everything written
    for s, e in buf.ranges:
        if e > r_off + r_len:
            return False
    return True


@cond(q=60, t=180, stubs=_STUBS_B + ["schema := size-abstract object whose ==/hash identity is a separate symbolic choice from its serialized size (pa.Schema ==/hash ignore metadata)"],
      encoded=[shm.ShmSegment.allocate_and_write, shm._ShmSink.write], replay=_replay_write,
      bound="history of two non-dictionary writes into one segment: schemas A then B, B == A or B != A (symbolic) with independent symbolic serialized sizes; all sizes/offsets unbounded ints",
      signature=lambda args, conc: "C28:write:allocation-sized-from-another-schema")
def second_write_within_allocation(total: int, off1: int, off2: int, same_identity: bool, schema_msg1: int, schema_msg2: int, rb1: int, rb2: int, meta_part: int) -> bool:
    """
    pre: _HS < total < _U64 and _HS <= off1 and _HS <= off2
    pre: schema_msg1 >= 8 and schema_msg2 >= 8 and rb1 >= 8 and rb2 >= 8 and 0 <= meta_part <= rb1 and meta_part <= rb2
    post: _
    """
    _RUN["n"] += 1
    for m in _MEMOS.values():
        m.cache_clear()
    _HOLD["ret_none"] = False
    _HOLD["offs"] = (off1, off2)
    _SPLIT["m"] = meta_part
    try:
        buf = _SegBuf(total)
        alloc = _AllocContract(total)
        seg = _Seg(alloc, buf)
        a = _FakeBatch(_FakeSchema(schema_msg1, 1), rb1, False, 1)
        b = _FakeBatch(_FakeSchema(schema_msg2, 1 if same_identity else 2), rb2, False, 1)
        for batch in (a, b):
            before = len(buf.ranges)
            n_calls = len(alloc.calls)
            try:
                res = seg.allocate_and_write(batch)
            except HarnessModelError:
                raise
            except Exception:  # noqa: BLE001
                res = "raised"
            new = buf.ranges[before:]
            if len(alloc.calls) == n_calls:
                # nothing allocated (allocator said no): nothing may have been stored
                if new or res not in (None, "raised"):
                    return False
                continue
            if len(alloc.calls) != n_calls + 1:
                return False
            lo, ln = alloc.calls[-1]
            for s0, e0 in new:
                if s0 < lo or e0 > lo + ln:
                    return False  # stored outside the region allocated for THIS batch
            if res != "raised":
                if res is None or res[0] != lo or res[1] > ln:
                    return False
        return True
    finally:
        _HOLD.pop("offs", None)
