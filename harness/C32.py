"""C32 — worker pool: exclusive ownership, idle bound, clean reuse — for every schedule.

coop engine over the real source of WorkerPool._borrow / _return_worker /
_evict_oldest_locked / _reap_expired / close and _PooledTransport.close (rewritten at import
time; the pool lock is the one the source takes).  Environment: SubprocessTransport is a fake
(process liveness symbolic), the clock is a scripted monotonic stub.  Symbolic: start thread,
preemption points, max_idle (incl. 0), pre-existing idle workers and their liveness/age,
whether a borrower abandons a stream, integer clock/timeout.
"""

from __future__ import annotations

import types

from engine import coop
from engine.api import SEED, cond, pick, task
from engine.reglob import reglobalize

from vgi_rpc import pool as pool_mod

PROPERTY = "C32"
LEVEL = "model_checking"
ENCODED = [
    pool_mod.WorkerPool._borrow,
    pool_mod.WorkerPool._return_worker,
    pool_mod.WorkerPool._evict_oldest_locked,
    pool_mod.WorkerPool._reap_expired,
    pool_mod.WorkerPool.close,
    pool_mod._PooledTransport.close,
]
BOUNDS = "quick: 2 borrowers (borrow, use, return) + 1 reaper sweep, start thread + 1 preemption, max_idle 0..2, 0..2 pre-idle workers; thorough: + pool.close thread, 2 preemptions; statement granularity; integer clock"
OUTSIDE = "real subprocesses and pipes; whether an interrupted unary call leaves unread bytes on the pipe (needs the real pipe); the RpcConnection/proxy layer between connect() and the transport; preemption inside a statement"
ASSUMPTIONS = [
    "SubprocessTransport := fake whose proc.poll() is None iff a symbolic 'alive' flag; close() only records",
    "time.monotonic := scripted non-decreasing integer clock",
    "a borrower marks its stream as opened-and-not-closed via the attributes _PooledTransport.close reads",
]


class _Proc:
    def __init__(self, key: tuple, alive: bool, pid: int) -> None:
        self.args = list(key)
        self.alive = alive
        self.pid = pid
        self.returncode = None if alive else 1

    def poll(self):  # type: ignore[no-untyped-def]
        return None if self.alive else 1


class _FakeTransport:
    def __init__(self, key: tuple, alive: bool, world: "_World") -> None:
        self.proc = _Proc(key, alive, len(world.transports) + 100)
        self.closed = 0
        self.world = world
        world.transports.append(self)

    def close(self) -> None:
        self.closed += 1


class _World:
    def __init__(self) -> None:
        self.transports: list[_FakeTransport] = []
        self.out: list[_FakeTransport] = []  # handed out, not yet returned
        self.bad: list[str] = []
        self.now = 0
        self.spawn_alive = True


_WORLD: list[_World] = []


def _spawn(cmd, stderr=None, stderr_logger=None):  # stands in for SubprocessTransport(...)
    w = _WORLD[-1]
    return _FakeTransport(tuple(cmd), w.spawn_alive, w)


class _TimeShim(types.ModuleType):
    def monotonic(self) -> int:
        return _WORLD[-1].now


class _AtexitStub(types.ModuleType):
    def register(self, f):  # type: ignore[no-untyped-def]
        return f

    def unregister(self, f) -> None:  # type: ignore[no-untyped-def]
        return None


class _NoThread:
    def __init__(self, *a, **k) -> None:  # type: ignore[no-untyped-def]
        pass

    def start(self) -> None:
        pass

    def join(self, timeout=None) -> None:  # type: ignore[no-untyped-def]
        pass


_THREADING = types.SimpleNamespace(Lock=coop.CoopLock, Event=coop.CoopEvent, Thread=_NoThread)
_OVR = {"SubprocessTransport": _spawn, "time": _TimeShim("time"), "atexit": _AtexitStub("atexit"), "_stderr_open": lambda: False}

UNIT = coop.Unit(ENCODED, globals_overrides=_OVR)
_init = reglobalize(pool_mod.WorkerPool.__init__, threading=_THREADING, atexit=_AtexitStub("atexit"))

KEY = ("worker", "--x")


@coop._mark
def _borrower(pool, world, abandon: bool, i: int):
    t = yield from coop._cc(pool._borrow, KEY)
    # hand-out checks (the moment a borrower gets the worker)
    if t in world.out:
        world.bad.append("handed out twice")
    if t.proc.poll() is not None:
        world.bad.append("dead worker handed out")
    if t.closed:
        world.bad.append("closed worker handed out")
    for dq in pool._idle.values():
        for e in dq:
            if e.transport is t:
                world.bad.append("worker is both idle and handed out")
    world.out.append(t)
    pt = pool_mod._PooledTransport(t, pool)
    if abandon:
        pt._stream_opened = True  # a stream was opened and never closed
    world.out.remove(t)  # ownership goes back to the pool inside close()
    yield from coop._cc(pt.close)
    if abandon and not t.closed:
        world.bad.append("worker with an abandoned stream was not discarded")
    return None


@coop._mark
def _reaper(pool, world):
    yield from coop._cc(pool._reap_expired)
    return None


@coop._mark
def _closer(pool, world):
    yield from coop._cc(pool.close)
    return None


def _scenario(real: bool, max_idle: int, n_idle: int, alive0: bool, alive1: bool, age0: int, age1: int, timeout: int, now: int, ab0: bool, ab1: bool, with_close: bool, first: int, pre):  # type: ignore[no-untyped-def]
    world = _World()
    _WORLD.append(world)
    s = coop.Scheduler(max_steps=400)
    try:
        pool = object.__new__(pool_mod.WorkerPool)
        _init(pool, max_idle=max(max_idle, 0), idle_timeout=1)
        pool._idle_timeout = timeout
        world.now = now
        # pre-existing idle workers (oldest first), as _return_worker would have left them
        ages = [age0, age1]
        alive = [alive0, alive1]
        for j in range(n_idle):
            tr = _FakeTransport(KEY, alive[j], world)
            pool._idle.setdefault(KEY, pool_mod.deque()).append(pool_mod._IdleEntry(key=KEY, transport=tr, returned_at=ages[j]))
        s.spawn(_borrower, pool, world, ab0, 0)
        if with_close != 3:
            s.spawn(_borrower, pool, world, ab1, 1)
        if with_close != 2:
            s.spawn(_reaper, pool, world)
        if with_close is True:
            s.spawn(_closer, pool, world)

        def inv() -> bool:
            if pool._lock.owner is not None:
                return True  # inside a critical section
            total = 0
            for dq in pool._idle.values():
                for e in dq:
                    total += 1
                    if e.transport in world.out:
                        return False
            return total <= pool._max_idle

        s.invariant = inv
        s.run(first, pre)
        return s, pool, world
    finally:
        s.close()
        _WORLD.pop()


def _verdict(s, pool, world, n_pre_idle: int) -> bool:  # type: ignore[no-untyped-def]
    if s.deadlocked or s.invariant_failed_at is not None or world.bad:
        return False
    for t in s.threads:
        if t.exc is not None or not t.done:
            return False
    idle = [e.transport for dq in pool._idle.values() for e in dq]
    if len(idle) > pool._max_idle:
        return False
    if len(set(map(id, idle))) != len(idle):
        return False
    # no leak: every worker ends up idle xor closed exactly once
    for tr in world.transports:
        in_idle = any(tr is x for x in idle)
        if in_idle == bool(tr.closed):
            return False
        if tr.closed > 1:
            return False
    if pool._active != 0:
        return False
    return True


def _args_of(a: dict, with_close: bool, k: int):  # type: ignore[no-untyped-def]
    pre = [(a["p1"], a["t1"])] + ([(a["p2"], a["t2"])] if k > 1 else [])
    age0, age1, timeout, now = _ages(a["exp0"], a["exp1"])
    return (a["max_idle"], a["n_idle"], a["alive0"], a["alive1"], age0, age1, timeout, now, a["ab0"], a["ab1"], with_close, a["first"], pre)


def _signature(a: dict, conc) -> str:  # type: ignore[no-untyped-def]
    return "C32:max_idle=0-pools-worker" if a.get("max_idle") == 0 else "C32:schedule"


def _replay_factory(with_close: bool, k: int):
    def replay(a: dict) -> str | None:
        """Real WorkerPool object with real threading primitives on genuine threads."""
        import threading

        args = _args_of(a, with_close, k)
        s, pool, world = _scenario(False, *args)
        if _verdict(s, pool, world, a["n_idle"]):
            return None
        max_idle, n_idle, alive0, alive1, age0, age1, timeout, now, ab0, ab1, wc, first, pre = args
        rworld = _World()
        rworld.now = now
        real_threading = types.SimpleNamespace(Lock=threading.Lock, Event=threading.Event, Thread=_NoThread)
        rinit = reglobalize(pool_mod.WorkerPool.__init__, threading=real_threading, atexit=_AtexitStub("atexit"))
        rpool = object.__new__(pool_mod.WorkerPool)
        rinit(rpool, max_idle=max(max_idle, 0), idle_timeout=1)
        rpool._idle_timeout = timeout
        ages, alive = [age0, age1], [alive0, alive1]
        for j in range(n_idle):
            tr = _FakeTransport(KEY, alive[j], rworld)
            rpool._idle.setdefault(KEY, pool_mod.deque()).append(pool_mod._IdleEntry(key=KEY, transport=tr, returned_at=ages[j]))
        # the un-rewritten methods look up SubprocessTransport/time/atexit in the real module globals
        saved = {k2: getattr(pool_mod, k2) for k2 in ("SubprocessTransport", "time", "atexit", "_stderr_open")}
        _WORLD.append(rworld)
        try:
            for k2, v in _OVR.items():
                setattr(pool_mod, k2, v)
            bad: list[str] = []
            max_seen = [0]

            def note() -> None:
                max_seen[0] = max(max_seen[0], sum(len(d) for d in rpool._idle.values()))

            def borrower(ab: bool):
                def run() -> None:
                    t = rpool._borrow(KEY)
                    if t in rworld.out:
                        bad.append("handed out twice")
                    if t.proc.poll() is not None:
                        bad.append("dead worker handed out")
                    if t.closed:
                        bad.append("closed worker handed out")
                    rworld.out.append(t)
                    pt = pool_mod._PooledTransport(t, rpool)
                    if ab:
                        pt._stream_opened = True
                    rworld.out.remove(t)
                    pt.close()
                    note()
                    if ab and not t.closed:
                        bad.append("worker with an abandoned stream was not discarded")

                return run

            bodies = [borrower(ab0)]
            if wc != 3:
                bodies.append(borrower(ab1))
            if wc != 2:
                bodies.append(lambda: (rpool._reap_expired(), note()))
            if wc is True:
                bodies.append(lambda: rpool.close())
            res = coop.replay_real(UNIT, bodies, s.trace, s.seg_ends)
        finally:
            for k2, v in saved.items():
                setattr(pool_mod, k2, v)
            _WORLD.pop()
        if res["diverged"] or not res["completed"]:
            return None
        rworld.bad = bad

        class _S:
            deadlocked = False
            invariant_failed_at = 1 if max_seen[0] > rpool._max_idle else None
            threads = [type("T", (), {"exc": None, "done": True})() for _ in bodies]

        if any(res["exceptions"]):
            return f"real threads: exception {res['exceptions']}"
        if not _verdict(_S, rpool, rworld, n_idle):
            idle_n = sum(len(d) for d in rpool._idle.values())
            return f"real WorkerPool on real threads ({res['segments']} segments): max_idle={rpool._max_idle} idle now={idle_n} peak={max_seen[0]} problems={bad} closed={[t.closed for t in rworld.transports]} active={rpool._active}"
        return None

    return replay


def _ages(exp0: bool, exp1: bool) -> tuple[int, int, int, int]:
    # the reaper only evaluates (now - returned_at) >= idle_timeout: abstract each idle worker's
    # age to expired / not expired (concrete now=10, timeout=5, returned_at 0 or 8)
    return (0 if exp0 else 8, 0 if exp1 else 8, 5, 10)


# thread sets: False = 2 borrowers + reaper, True = + pool.close, 2 = two borrowers only, 3 = one borrower + reaper
def _bar(mode, max_idle: int, n_idle: int, alive0: bool, alive1: bool, exp0: bool, exp1: bool, ab0: bool, ab1: bool, first: int, p1: int, t1: int) -> bool:  # type: ignore[no-untyped-def]
    age0, age1, timeout, now = _ages(exp0, exp1)
    s, pool, world = _scenario(False, max_idle, n_idle, alive0, alive1, age0, age1, timeout, now, ab0, ab1, mode, first, [(p1, t1)])
    return _verdict(s, pool, world, n_idle)


def _bar_replay(mode, max_idle: int, n_idle: int):  # type: ignore[no-untyped-def]
    inner = _replay_factory(mode, 1)

    def replay(a: dict) -> str | None:
        full = {"alive0": True, "alive1": True, "exp0": False, "exp1": False, "ab1": False, "t1": 1 - a.get("first", 0), **a, "max_idle": max_idle, "n_idle": n_idle}
        return inner(full)

    return replay


_SIG0 = lambda a, c: "C32:max_idle=0-pools-worker"  # noqa: E731
_SIGN = lambda a, c: "C32:schedule"  # noqa: E731
_B = "%s, start thread + 1 preemption; this item: max_idle=%d with %d pre-idle worker(s), each alive/dead and expired/fresh, each borrower abandoning a stream or not"

# The (thread set, max_idle, pre-idle) grid is split into one item per cell so that the cells run
# in parallel; inside a cell everything else (schedule, liveness, expiry, abandonment) is symbolic.


@cond(q=220, t=600, engine="coop", encoded=ENCODED, stubs=ASSUMPTIONS[:2], bound=_B % ("2 borrowers", 0, 0), replay=_bar_replay(2, 0, 0), signature=_SIG0)
def pool_bb_m0_i0(ab0: bool, ab1: bool, first: int, p1: int) -> bool:
    """
    pre: 0 <= first <= 1 and 0 <= p1 <= 45
    post: _
    """
    return _bar(2, 0, 0, True, True, False, False, ab0, ab1, first, p1, 1 - first)


@cond(q=220, t=600, engine="coop", encoded=ENCODED, stubs=ASSUMPTIONS[:2], bound=_B % ("2 borrowers", 1, 0), replay=_bar_replay(2, 1, 0), signature=_SIGN)
def pool_bb_m1_i0(ab0: bool, ab1: bool, first: int, p1: int) -> bool:
    """
    pre: 0 <= first <= 1 and 0 <= p1 <= 45
    post: _
    """
    return _bar(2, 1, 0, True, True, False, False, ab0, ab1, first, p1, 1 - first)


@cond(q=450, t=700, engine="coop", encoded=ENCODED, stubs=ASSUMPTIONS[:2], bound=_B % ("2 borrowers", 1, 1), replay=_bar_replay(2, 1, 1), signature=_SIGN)
def pool_bb_m1_i1(alive0: bool, exp0: bool, ab0: bool, ab1: bool, first: int, p1: int) -> bool:
    """
    pre: 0 <= first <= 1 and 0 <= p1 <= 45
    post: _
    """
    return _bar(2, 1, 1, alive0, True, exp0, False, ab0, ab1, first, p1, 1 - first)


@cond(q=220, t=600, tiers=("thorough",), engine="coop", encoded=ENCODED, stubs=ASSUMPTIONS[:2], bound=_B % ("2 borrowers", 2, 0), replay=_bar_replay(2, 2, 0), signature=_SIGN)
def pool_bb_m2_i0(ab0: bool, ab1: bool, first: int, p1: int) -> bool:
    """
    pre: 0 <= first <= 1 and 0 <= p1 <= 45
    post: _
    """
    return _bar(2, 2, 0, True, True, False, False, ab0, ab1, first, p1, 1 - first)


@cond(q=450, t=700, engine="coop", encoded=ENCODED, stubs=ASSUMPTIONS[:2], bound=_B % ("2 borrowers", 2, 1), replay=_bar_replay(2, 2, 1), signature=_SIGN)
def pool_bb_m2_i1(alive0: bool, exp0: bool, ab0: bool, ab1: bool, first: int, p1: int) -> bool:
    """
    pre: 0 <= first <= 1 and 0 <= p1 <= 45
    post: _
    """
    return _bar(2, 2, 1, alive0, True, exp0, False, ab0, ab1, first, p1, 1 - first)


@cond(q=450, t=700, tiers=("thorough",), engine="coop", encoded=ENCODED, stubs=ASSUMPTIONS[:2], bound=_B % ("2 borrowers", 2, 2), replay=_bar_replay(2, 2, 2), signature=_SIGN)
def pool_bb_m2_i2(alive0: bool, exp0: bool, alive1: bool, exp1: bool, ab0: bool, ab1: bool, first: int, p1: int) -> bool:
    """
    pre: (exp0 or not exp1) and 0 <= first <= 1 and 0 <= p1 <= 45
    post: _
    """
    return _bar(2, 2, 2, alive0, alive1, exp0, exp1, ab0, ab1, first, p1, 1 - first)


@cond(q=220, t=600, engine="coop", encoded=ENCODED, stubs=ASSUMPTIONS[:2], bound=_B % ("1 borrower + reaper sweep", 0, 0), replay=_bar_replay(3, 0, 0), signature=_SIG0)
def pool_br_m0_i0(ab0: bool, first: int, p1: int) -> bool:
    """
    pre: 0 <= first <= 1 and 0 <= p1 <= 45
    post: _
    """
    return _bar(3, 0, 0, True, True, False, False, ab0, False, first, p1, 1 - first)


@cond(q=220, t=600, tiers=("thorough",), engine="coop", encoded=ENCODED, stubs=ASSUMPTIONS[:2], bound=_B % ("1 borrower + reaper sweep", 1, 0), replay=_bar_replay(3, 1, 0), signature=_SIGN)
def pool_br_m1_i0(ab0: bool, first: int, p1: int) -> bool:
    """
    pre: 0 <= first <= 1 and 0 <= p1 <= 45
    post: _
    """
    return _bar(3, 1, 0, True, True, False, False, ab0, False, first, p1, 1 - first)


@cond(q=450, t=700, engine="coop", encoded=ENCODED, stubs=ASSUMPTIONS[:2], bound=_B % ("1 borrower + reaper sweep", 1, 1), replay=_bar_replay(3, 1, 1), signature=_SIGN)
def pool_br_m1_i1(alive0: bool, exp0: bool, ab0: bool, first: int, p1: int) -> bool:
    """
    pre: 0 <= first <= 1 and 0 <= p1 <= 45
    post: _
    """
    return _bar(3, 1, 1, alive0, True, exp0, False, ab0, False, first, p1, 1 - first)


@cond(q=220, t=600, tiers=("thorough",), engine="coop", encoded=ENCODED, stubs=ASSUMPTIONS[:2], bound=_B % ("1 borrower + reaper sweep", 2, 0), replay=_bar_replay(3, 2, 0), signature=_SIGN)
def pool_br_m2_i0(ab0: bool, first: int, p1: int) -> bool:
    """
    pre: 0 <= first <= 1 and 0 <= p1 <= 45
    post: _
    """
    return _bar(3, 2, 0, True, True, False, False, ab0, False, first, p1, 1 - first)


@cond(q=450, t=700, engine="coop", encoded=ENCODED, stubs=ASSUMPTIONS[:2], bound=_B % ("1 borrower + reaper sweep", 2, 1), replay=_bar_replay(3, 2, 1), signature=_SIGN)
def pool_br_m2_i1(alive0: bool, exp0: bool, ab0: bool, first: int, p1: int) -> bool:
    """
    pre: 0 <= first <= 1 and 0 <= p1 <= 45
    post: _
    """
    return _bar(3, 2, 1, alive0, True, exp0, False, ab0, False, first, p1, 1 - first)


@cond(q=450, t=700, tiers=("thorough",), engine="coop", encoded=ENCODED, stubs=ASSUMPTIONS[:2], bound=_B % ("1 borrower + reaper sweep", 2, 2), replay=_bar_replay(3, 2, 2), signature=_SIGN)
def pool_br_m2_i2(alive0: bool, exp0: bool, alive1: bool, exp1: bool, ab0: bool, first: int, p1: int) -> bool:
    """
    pre: (exp0 or not exp1) and 0 <= first <= 1 and 0 <= p1 <= 45
    post: _
    """
    return _bar(3, 2, 2, alive0, alive1, exp0, exp1, ab0, False, first, p1, 1 - first)


@cond(q=60, t=900, tiers=("thorough",), engine="coop", encoded=ENCODED, stubs=ASSUMPTIONS[:2], bound="2 borrowers + reaper, start thread + 1 preemption, max_idle 0..2, pre-idle 0..2 (all symbolic)", replay=_replay_factory(False, 1), signature=_signature)
def borrowers_and_reaper(max_idle: int, n_idle: int, alive0: bool, alive1: bool, exp0: bool, exp1: bool, ab0: bool, ab1: bool, first: int, p1: int, t1: int) -> bool:
    """
    pre: 0 <= max_idle <= 2 and 0 <= n_idle <= 2 and n_idle <= max_idle and (exp0 or not exp1)
    pre: 0 <= first <= 2 and 0 <= t1 <= 2 and 0 <= p1 <= 60
    post: _
    """
    return _bar(False, max_idle, n_idle, alive0, alive1, exp0, exp1, ab0, ab1, first, p1, t1)


@cond(q=60, t=1500, tiers=("thorough",), engine="coop", encoded=ENCODED, stubs=ASSUMPTIONS[:2], bound="2 borrowers + reaper + close, 2 preemptions, max_idle 0..2, pre-idle 0..2",
      replay=_replay_factory(True, 2), signature=_signature)
def with_pool_close(max_idle: int, n_idle: int, alive0: bool, alive1: bool, exp0: bool, exp1: bool, ab0: bool, ab1: bool, first: int, p1: int, t1: int, p2: int, t2: int) -> bool:
    """
    pre: 0 <= max_idle <= 2 and 0 <= n_idle <= 2 and n_idle <= max_idle and (exp0 or not exp1)
    pre: 0 <= first <= 3 and 0 <= t1 <= 3 and 0 <= t2 <= 3 and 0 <= p1 < p2 <= 80
    post: _
    """
    age0, age1, timeout, now = _ages(exp0, exp1)
    s, pool, world = _scenario(False, max_idle, n_idle, alive0, alive1, age0, age1, timeout, now, ab0, ab1, True, first, [(p1, t1), (p2, t2)])
    if any(len(d) for d in pool._idle.values()):
        return False  # close() drains under the lock after setting _closed: nothing may stay idle
    return _verdict(s, pool, world, n_idle)
