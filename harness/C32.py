"""C32 — worker pool: exclusive ownership, idle bound, clean reuse — for every schedule.

coop engine over the real source of WorkerPool._borrow / _return_worker /
_evict_oldest_locked / _reap_expired / close and _PooledTransport.close (rewritten at import
time; the pool lock is the one the source takes).  Environment: SubprocessTransport is a fake
(process liveness symbolic), the clock is a scripted monotonic stub.  Symbolic: start thread,
preemption points, max_idle (incl. 0), pre-existing idle workers and their liveness/age,
whether a borrower abandons a stream, integer clock/timeout.
"""

from __future__ import annotations

import types

from engine import coop
from engine.api import SEED, HarnessModelError, cond, harness_side, pick, task
from engine.reglob import reglobalize

from vgi_rpc import pool as pool_mod

PROPERTY = "C32"
LEVEL = "model_checking"
ENCODED = [
    pool_mod.WorkerPool._borrow,
    pool_mod.WorkerPool._return_worker,
    pool_mod.WorkerPool._evict_oldest_locked,
    pool_mod.WorkerPool._reap_expired,
    pool_mod.WorkerPool.close,
    pool_mod._PooledTransport.close,
]
BOUNDS = "quick: 2 borrowers (borrow, use, return) + 1 reaper sweep, start thread + 1 preemption, max_idle 0..2, 0..2 pre-idle workers; thorough: + pool.close thread, 2 preemptions; statement granularity; integer clock"
OUTSIDE = "worker leaks (a worker neither idle nor closed) and double closes (not in the statement); real subprocesses and pipes; whether an interrupted unary call leaves unread bytes on the pipe (needs the real pipe); the RpcConnection/proxy layer between connect() and the transport; preemption inside a statement"
ASSUMPTIONS = [
    "SubprocessTransport := fake whose proc.poll() is None iff a symbolic 'alive' flag; close() only records",
    "time.monotonic := scripted non-decreasing integer clock",
    "a borrower marks its stream as opened-and-not-closed via the attribute _PooledTransport.close reads (guarded: if it is gone the item is inconclusive)",
    "monitor = the property's rules only: hand-out (not held by another borrower, alive, not closed, not after an abandoned stream), idle <= max_idle whenever the pool lock is free, and whatever is left in the idle set is alive-for-reuse (not closed, not abandoned); no metrics counters, close counts or leak accounting",
    "the preemption-point bounds are measured from un-preempted runs of the model at import (longest thread / longest run + 3)",
]


class _Proc:
    def __init__(self, key: tuple, alive: bool, pid: int) -> None:
        self.args = list(key)
        self.alive = alive
        self.pid = pid
        self.returncode = None if alive else 1

    def poll(self):  # type: ignore[no-untyped-def]
        return None if self.alive else 1

    def __getattr__(self, name: str):  # type: ignore[no-untyped-def]
        raise HarnessModelError(f"fake worker process has no .{name}: the pool uses more of Popen than the model covers")


class _FakeTransport:
    def __init__(self, key: tuple, alive: bool, world: "_World") -> None:
        self.proc = _Proc(key, alive, len(world.transports) + 100)
        self.closed = 0
        self.world = world
        world.transports.append(self)

    def close(self) -> None:
        self.closed += 1

    def __getattr__(self, name: str):  # type: ignore[no-untyped-def]
        raise HarnessModelError(f"fake SubprocessTransport has no .{name}: the pool uses more of the transport than the model covers")


class _World:
    def __init__(self) -> None:
        self.transports: list[_FakeTransport] = []
        self.out: list[_FakeTransport] = []  # handed out, not yet returned
        self.abandoned: list[_FakeTransport] = []  # a borrower left a stream open on it: must never serve again
        self.bad: list[str] = []
        self.now = 0
        self.spawn_alive = True


_WORLD: list[_World] = []


def _spawn(cmd, *a, **k):  # stands in for SubprocessTransport(...)
    w = _WORLD[-1]
    return _FakeTransport(tuple(cmd), w.spawn_alive, w)


class _TimeShim(types.ModuleType):
    def monotonic(self) -> int:
        return _WORLD[-1].now

    def __getattr__(self, name: str):  # type: ignore[no-untyped-def]
        raise HarnessModelError(f"time.{name} is not modelled (only time.monotonic, scripted)")


def _need(obj, name: str):  # type: ignore[no-untyped-def]
    """Read a private attribute the monitor observes; if the code no longer has it the scenario
    cannot be observed: a harness-model problem (INCONCLUSIVE), never a finding."""
    try:
        return getattr(obj, name)
    except AttributeError as e:
        raise HarnessModelError(f"{type(obj).__name__}.{name} is gone: the pool monitor cannot observe the idle set") from e


def _idle_transports(pool) -> list:  # type: ignore[no-untyped-def]
    return [_need(e, "transport") for dq in _need(pool, "_idle").values() for e in dq]


def _mark_stream_abandoned(pt) -> None:  # type: ignore[no-untyped-def]
    """What a borrower that opened a stream and never closed it leaves behind (the flag
    _PooledTransport.close reads)."""
    if "_stream_opened" not in getattr(type(pt), "__slots__", ()) and not hasattr(pt, "_stream_opened"):
        raise HarnessModelError("_PooledTransport._stream_opened is gone: cannot script an abandoned stream")
    pt._stream_opened = True


class _AtexitStub(types.ModuleType):
    def register(self, f):  # type: ignore[no-untyped-def]
        return f

    def unregister(self, f) -> None:  # type: ignore[no-untyped-def]
        return None


class _NoThread:
    def __init__(self, *a, **k) -> None:  # type: ignore[no-untyped-def]
        pass

    def start(self) -> None:
        pass

    def join(self, timeout=None) -> None:  # type: ignore[no-untyped-def]
        pass


_THREADING = types.SimpleNamespace(Lock=coop.CoopLock, Event=coop.CoopEvent, Thread=_NoThread)
_OVR = {"SubprocessTransport": _spawn, "time": _TimeShim("time"), "atexit": _AtexitStub("atexit"), "_stderr_open": lambda: False}

UNIT = coop.Unit(ENCODED, globals_overrides=_OVR)
_init = reglobalize(pool_mod.WorkerPool.__init__, threading=_THREADING, atexit=_AtexitStub("atexit"))

KEY = ("worker", "--x")


def _on_hand_out(pool, world, t, bad: list) -> None:  # type: ignore[no-untyped-def]
    """The moment a borrower is given worker t: the property's hand-out rules."""
    if t in world.out:
        bad.append("handed out twice")
    if t.proc.poll() is not None:
        bad.append("dead worker handed out")
    if t.closed:
        bad.append("closed worker handed out")
    if t in world.abandoned:
        bad.append("worker handed out after an abandoned stream")


@coop._mark
def _borrower(pool, world, abandon: bool, i: int):
    t = yield from coop._cc(pool._borrow, KEY)
    _on_hand_out(pool, world, t, world.bad)
    world.out.append(t)
    yield coop.HP  # the borrower uses the worker: any other thread may run here
    pt = pool_mod._PooledTransport(t, pool)
    if abandon:
        _mark_stream_abandoned(pt)  # a stream was opened and never closed
        world.abandoned.append(t)
    world.out.remove(t)  # ownership goes back to the pool inside close()
    yield from coop._cc(pt.close)
    return None


@coop._mark
def _reaper(pool, world):
    yield from coop._cc(pool._reap_expired)
    return None


@coop._mark
def _closer(pool, world):
    yield from coop._cc(pool.close)
    return None


def _scenario(real: bool, max_idle: int, n_idle: int, alive0: bool, alive1: bool, age0: int, age1: int, timeout: int, now: int, ab0: bool, ab1: bool, with_close: bool, first: int, pre):  # type: ignore[no-untyped-def]
    world = _World()
    _WORLD.append(world)
    s = coop.Scheduler(max_steps=400)
    try:
        pool = object.__new__(pool_mod.WorkerPool)
        _init(pool, max_idle=max(max_idle, 0), idle_timeout=1)
        pool._idle_timeout = timeout
        world.now = now
        # pre-existing idle workers (oldest first), as _return_worker would have left them
        ages = [age0, age1]
        alive = [alive0, alive1]
        for j in range(n_idle):
            tr = _FakeTransport(KEY, alive[j], world)
            pool._idle.setdefault(KEY, pool_mod.deque()).append(pool_mod._IdleEntry(key=KEY, transport=tr, returned_at=ages[j]))
        s.spawn(_borrower, pool, world, ab0, 0)
        if with_close != 3:
            s.spawn(_borrower, pool, world, ab1, 1)
        if with_close != 2:
            s.spawn(_reaper, pool, world)
        if with_close is True:
            s.spawn(_closer, pool, world)

        def inv() -> bool:
            if _need(pool, "_lock").owner is not None:
                return True  # inside a critical section
            idle = _idle_transports(pool)
            for tr in idle:
                if tr in world.out:
                    return False  # a worker is idle (borrowable) while a borrower holds it
            return len(idle) <= max(max_idle, 0)

        s.invariant = inv
        s.run(first, pre)
        return s, pool, world
    finally:
        s.close()
        _WORLD.pop()


def _problems(s, pool, world, max_idle: int) -> list[str]:  # type: ignore[no-untyped-def]
    """Everything the property forbids, and nothing else (no metrics counters, no close counts, no
    leak accounting: those are not in the statement)."""
    bad = list(world.bad)
    if s.deadlocked:
        bad.append("deadlock")
    if s.invariant_failed_at is not None:
        bad.append("idle-exceeds-max_idle-or-idle-while-held")
    for t in s.threads:
        if t.exc is not None:
            why = harness_side(t.exc)
            if why:
                raise HarnessModelError("scenario thread: " + why)
            bad.append("exception:" + type(t.exc).__name__)
        elif not t.done:
            bad.append("thread-did-not-finish")
    idle = _idle_transports(pool)
    if len(idle) > max(max_idle, 0):
        bad.append("idle-exceeds-max_idle")
    if len(set(map(id, idle))) != len(idle):
        bad.append("worker-twice-in-idle-set")
    for tr in idle:
        # whatever sits in the idle set is what the next borrower gets
        if tr.closed:
            bad.append("closed-worker-kept-for-reuse")
        if tr in world.abandoned:
            bad.append("abandoned-stream-worker-kept-for-reuse")
    return bad


def _verdict(s, pool, world, max_idle: int) -> bool:  # type: ignore[no-untyped-def]
    return not _problems(s, pool, world, max_idle)


def _args_of(a: dict, with_close: bool, k: int):  # type: ignore[no-untyped-def]
    pre = [(a["p1"], a["t1"])] + ([(a["p2"], a["t2"])] if k > 1 else [])
    age0, age1, timeout, now = _ages(a["exp0"], a["exp1"])
    return (a["max_idle"], a["n_idle"], a["alive0"], a["alive1"], age0, age1, timeout, now, a["ab0"], a["ab1"], with_close, a["first"], pre)


def _signature_for(with_close, k: int):  # type: ignore[no-untyped-def]
    def sig(a: dict, conc) -> str:  # type: ignore[no-untyped-def]
        s_, pool, world = _scenario(False, *_args_of(a, with_close, k))
        bad = _problems(s_, pool, world, a["max_idle"])
        first = bad[0] if bad else "none"
        if a.get("max_idle") == 0 and first.startswith("idle-exceeds-max_idle"):
            return "C32:max_idle=0-pools-worker"
        return "C32:" + first.replace(" ", "-")

    return sig


def _replay_factory(with_close: bool, k: int):
    def replay(a: dict) -> str | None:
        """Real WorkerPool object with real threading primitives on genuine threads."""
        import threading

        args = _args_of(a, with_close, k)
        s, pool, world = _scenario(False, *args)
        if _verdict(s, pool, world, a["max_idle"]):
            return None
        max_idle, n_idle, alive0, alive1, age0, age1, timeout, now, ab0, ab1, wc, first, pre = args
        rworld = _World()
        rworld.now = now
        real_threading = types.SimpleNamespace(Lock=threading.Lock, Event=threading.Event, Thread=_NoThread)
        rinit = reglobalize(pool_mod.WorkerPool.__init__, threading=real_threading, atexit=_AtexitStub("atexit"))
        rpool = object.__new__(pool_mod.WorkerPool)
        rinit(rpool, max_idle=max(max_idle, 0), idle_timeout=1)
        rpool._idle_timeout = timeout
        ages, alive = [age0, age1], [alive0, alive1]
        for j in range(n_idle):
            tr = _FakeTransport(KEY, alive[j], rworld)
            rpool._idle.setdefault(KEY, pool_mod.deque()).append(pool_mod._IdleEntry(key=KEY, transport=tr, returned_at=ages[j]))
        # the un-rewritten methods look up SubprocessTransport/time/atexit in the real module globals
        saved = {k2: getattr(pool_mod, k2) for k2 in ("SubprocessTransport", "time", "atexit", "_stderr_open")}
        _WORLD.append(rworld)
        try:
            for k2, v in _OVR.items():
                setattr(pool_mod, k2, v)
            bad: list[str] = []
            max_seen = [0]

            def note() -> None:
                idle = _idle_transports(rpool)
                max_seen[0] = max(max_seen[0], len(idle))

            def borrower(ab: bool):
                def run() -> None:
                    t = rpool._borrow(KEY)
                    _on_hand_out(rpool, rworld, t, bad)
                    rworld.out.append(t)
                    coop.harness_point()
                    pt = pool_mod._PooledTransport(t, rpool)
                    if ab:
                        _mark_stream_abandoned(pt)
                        rworld.abandoned.append(t)
                    rworld.out.remove(t)
                    pt.close()
                    note()

                return run

            bodies = [borrower(ab0)]
            if wc != 3:
                bodies.append(borrower(ab1))
            if wc != 2:
                bodies.append(lambda: (rpool._reap_expired(), note()))
            if wc is True:
                bodies.append(lambda: rpool.close())
            res = coop.replay_real(UNIT, bodies, s.trace, s.seg_ends)
        finally:
            for k2, v in saved.items():
                setattr(pool_mod, k2, v)
            _WORLD.pop()
        if res["diverged"] or not res["completed"] or res.get("harness_side"):
            return None  # the schedule could not be imposed, or a fake gave up: says nothing
        rworld.bad = bad

        class _S:
            deadlocked = False
            invariant_failed_at = 1 if max_seen[0] > max(max_idle, 0) else None
            threads = [type("T", (), {"exc": None, "done": True})() for _ in bodies]

        problems = _problems(_S, rpool, rworld, max_idle)
        if any(res["exceptions"]):
            problems.append(f"exception {[e for e in res['exceptions'] if e]}")
        if problems:
            idle_n = len(_idle_transports(rpool))
            return f"real WorkerPool on real threads ({res['segments']} segments): max_idle={max(max_idle, 0)} idle now={idle_n} peak={max_seen[0]} problems={problems} closed={[t.closed for t in rworld.transports]}"
        return None

    return replay


def _ages(exp0: bool, exp1: bool) -> tuple[int, int, int, int]:
    # the reaper only evaluates (now - returned_at) >= idle_timeout: abstract each idle worker's
    # age to expired / not expired (concrete now=10, timeout=5, returned_at 0 or 8)
    return (0 if exp0 else 8, 0 if exp1 else 8, 5, 10)


# thread sets: False = 2 borrowers + reaper, True = + pool.close, 2 = two borrowers only, 3 = one borrower + reaper
def _bar(mode, max_idle: int, n_idle: int, alive0: bool, alive1: bool, exp0: bool, exp1: bool, ab0: bool, ab1: bool, first: int, p1: int, t1: int) -> bool:  # type: ignore[no-untyped-def]
    age0, age1, timeout, now = _ages(exp0, exp1)
    s, pool, world = _scenario(False, max_idle, n_idle, alive0, alive1, age0, age1, timeout, now, ab0, ab1, mode, first, [(p1, t1)])
    return _verdict(s, pool, world, max_idle)


def _bar_replay(mode, max_idle: int, n_idle: int):  # type: ignore[no-untyped-def]
    inner = _replay_factory(mode, 1)

    def replay(a: dict) -> str | None:
        full = {"alive0": True, "alive1": True, "exp0": False, "exp1": False, "ab1": False, "t1": 1 - a.get("first", 0), **a, "max_idle": max_idle, "n_idle": n_idle}
        return inner(full)

    return replay


def _sig_factory(mode, max_idle: int, n_idle: int):  # type: ignore[no-untyped-def]
    """Signature = what the property-level monitor saw first on the counterexample schedule."""

    def sig(a: dict, conc) -> str:  # type: ignore[no-untyped-def]
        full = {"alive0": True, "alive1": True, "exp0": False, "exp1": False, "ab1": False, "t1": 1 - a.get("first", 0), **a, "max_idle": max_idle, "n_idle": n_idle}
        s_, pool, world = _scenario(False, *_args_of(full, mode, 1))
        bad = _problems(s_, pool, world, max_idle)
        first = bad[0] if bad else "none"
        if max_idle == 0 and first.startswith("idle-exceeds-max_idle"):
            return "C32:max_idle=0-pools-worker"
        return "C32:" + first.replace(" ", "-")

    return sig


def _measure() -> tuple[int, int]:
    """Bounds for the preemption points, derived from the model instead of guessed: the longest
    statement count of one scenario thread (a later point can only hit a finished thread) and the
    longest whole run, over un-preempted runs of every thread set / pre-idle configuration."""
    import collections

    one, whole = 0, 0
    for mode in (2, 3, False, True):
        for n_idle in (0, 1, 2):
            for flag in (False, True):
                for exp in (False, True):
                    age0, age1, timeout, now = _ages(exp, exp)
                    s_, _pool, _world = _scenario(False, 2, n_idle, flag, flag, age0, age1, timeout, now, flag, flag, mode, 0, [])
                    per = collections.Counter(e[0] for e in s_.trace if e[1])
                    one, whole = max(one, max(per.values())), max(whole, sum(per.values()))
    return one + 3, whole + 3


_P1, _P2 = _measure()
_B = "%s, start thread + 1 preemption; this item: max_idle=%d with %d pre-idle worker(s), each alive/dead and expired/fresh, each borrower abandoning a stream or not"

# The (thread set, max_idle, pre-idle) grid is split into one item per cell so that the cells run
# in parallel; inside a cell everything else (schedule, liveness, expiry, abandonment) is symbolic.


@cond(q=220, t=600, engine="coop", encoded=ENCODED, stubs=ASSUMPTIONS[:2], bound=_B % ("2 borrowers", 0, 0), replay=_bar_replay(2, 0, 0), signature=_sig_factory(2, 0, 0))
def pool_bb_m0_i0(ab0: bool, ab1: bool, first: int, p1: int) -> bool:
    """
    pre: 0 <= first <= 1 and 0 <= p1 <= _P1
    post: _
    """
    return _bar(2, 0, 0, True, True, False, False, ab0, ab1, first, p1, 1 - first)


@cond(q=220, t=600, engine="coop", encoded=ENCODED, stubs=ASSUMPTIONS[:2], bound=_B % ("2 borrowers", 1, 0), replay=_bar_replay(2, 1, 0), signature=_sig_factory(2, 1, 0))
def pool_bb_m1_i0(ab0: bool, ab1: bool, first: int, p1: int) -> bool:
    """
    pre: 0 <= first <= 1 and 0 <= p1 <= _P1
    post: _
    """
    return _bar(2, 1, 0, True, True, False, False, ab0, ab1, first, p1, 1 - first)


@cond(q=450, t=700, engine="coop", encoded=ENCODED, stubs=ASSUMPTIONS[:2], bound=_B % ("2 borrowers", 1, 1), replay=_bar_replay(2, 1, 1), signature=_sig_factory(2, 1, 1))
def pool_bb_m1_i1(alive0: bool, exp0: bool, ab0: bool, ab1: bool, first: int, p1: int) -> bool:
    """
    pre: 0 <= first <= 1 and 0 <= p1 <= _P1
    post: _
    """
    return _bar(2, 1, 1, alive0, True, exp0, False, ab0, ab1, first, p1, 1 - first)


@cond(q=220, t=600, tiers=("thorough",), engine="coop", encoded=ENCODED, stubs=ASSUMPTIONS[:2], bound=_B % ("2 borrowers", 2, 0), replay=_bar_replay(2, 2, 0), signature=_sig_factory(2, 2, 0))
def pool_bb_m2_i0(ab0: bool, ab1: bool, first: int, p1: int) -> bool:
    """
    pre: 0 <= first <= 1 and 0 <= p1 <= _P1
    post: _
    """
    return _bar(2, 2, 0, True, True, False, False, ab0, ab1, first, p1, 1 - first)


@cond(q=450, t=700, engine="coop", encoded=ENCODED, stubs=ASSUMPTIONS[:2], bound=_B % ("2 borrowers", 2, 1), replay=_bar_replay(2, 2, 1), signature=_sig_factory(2, 2, 1))
def pool_bb_m2_i1(alive0: bool, exp0: bool, ab0: bool, ab1: bool, first: int, p1: int) -> bool:
    """
    pre: 0 <= first <= 1 and 0 <= p1 <= _P1
    post: _
    """
    return _bar(2, 2, 1, alive0, True, exp0, False, ab0, ab1, first, p1, 1 - first)


@cond(q=450, t=1600, tiers=("thorough",), engine="coop", encoded=ENCODED, stubs=ASSUMPTIONS[:2], bound=_B % ("2 borrowers", 2, 2), replay=_bar_replay(2, 2, 2), signature=_sig_factory(2, 2, 2))
def pool_bb_m2_i2(alive0: bool, exp0: bool, alive1: bool, exp1: bool, ab0: bool, ab1: bool, first: int, p1: int) -> bool:
    """
    pre: (exp0 or not exp1) and 0 <= first <= 1 and 0 <= p1 <= _P1
    post: _
    """
    return _bar(2, 2, 2, alive0, alive1, exp0, exp1, ab0, ab1, first, p1, 1 - first)


@cond(q=220, t=600, engine="coop", encoded=ENCODED, stubs=ASSUMPTIONS[:2], bound=_B % ("1 borrower + reaper sweep", 0, 0), replay=_bar_replay(3, 0, 0), signature=_sig_factory(3, 0, 0))
def pool_br_m0_i0(ab0: bool, first: int, p1: int) -> bool:
    """
    pre: 0 <= first <= 1 and 0 <= p1 <= _P1
    post: _
    """
    return _bar(3, 0, 0, True, True, False, False, ab0, False, first, p1, 1 - first)


@cond(q=220, t=600, tiers=("thorough",), engine="coop", encoded=ENCODED, stubs=ASSUMPTIONS[:2], bound=_B % ("1 borrower + reaper sweep", 1, 0), replay=_bar_replay(3, 1, 0), signature=_sig_factory(3, 1, 0))
def pool_br_m1_i0(ab0: bool, first: int, p1: int) -> bool:
    """
    pre: 0 <= first <= 1 and 0 <= p1 <= _P1
    post: _
    """
    return _bar(3, 1, 0, True, True, False, False, ab0, False, first, p1, 1 - first)


@cond(q=450, t=700, engine="coop", encoded=ENCODED, stubs=ASSUMPTIONS[:2], bound=_B % ("1 borrower + reaper sweep", 1, 1), replay=_bar_replay(3, 1, 1), signature=_sig_factory(3, 1, 1))
def pool_br_m1_i1(alive0: bool, exp0: bool, ab0: bool, first: int, p1: int) -> bool:
    """
    pre: 0 <= first <= 1 and 0 <= p1 <= _P1
    post: _
    """
    return _bar(3, 1, 1, alive0, True, exp0, False, ab0, False, first, p1, 1 - first)


@cond(q=220, t=600, tiers=("thorough",), engine="coop", encoded=ENCODED, stubs=ASSUMPTIONS[:2], bound=_B % ("1 borrower + reaper sweep", 2, 0), replay=_bar_replay(3, 2, 0), signature=_sig_factory(3, 2, 0))
def pool_br_m2_i0(ab0: bool, first: int, p1: int) -> bool:
    """
    pre: 0 <= first <= 1 and 0 <= p1 <= _P1
    post: _
    """
    return _bar(3, 2, 0, True, True, False, False, ab0, False, first, p1, 1 - first)


@cond(q=450, t=700, engine="coop", encoded=ENCODED, stubs=ASSUMPTIONS[:2], bound=_B % ("1 borrower + reaper sweep", 2, 1), replay=_bar_replay(3, 2, 1), signature=_sig_factory(3, 2, 1))
def pool_br_m2_i1(alive0: bool, exp0: bool, ab0: bool, first: int, p1: int) -> bool:
    """
    pre: 0 <= first <= 1 and 0 <= p1 <= _P1
    post: _
    """
    return _bar(3, 2, 1, alive0, True, exp0, False, ab0, False, first, p1, 1 - first)


@cond(q=450, t=700, tiers=("thorough",), engine="coop", encoded=ENCODED, stubs=ASSUMPTIONS[:2], bound=_B % ("1 borrower + reaper sweep", 2, 2), replay=_bar_replay(3, 2, 2), signature=_sig_factory(3, 2, 2))
def pool_br_m2_i2(alive0: bool, exp0: bool, alive1: bool, exp1: bool, ab0: bool, first: int, p1: int) -> bool:
    """
    pre: (exp0 or not exp1) and 0 <= first <= 1 and 0 <= p1 <= _P1
    post: _
    """
    return _bar(3, 2, 2, alive0, alive1, exp0, exp1, ab0, False, first, p1, 1 - first)


@cond(q=60, t=2400, tiers=("thorough",), engine="coop", encoded=ENCODED, stubs=ASSUMPTIONS[:2], bound="2 borrowers + reaper, start thread + 1 preemption, max_idle 0..2, pre-idle 0..2 (all symbolic)", replay=_replay_factory(False, 1), signature=_signature_for(False, 1))
def borrowers_and_reaper(max_idle: int, n_idle: int, alive0: bool, alive1: bool, exp0: bool, exp1: bool, ab0: bool, ab1: bool, first: int, p1: int, t1: int) -> bool:
    """
    pre: 0 <= max_idle <= 2 and 0 <= n_idle <= 2 and n_idle <= max_idle and (exp0 or not exp1)
    pre: 0 <= first <= 2 and 0 <= t1 <= 2 and 0 <= p1 <= _P2
    post: _
    """
    return _bar(False, max_idle, n_idle, alive0, alive1, exp0, exp1, ab0, ab1, first, p1, t1)


@cond(q=60, t=4000, tiers=("thorough",), engine="coop", encoded=ENCODED, stubs=ASSUMPTIONS[:2], bound="2 borrowers + reaper + close, 2 preemptions, max_idle 0..2, pre-idle 0..2",
      replay=_replay_factory(True, 2), signature=_signature_for(True, 2))
def with_pool_close(max_idle: int, n_idle: int, alive0: bool, alive1: bool, exp0: bool, exp1: bool, ab0: bool, ab1: bool, first: int, p1: int, t1: int, p2: int, t2: int) -> bool:
    """
    pre: 0 <= max_idle <= 2 and 0 <= n_idle <= 2 and n_idle <= max_idle and (exp0 or not exp1)
    pre: 0 <= first <= 3 and 0 <= t1 <= 3 and 0 <= t2 <= 3 and 0 <= p1 < p2 <= _P2
    post: _
    """
    age0, age1, timeout, now = _ages(exp0, exp1)
    s, pool, world = _scenario(False, max_idle, n_idle, alive0, alive1, age0, age1, timeout, now, ab0, ab1, True, first, [(p1, t1), (p2, t2)])
    return _verdict(s, pool, world, max_idle)
