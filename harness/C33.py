"""C33 / C41 (shared kernel) — the threaded socket accept loop, for every schedule.

coop engine over the real source of rpc._transport._serve_socket_threaded *including its
closures* (_handle, _close_listener_if_idle, _arm_timer_locked, _cancel_timer_locked), rewritten
at import time; threading.Thread / Timer / Lock / Semaphore are the cooperative shims, so the
per-connection threads and the idle timer become scheduler threads that the symbolic schedule
interleaves with the accept loop.  Environment: a scripted listening socket (symbolic sequence of
"connection" / "timeout" results, then the listener is closed), a fake transport, and
server.serve = a few harness statements between begin/end marks.

C33 (accept-loop half): the loop leaves through the idle-shutdown branch only when no accepted
connection is unserved or in service.  C41 (connection-limit half): never more than
max_connections connections in service; every accepted connection is served and closed.
"""

from __future__ import annotations

from engine import coop
from engine.api import cond, is_open, pick

from vgi_rpc.rpc import _transport as tr

PROPERTY = "C33"
LEVEL = "model_checking"
ENCODED = [tr._serve_socket_threaded]
BOUNDS = "accept script of <= 3 results over {connection, timeout} then listener closed; max_connections in {None, 1, 2}; idle_timeout set; symbolic start + %d preemption(s) among accept loop / idle timer(s) / connection threads; statement granularity" % pick(1, 2)
OUTSIDE = "launch(), _probe, _spawn_worker and the per-hash FileLock (processes and file locks are not encodable); real sockets; the 10 s join grace; 'same results as when served alone' (absence of shared state across RpcServer.serve calls is not a scheduling question)"
ASSUMPTIONS = [
    "threading.Timer := a thread that may run at any time after start() unless cancelled before it begins (any timing of idle_timeout)",
    "Thread.join(timeout) returns immediately (any timing)",
    "sock.accept := scripted results; server.serve := begin mark, two preemptible statements, end mark",
]

UNIT = coop.Unit(ENCODED)
_SERVE = UNIT.twin(tr._serve_socket_threaded)


class _Conn:
    def __init__(self, n: int) -> None:
        self.n = n

    def settimeout(self, t) -> None:  # type: ignore[no-untyped-def]
        pass

    def fileno(self) -> int:
        return 10 + self.n


class _Sock:
    def __init__(self, world: "_World", script: list[int]) -> None:
        self.world = world
        self.script = script
        self.calls = 0

    def settimeout(self, t) -> None:  # type: ignore[no-untyped-def]
        pass

    def accept(self):  # type: ignore[no-untyped-def]
        i = self.calls
        self.calls += 1
        if i >= len(self.script):
            self.world.listener_closed = True
            raise OSError("listener closed")
        if self.script[i] == 0:
            raise TimeoutError()
        c = _Conn(len(self.world.accepted))
        self.world.accepted.append(c)
        return c, None


class _Transport:
    def __init__(self, world: "_World", conn: _Conn) -> None:
        self.world = world
        self.conn = conn
        self.closed = 0

    def close(self) -> None:
        self.closed += 1
        self.world.closed.append(self.conn.n)


class _World:
    def __init__(self, max_conn) -> None:  # type: ignore[no-untyped-def]
        self.max_conn = max_conn
        self.accepted: list[_Conn] = []
        self.serving: list[int] = []
        self.served: list[int] = []
        self.closed: list[int] = []
        self.bad: list[str] = []
        self.listener_closed = False
        self.returned = False
        self.pending_at_exit: list[int] = []


class _Server:
    def __init__(self, world: _World) -> None:
        self.world = world

    @coop._mark
    def serve(self, transport):  # type: ignore[no-untyped-def]
        w = self.world
        w.serving.append(transport.conn.n)
        if w.max_conn is not None and len(w.serving) > w.max_conn:
            w.bad.append("more-than-max_connections-in-service")
        yield coop.HP
        yield coop.HP
        w.serving.remove(transport.conn.n)
        w.served.append(transport.conn.n)
        return None


@coop._mark
def _main(world, sock, max_conn):  # type: ignore[no-untyped-def]
    yield from coop._cc(_SERVE, _Server(world), sock, max_conn, 5.0, lambda c: _Transport(world, c), "t")
    world.returned = True
    if not world.listener_closed:
        # left through the idle-shutdown branch: nothing it accepted may be unserved or in service at
        # that moment (Thread.join(timeout) returns immediately in the model, so "now" is the moment
        # the loop was left; timed join()s return at once in the real-thread replay too)
        world.pending_at_exit = [c.n for c in world.accepted if c.n not in world.served]
        if world.pending_at_exit:
            world.bad.append("idle-shutdown-with-connection-accepted")
    return None


def _scenario(e0: int, e1: int, e2: int, n_ev: int, mc: int, first: int, pre):  # type: ignore[no-untyped-def]
    s = coop.Scheduler(max_steps=900, untraced=True)
    cz = coop.Scheduler._concretize
    script = [cz(e0, 0, 1), cz(e1, 0, 1), cz(e2, 0, 1)][: cz(n_ev, 0, 3)]
    mcv = [None, 1, 2][cz(mc, 0, 2)]
    world = _World(mcv)
    try:
        s.spawn(_main, world, _Sock(world, script), mcv)
        s.run(first, pre)
        return s, world
    finally:
        s.close()


def _problems(s, world) -> list[str]:  # type: ignore[no-untyped-def]
    bad = list(world.bad)
    if s.deadlocked:
        bad.append("deadlock")
    for t in s.threads:
        if t.exc is not None:
            bad.append("exception:" + type(t.exc).__name__)
    n = len(world.accepted)
    if sorted(world.served) != list(range(n)):
        bad.append("accepted-connection-never-served")
    if sorted(world.closed) != list(range(n)):
        bad.append("transport-not-closed-exactly-once")
    return bad


def _verdict(s, world, prop: str) -> bool:  # type: ignore[no-untyped-def]
    for b in _problems(s, world):
        if not is_open(prop + ":" + b):
            return False
    return True


def _sig(prop: str):  # type: ignore[no-untyped-def]
    def sig(a: dict, conc) -> str:  # type: ignore[no-untyped-def]
        pre = [(a["p1"], a["t1"])] + ([(a["p2"], a["t2"])] if "p2" in a else [])
        s, world = _scenario(a["e0"], a["e1"], a["e2"], a["n_ev"], a["mc"], 0, pre)
        bad = _problems(s, world)
        return prop + ":" + (bad[0] if bad else "none")

    return sig


class _RealServer:
    def __init__(self, world: _World) -> None:
        self.world = world

    def serve(self, transport) -> None:  # type: ignore[no-untyped-def]
        w = self.world
        w.serving.append(transport.conn.n)
        if w.max_conn is not None and len(w.serving) > w.max_conn:
            w.bad.append("more-than-max_connections-in-service")
        coop.harness_point()
        coop.harness_point()
        w.serving.remove(transport.conn.n)
        w.served.append(transport.conn.n)


def _real_replay(script: list[int], prop: str):  # type: ignore[no-untyped-def]
    """Force the counterexample schedule onto genuine threads: the unmodified
    _serve_socket_threaded with real threading.Thread / Timer / Lock / Semaphore (timers fire when
    the recorded schedule says so instead of after their interval)."""

    def replay(a: dict) -> str | None:
        e = (script + [0, 0, 0])[:3]
        pre = [(a["p1"], a["t1"])] + ([(a["p2"], a["t2"])] if "p2" in a else [])
        s, world = _scenario(e[0], e[1], e[2], len(script), a["mc"], 0, pre)
        if not [b for b in _problems(s, world) if not is_open(prop + ":" + b)]:
            return None
        mcv = world.max_conn
        rworld = _World(mcv)

        def main() -> None:
            tr._serve_socket_threaded(_RealServer(rworld), _Sock(rworld, list(script)), mcv, 5.0, lambda c: _Transport(rworld, c), "t")  # type: ignore[arg-type]
            rworld.returned = True
            if not rworld.listener_closed:
                # timed join()s return at once in the replay (as in the model), so "now" is the
                # moment the accept loop was left
                rworld.pending_at_exit = [c.n for c in rworld.accepted if c.n not in rworld.served]
                if rworld.pending_at_exit:
                    rworld.bad.append("idle-shutdown-with-connection-accepted")

        res = coop.replay_real(UNIT, [main], s.trace, s.seg_ends, dynamic=True, timeout_s=45.0)  # a timed acquire()/join() in the code really waits
        if res["diverged"] or not res["completed"] or any(res["exceptions"]):
            return None

        class _S:
            deadlocked = False
            threads: list = []

        bad = [b for b in _problems(_S, rworld) if not is_open(prop + ":" + b)]
        if bad:
            return f"real threads ({res['segments']} segments, {res['spawned']} threads started by the code): {bad}; accepted={len(rworld.accepted)} served={rworld.served} listener_closed={rworld.listener_closed}"
        return None

    return replay


def _cell(script: list[int], mc: int, pre, prop: str) -> bool:  # type: ignore[no-untyped-def]
    e = (script + [0, 0, 0])[:3]
    s, world = _scenario(e[0], e[1], e[2], len(script), mc, 0, pre)
    return _verdict(s, world, prop)


def _cell_sig(script: list[int], prop: str):  # type: ignore[no-untyped-def]
    def sig(a: dict, conc) -> str:  # type: ignore[no-untyped-def]
        e = (script + [0, 0, 0])[:3]
        pre = [(a["p1"], a["t1"])] + ([(a["p2"], a["t2"])] if "p2" in a else [])
        s, world = _scenario(e[0], e[1], e[2], len(script), a["mc"], 0, pre)
        bad = _problems(s, world)
        return prop + ":" + (bad[0] if bad else "none")

    return sig


_CB = "accept results %s then listener closed; max_connections None/1/2; idle_timeout set; %d preemption(s) at any statement to any thread (accept loop, timers, connection threads)"


@cond(q=220, t=400, engine="coop", encoded=ENCODED, stubs=ASSUMPTIONS, bound=_CB % ("connection timeout", 1), signature=_cell_sig([1, 0], "C33"), replay=_real_replay([1, 0], "C33"))
def accept_ct_k1(mc: int, p1: int, t1: int) -> bool:
    """
    pre: 0 <= mc <= 2 and 0 <= p1 <= 110 and 0 <= t1 <= 4
    post: _
    """
    return _cell([1, 0], mc, [(p1, t1)], "C33")


@cond(q=220, t=400, engine="coop", encoded=ENCODED, stubs=ASSUMPTIONS, bound=_CB % ("connection connection timeout", 1), signature=_cell_sig([1, 1, 0], "C33"), replay=_real_replay([1, 1, 0], "C33"))
def accept_cct_k1(mc: int, p1: int, t1: int) -> bool:
    """
    pre: 0 <= mc <= 2 and 0 <= p1 <= 110 and 0 <= t1 <= 4
    post: _
    """
    return _cell([1, 1, 0], mc, [(p1, t1)], "C33")


@cond(q=220, t=400, engine="coop", encoded=ENCODED, stubs=ASSUMPTIONS, bound=_CB % ("timeout connection timeout", 1), signature=_cell_sig([0, 1, 0], "C33"), replay=_real_replay([0, 1, 0], "C33"))
def accept_tct_k1(mc: int, p1: int, t1: int) -> bool:
    """
    pre: 0 <= mc <= 2 and 0 <= p1 <= 110 and 0 <= t1 <= 4
    post: _
    """
    return _cell([0, 1, 0], mc, [(p1, t1)], "C33")


@cond(q=220, t=400, engine="coop", encoded=ENCODED, stubs=ASSUMPTIONS, bound=_CB % ("connection timeout connection", 1), signature=_cell_sig([1, 0, 1], "C33"), replay=_real_replay([1, 0, 1], "C33"))
def accept_ctc_k1(mc: int, p1: int, t1: int) -> bool:
    """
    pre: 0 <= mc <= 2 and 0 <= p1 <= 110 and 0 <= t1 <= 4
    post: _
    """
    return _cell([1, 0, 1], mc, [(p1, t1)], "C33")


@cond(q=220, t=400, tiers=("thorough",), engine="coop", encoded=ENCODED, stubs=ASSUMPTIONS, bound=_CB % ("connection", 1), signature=_cell_sig([1], "C33"), replay=_real_replay([1], "C33"))
def accept_c_k1(mc: int, p1: int, t1: int) -> bool:
    """
    pre: 0 <= mc <= 2 and 0 <= p1 <= 110 and 0 <= t1 <= 4
    post: _
    """
    return _cell([1], mc, [(p1, t1)], "C33")


@cond(q=220, t=400, tiers=("thorough",), engine="coop", encoded=ENCODED, stubs=ASSUMPTIONS, bound=_CB % ("timeout", 1), signature=_cell_sig([0], "C33"), replay=_real_replay([0], "C33"))
def accept_t_k1(mc: int, p1: int, t1: int) -> bool:
    """
    pre: 0 <= mc <= 2 and 0 <= p1 <= 110 and 0 <= t1 <= 4
    post: _
    """
    return _cell([0], mc, [(p1, t1)], "C33")


@cond(q=220, t=400, tiers=("thorough",), engine="coop", encoded=ENCODED, stubs=ASSUMPTIONS, bound=_CB % ("connection connection", 1), signature=_cell_sig([1, 1], "C33"), replay=_real_replay([1, 1], "C33"))
def accept_cc_k1(mc: int, p1: int, t1: int) -> bool:
    """
    pre: 0 <= mc <= 2 and 0 <= p1 <= 110 and 0 <= t1 <= 4
    post: _
    """
    return _cell([1, 1], mc, [(p1, t1)], "C33")


@cond(q=220, t=400, tiers=("thorough",), engine="coop", encoded=ENCODED, stubs=ASSUMPTIONS, bound=_CB % ("timeout timeout", 1), signature=_cell_sig([0, 0], "C33"), replay=_real_replay([0, 0], "C33"))
def accept_tt_k1(mc: int, p1: int, t1: int) -> bool:
    """
    pre: 0 <= mc <= 2 and 0 <= p1 <= 110 and 0 <= t1 <= 4
    post: _
    """
    return _cell([0, 0], mc, [(p1, t1)], "C33")


@cond(q=220, t=400, tiers=("thorough",), engine="coop", encoded=ENCODED, stubs=ASSUMPTIONS, bound=_CB % ("connection connection connection", 1), signature=_cell_sig([1, 1, 1], "C33"), replay=_real_replay([1, 1, 1], "C33"))
def accept_ccc_k1(mc: int, p1: int, t1: int) -> bool:
    """
    pre: 0 <= mc <= 2 and 0 <= p1 <= 110 and 0 <= t1 <= 4
    post: _
    """
    return _cell([1, 1, 1], mc, [(p1, t1)], "C33")


@cond(q=220, t=400, tiers=("thorough",), engine="coop", encoded=ENCODED, stubs=ASSUMPTIONS, bound=_CB % ("timeout timeout connection", 1), signature=_cell_sig([0, 0, 1], "C33"), replay=_real_replay([0, 0, 1], "C33"))
def accept_ttc_k1(mc: int, p1: int, t1: int) -> bool:
    """
    pre: 0 <= mc <= 2 and 0 <= p1 <= 110 and 0 <= t1 <= 4
    post: _
    """
    return _cell([0, 0, 1], mc, [(p1, t1)], "C33")


@cond(q=220, t=400, tiers=("thorough",), engine="coop", encoded=ENCODED, stubs=ASSUMPTIONS, bound=_CB % ("timeout connection connection", 1), signature=_cell_sig([0, 1, 1], "C33"), replay=_real_replay([0, 1, 1], "C33"))
def accept_tcc_k1(mc: int, p1: int, t1: int) -> bool:
    """
    pre: 0 <= mc <= 2 and 0 <= p1 <= 110 and 0 <= t1 <= 4
    post: _
    """
    return _cell([0, 1, 1], mc, [(p1, t1)], "C33")


@cond(q=220, t=400, tiers=("thorough",), engine="coop", encoded=ENCODED, stubs=ASSUMPTIONS, bound=_CB % ("connection timeout timeout", 1), signature=_cell_sig([1, 0, 0], "C33"), replay=_real_replay([1, 0, 0], "C33"))
def accept_ctt_k1(mc: int, p1: int, t1: int) -> bool:
    """
    pre: 0 <= mc <= 2 and 0 <= p1 <= 110 and 0 <= t1 <= 4
    post: _
    """
    return _cell([1, 0, 0], mc, [(p1, t1)], "C33")


@cond(q=150, t=3000, tiers=("thorough",), engine="coop", encoded=ENCODED, stubs=ASSUMPTIONS, bound=_CB % ("connection timeout", 2), signature=_cell_sig([1, 0], "C33"), replay=_real_replay([1, 0], "C33"))
def accept_ct_k2(mc: int, p1: int, t1: int, p2: int, t2: int) -> bool:
    """
    pre: 0 <= mc <= 2 and 0 <= p1 < p2 <= 130 and 0 <= t1 <= 4 and 0 <= t2 <= 4
    post: _
    """
    return _cell([1, 0], mc, [(p1, t1), (p2, t2)], "C33")


@cond(q=150, t=3000, tiers=("thorough",), engine="coop", encoded=ENCODED, stubs=ASSUMPTIONS, bound=_CB % ("connection connection timeout", 2), signature=_cell_sig([1, 1, 0], "C33"), replay=_real_replay([1, 1, 0], "C33"))
def accept_cct_k2(mc: int, p1: int, t1: int, p2: int, t2: int) -> bool:
    """
    pre: 0 <= mc <= 2 and 0 <= p1 < p2 <= 130 and 0 <= t1 <= 4 and 0 <= t2 <= 4
    post: _
    """
    return _cell([1, 1, 0], mc, [(p1, t1), (p2, t2)], "C33")


# =================================================================================================
# Launcher half: launch() and gc_state_dir() of vgi_rpc/launcher.py under every schedule.
# The real source of both functions is rewritten (coop); the environment is a small world model:
# FileLock := one mutex per lock path (Timeout when acquired with timeout 0 while held);
# _probe / _spawn_worker / socket and meta files := an in-memory directory with live workers.
# Added after a seeded change to gc_state_dir (probe before taking the entry's lock, no re-probe)
# showed that the "launch half" of C33 had no check at all.
# =================================================================================================

from vgi_rpc import launcher as ln  # noqa: E402


class _LWorld:
    def __init__(self) -> None:
        self.fs: dict[str, object] = {}  # path -> "meta" | "stale-socket" | worker id (int)
        self.workers: list[str] = []  # worker id -> socket path it was spawned on
        self.locks: dict[str, coop.CoopLock] = {}
        self.bad: list[str] = []
        self.returned: list[str] = []

    def reachable(self, path: str) -> bool:
        return isinstance(self.fs.get(path), int)


_LW: list[_LWorld] = []


class _FPath:
    """Just enough of pathlib.Path for launch()/gc_state_dir(), backed by the world's directory."""

    def __init__(self, s: str) -> None:
        self.s = s

    def __truediv__(self, name: str) -> "_FPath":
        return _FPath(self.s + "/" + name)

    def __str__(self) -> str:
        return self.s

    def __fspath__(self) -> str:
        return self.s

    def __lt__(self, other: "_FPath") -> bool:
        return self.s < other.s

    @property
    def stem(self) -> str:
        return self.s.rsplit("/", 1)[-1].rsplit(".", 1)[0]

    def mkdir(self, parents: bool = False, exist_ok: bool = False) -> None:
        return None

    def glob(self, pattern: str):  # type: ignore[no-untyped-def]
        suffix = pattern.lstrip("*")
        return [_FPath(p) for p in list(_LW[-1].fs) if p.startswith(self.s + "/") and p.endswith(suffix)]


class _FLock:
    def __init__(self, path: str, timeout: float = -1) -> None:
        self.path, self.timeout = path, timeout
        w = _LW[-1]
        self.lock = w.locks.setdefault(path, coop.CoopLock())

    def co_acquire(self):  # generator (cooperative)
        if self.timeout == 0.0:
            if self.lock.owner is not None:
                raise ln.Timeout(self.path)
            self.lock.owner = coop.sched().current
            return None
        yield from self.lock.co_acquire()
        return None

    def acquire(self) -> None:
        raise coop.HarnessModelError("FileLock.acquire reached outside the rewritten code")

    def release(self) -> None:
        self.lock.release()


coop._PRIMITIVE_METHODS[(_FLock, "acquire")] = "co_acquire"


def _l_probe(path) -> bool:  # type: ignore[no-untyped-def]
    return _LW[-1].reachable(str(path))


def _l_spawn(argv, sock_path, idle_timeout, worker_stderr, startup_timeout):  # type: ignore[no-untyped-def]
    w = _LW[-1]
    # "at most one worker per command hash while one is alive": workers never exit in this model, so a
    # second spawn on the same path is a second live worker for the same hash
    if sock_path in w.workers:
        w.bad.append("second-worker-spawned-while-first-alive")
    w.workers.append(sock_path)
    w.fs[sock_path] = len(w.workers) - 1

    class _P:
        pid = 1000 + len(w.workers)

    return _P()


def _l_unlink_stale(path) -> None:  # type: ignore[no-untyped-def]
    _LW[-1].fs.pop(str(path), None)


def _l_write_meta(meta_path, argv, cwd, sock_path) -> None:  # type: ignore[no-untyped-def]
    _LW[-1].fs[str(meta_path)] = "meta"


class _OsShim:
    @staticmethod
    def unlink(p) -> None:  # type: ignore[no-untyped-def]
        w = _LW[-1]
        if str(p) not in w.fs:
            raise FileNotFoundError(str(p))
        del w.fs[str(p)]

    @staticmethod
    def getcwd() -> str:
        return "/cwd"


_L_OVR = {
    "FileLock": _FLock,
    "_probe": _l_probe,
    "_spawn_worker": _l_spawn,
    "_unlink_stale_socket": _l_unlink_stale,
    "_require_socket_or_absent": lambda p: None,
    "_write_meta": _l_write_meta,
    "compute_hash": lambda argv, cwd=None: str(argv[0]),
    "Path": _FPath,
    "os": _OsShim,
    "signal": object(),
}
L_UNIT = coop.Unit([ln.launch, ln.gc_state_dir], globals_overrides=_L_OVR)
_LAUNCH = L_UNIT.twin(ln.launch)


@coop._mark
def _t_launch(world, hash_id):  # type: ignore[no-untyped-def]
    cfg = ln.LaunchConfig(worker_argv=[hash_id], state_dir="/state")
    path = yield from coop._cc(_LAUNCH, cfg)
    world.returned.append(path)
    if not world.reachable(path):
        world.bad.append("launch-returned-unreachable-path")
    return path


def _l_scenario(hashes: list[str], stale_x: int, first: int, pre):  # type: ignore[no-untyped-def]
    s = coop.Scheduler(max_steps=900, untraced=True)
    world = _LWorld()
    _LW.append(world)
    try:
        sx = coop.Scheduler._concretize(stale_x, 0, 2)
        if sx >= 1:  # hash X has a left-over entry: meta (+ dead socket file)
            world.fs["/state/X.meta"] = "meta"
        if sx == 2:
            world.fs["/state/X.sock"] = "stale-socket"
        for h in hashes:
            s.spawn(_t_launch, world, h)
        s.run(first, pre)
        return s, world
    finally:
        s.close()
        _LW.pop()


def _l_problems(s, world) -> list[str]:  # type: ignore[no-untyped-def]
    bad = list(world.bad)
    if s.deadlocked:
        bad.append("deadlock")
    for t in s.threads:
        if t.exc is not None:
            bad.append("exception:" + type(t.exc).__name__)
    # every path a launch returned still leads to a live worker when all launches are done
    for p in world.returned:
        if not world.reachable(p):
            bad.append("returned-worker-made-unreachable")
    return sorted(set(bad))


def _l_sig(hashes):  # type: ignore[no-untyped-def]
    def sig(a: dict, conc) -> str:  # type: ignore[no-untyped-def]
        f = a["first"]
        pre = [(a["p1"], a.get("t1", 1 - f))] + ([(a["p2"], a.get("t2", f))] if "p2" in a else [])
        s, w = _l_scenario(hashes, a["stale_x"], f, pre)
        bad = _l_problems(s, w)
        return "C33:launcher:" + (bad[0] if bad else "none")

    return sig


_LB = "launch() calls for command hashes %s with the opportunistic gc_state_dir pass of each; hash X initially absent / stale meta / stale meta+socket; symbolic start + %d preemption(s) at any statement"


@cond(q=150, t=400, engine="coop", encoded=[ln.launch, ln.gc_state_dir], stubs=["FileLock := one mutex per lock path", "_probe/_spawn_worker/state dir := in-memory world with live workers that never exit"],
      bound=_LB % ("X, X", 1), signature=_l_sig(['X', 'X']))
def launchers_xx_k1(stale_x: int, first: int, p1: int) -> bool:
    """
    pre: 0 <= stale_x <= 2 and 0 <= first <= 1 and 0 <= p1 <= 90
    post: _
    """
    s, w = _l_scenario(['X', 'X'], stale_x, first, [(p1, 1 - first)])
    return not [b for b in _l_problems(s, w) if not is_open("C33:launcher:" + b)]


@cond(q=150, t=400, engine="coop", encoded=[ln.launch, ln.gc_state_dir], stubs=["FileLock := one mutex per lock path", "_probe/_spawn_worker/state dir := in-memory world with live workers that never exit"],
      bound=_LB % ("X, Y", 1), signature=_l_sig(['X', 'Y']))
def launchers_xy_k1(stale_x: int, first: int, p1: int) -> bool:
    """
    pre: 0 <= stale_x <= 2 and 0 <= first <= 1 and 0 <= p1 <= 90
    post: _
    """
    s, w = _l_scenario(['X', 'Y'], stale_x, first, [(p1, 1 - first)])
    return not [b for b in _l_problems(s, w) if not is_open("C33:launcher:" + b)]


@cond(q=150, t=400, engine="coop", encoded=[ln.launch, ln.gc_state_dir], stubs=["FileLock := one mutex per lock path", "_probe/_spawn_worker/state dir := in-memory world with live workers that never exit"],
      bound=_LB % ("Y, X", 1), signature=_l_sig(['Y', 'X']))
def launchers_yx_stale_k1(stale_x: int, first: int, p1: int) -> bool:
    """
    pre: 0 <= stale_x <= 2 and 0 <= first <= 1 and 0 <= p1 <= 90
    post: _
    """
    s, w = _l_scenario(['Y', 'X'], stale_x, first, [(p1, 1 - first)])
    return not [b for b in _l_problems(s, w) if not is_open("C33:launcher:" + b)]


@cond(q=150, t=1500, tiers=("thorough",), engine="coop", encoded=[ln.launch, ln.gc_state_dir], stubs=["FileLock := one mutex per lock path", "_probe/_spawn_worker/state dir := in-memory world with live workers that never exit"],
      bound=_LB % ("X, X, Y", 1), signature=_l_sig(["X", "X", "Y"]))
def launchers_xxy_k1(stale_x: int, first: int, p1: int, t1: int) -> bool:
    """
    pre: 0 <= stale_x <= 2 and 0 <= first <= 2 and 0 <= t1 <= 2 and 0 <= p1 <= 110
    post: _
    """
    s, w = _l_scenario(["X", "X", "Y"], stale_x, first, [(p1, t1)])
    return not [b for b in _l_problems(s, w) if not is_open("C33:launcher:" + b)]


@cond(q=150, t=3000, tiers=("thorough",), engine="coop", encoded=[ln.launch, ln.gc_state_dir], stubs=["FileLock := one mutex per lock path", "_probe/_spawn_worker/state dir := in-memory world with live workers that never exit"],
      bound=_LB % ("X, Y", 2), signature=_l_sig(["X", "Y"]))
def launchers_xy_k2(stale_x: int, first: int, p1: int, p2: int) -> bool:
    """
    pre: 0 <= stale_x <= 2 and 0 <= first <= 1 and 0 <= p1 < p2 <= 90
    post: _
    """
    s, w = _l_scenario(["X", "Y"], stale_x, first, [(p1, 1 - first), (p2, first)])
    return not [b for b in _l_problems(s, w) if not is_open("C33:launcher:" + b)]
