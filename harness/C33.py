"""C33 / C41 (shared kernel) — the threaded socket accept loop, for every schedule.

coop engine over the real source of rpc._transport._serve_socket_threaded *including its
closures* (_handle, _close_listener_if_idle, _arm_timer_locked, _cancel_timer_locked), rewritten
at import time; threading.Thread / Timer / Lock / Semaphore are the cooperative shims, so the
per-connection threads and the idle timer become scheduler threads that the symbolic schedule
interleaves with the accept loop.  Environment: a scripted listening socket (symbolic sequence of
"connection" / "timeout" results, then the listener is closed), a fake transport, and
server.serve = a few harness statements between begin/end marks.

C33 (accept-loop half): the loop leaves through the idle-shutdown branch only when no accepted
connection is unserved or in service.  C41 (connection-limit half): never more than
max_connections connections in service; every accepted connection is served and closed.
"""

from __future__ import annotations

from engine import coop
from engine.api import HarnessModelError, cond, harness_side, is_open, pick

from vgi_rpc.rpc import _transport as tr

PROPERTY = "C33"
LEVEL = "model_checking"
ENCODED = [tr._serve_socket_threaded]
BOUNDS = "accept script of <= 3 results over {connection, timeout} then listener closed; max_connections in {None, 1, 2}; idle_timeout set; symbolic start + %d preemption(s) among accept loop / idle timer(s) / connection threads; statement granularity" % pick(1, 2)
OUTSIDE = "launchers as separate OS processes (the model and the replay run them as threads of one process; filelock's flock is per open file description, so the exclusion is the same); worker exit and restart (workers never exit in the model); the 10 s join grace; preemption targets beyond the first 5 threads of the accept-loop scenario (idle timers created late); 'same results as when served alone' (absence of shared state across RpcServer.serve calls is not a scheduling question)"
ASSUMPTIONS = [
    "threading.Timer := a thread that may run at any time after start() unless cancelled before it begins (any timing of idle_timeout)",
    "Thread.join(timeout) returns immediately (any timing)",
    "sock.accept := scripted results; server.serve := begin mark, two preemptible statements, end mark",
    "launcher half, model: FileLock := one mutex per lock path; _probe/_spawn_worker/_write_meta/_unlink_stale_socket/Path/os := an in-memory state directory whose workers never exit; any use of these beyond the model is a harness-model error (inconclusive)",
    "launcher half, replay: a counterexample is reported only if the same schedule, forced onto genuine threads running the unmodified launch()/gc_state_dir() with real pathlib, real filelock and real _probe on a scratch directory (only _spawn_worker replaced by an in-process listener that never exits), shows the violation",
    "monitors are filtered by property: C33 judges idle shutdown / never-served connections / launcher outcomes, C41 the max_connections limit",
]

UNIT = coop.Unit(ENCODED)
_SERVE = UNIT.twin(tr._serve_socket_threaded)


class _Conn:
    def __init__(self, n: int) -> None:
        self.n = n
        self.closed = 0

    def settimeout(self, t) -> None:  # type: ignore[no-untyped-def]
        pass

    def fileno(self) -> int:
        return 10 + self.n

    def recv(self, n: int, flags: int = 0) -> bytes:
        # only peeking is modelled: "has the client hung up?" (b"" = yes; otherwise nothing to read yet)
        if _HUNG[-1][self.n % 3]:
            return b""
        raise BlockingIOError()

    def close(self) -> None:
        self.closed += 1

    def __getattr__(self, name: str):  # type: ignore[no-untyped-def]
        raise HarnessModelError(f"fake connection socket has no .{name}: the accept loop uses more of the socket than the model covers")


_HUNG: list = [(False, False, False)]  # per scenario: has client k closed its end while waiting? (symbolic in the C41 items)


class _Sock:
    def __init__(self, world: "_World", script: list[int]) -> None:
        self.world = world
        self.script = script
        self.calls = 0

    def settimeout(self, t) -> None:  # type: ignore[no-untyped-def]
        pass

    def accept(self):  # type: ignore[no-untyped-def]
        i = self.calls
        self.calls += 1
        if i >= len(self.script):
            self.world.listener_closed = True
            raise OSError("listener closed")
        if self.script[i] == 0:
            raise TimeoutError()
        c = _Conn(len(self.world.accepted))
        self.world.accepted.append(c)
        return c, None


class _Transport:
    def __init__(self, world: "_World", conn: _Conn) -> None:
        self.world = world
        self.conn = conn
        self.closed = 0

    def close(self) -> None:
        self.closed += 1
        self.world.closed.append(self.conn.n)

    def __getattr__(self, name: str):  # type: ignore[no-untyped-def]
        raise HarnessModelError(f"fake transport has no .{name}")


class _World:
    def __init__(self, max_conn) -> None:  # type: ignore[no-untyped-def]
        self.max_conn = max_conn
        self.accepted: list[_Conn] = []
        self.serving: list[int] = []
        self.served: list[int] = []
        self.closed: list[int] = []
        self.bad: list[str] = []
        self.listener_closed = False
        self.returned = False
        self.pending_at_exit: list[int] = []


class _Server:
    def __init__(self, world: _World) -> None:
        self.world = world

    @coop._mark
    def serve(self, transport):  # type: ignore[no-untyped-def]
        w = self.world
        w.serving.append(transport.conn.n)
        if w.max_conn is not None and len(w.serving) > w.max_conn:
            w.bad.append("more-than-max_connections-in-service")
        yield coop.HP
        yield coop.HP
        w.serving.remove(transport.conn.n)
        w.served.append(transport.conn.n)
        return None


@coop._mark
def _main(world, sock, max_conn):  # type: ignore[no-untyped-def]
    yield from coop._cc(_SERVE, _Server(world), sock, max_conn, 5.0, lambda c: _Transport(world, c), "t")
    world.returned = True
    if not world.listener_closed:
        # left through the idle-shutdown branch: nothing it accepted may be unserved or in service at
        # that moment (Thread.join(timeout) returns immediately in the model, so "now" is the moment
        # the loop was left; timed join()s return at once in the real-thread replay too)
        world.pending_at_exit = [c.n for c in world.accepted if c.n not in world.served]
        if world.pending_at_exit:
            world.bad.append("idle-shutdown-with-connection-accepted")
    return None


def _scenario(e0: int, e1: int, e2: int, n_ev: int, mc: int, first: int, pre, hung=(False, False, False)):  # type: ignore[no-untyped-def]
    s = coop.Scheduler(max_steps=900, untraced=True)
    cz = coop.Scheduler._concretize
    _HUNG[-1] = tuple(bool(cz(int(h), 0, 1)) for h in hung)
    script = [cz(e0, 0, 1), cz(e1, 0, 1), cz(e2, 0, 1)][: cz(n_ev, 0, 3)]
    mcv = [None, 1, 2][cz(mc, 0, 2)]
    world = _World(mcv)
    try:
        s.spawn(_main, world, _Sock(world, script), mcv)
        s.run(first, pre)
        return s, world
    finally:
        s.close()


_MONITORS = {
    # what each property states, and nothing else
    "C33": ("idle-shutdown-with-connection-accepted", "accepted-connection-never-served", "deadlock", "exception:"),
    "C41": ("more-than-max_connections-in-service", "accepted-connection-never-served", "deadlock", "exception:"),
}


def _problems(s, world, prop: str = "C33") -> list[str]:  # type: ignore[no-untyped-def]
    bad = list(world.bad)
    if s.deadlocked:
        bad.append("deadlock")
    for t in s.threads:
        if t.exc is not None:
            why = harness_side(t.exc)
            if why:
                raise HarnessModelError("scenario thread: " + why)
            bad.append("exception:" + type(t.exc).__name__)
    n = len(world.accepted)
    if sorted(set(world.served)) != list(range(n)):
        bad.append("accepted-connection-never-served")
    return [b for b in bad if b.startswith(_MONITORS[prop])]


def _verdict(s, world, prop: str) -> bool:  # type: ignore[no-untyped-def]
    for b in _problems(s, world, prop):
        if not is_open(prop + ":" + b):
            return False
    return True


def _sig(prop: str):  # type: ignore[no-untyped-def]
    def sig(a: dict, conc) -> str:  # type: ignore[no-untyped-def]
        pre = [(a["p1"], a["t1"])] + ([(a["p2"], a["t2"])] if "p2" in a else [])
        s, world = _scenario(a["e0"], a["e1"], a["e2"], a["n_ev"], a["mc"], 0, pre)
        bad = _problems(s, world, prop)
        return prop + ":" + (bad[0] if bad else "none")

    return sig


class _RealServer:
    def __init__(self, world: _World) -> None:
        self.world = world

    def serve(self, transport) -> None:  # type: ignore[no-untyped-def]
        w = self.world
        w.serving.append(transport.conn.n)
        if w.max_conn is not None and len(w.serving) > w.max_conn:
            w.bad.append("more-than-max_connections-in-service")
        coop.harness_point()
        coop.harness_point()
        w.serving.remove(transport.conn.n)
        w.served.append(transport.conn.n)


def _real_replay(script: list[int], prop: str):  # type: ignore[no-untyped-def]
    """Force the counterexample schedule onto genuine threads: the unmodified
    _serve_socket_threaded with real threading.Thread / Timer / Lock / Semaphore (timers fire when
    the recorded schedule says so instead of after their interval)."""

    def replay(a: dict) -> str | None:
        e = (script + [0, 0, 0])[:3]
        pre = [(a["p1"], a["t1"])] + ([(a["p2"], a["t2"])] if "p2" in a else [])
        s, world = _scenario(e[0], e[1], e[2], len(script), a["mc"], 0, pre, _hung_of(a))
        if not [b for b in _problems(s, world, prop) if not is_open(prop + ":" + b)]:
            return None
        mcv = world.max_conn
        rworld = _World(mcv)

        def main() -> None:
            tr._serve_socket_threaded(_RealServer(rworld), _Sock(rworld, list(script)), mcv, 5.0, lambda c: _Transport(rworld, c), "t")  # type: ignore[arg-type]
            rworld.returned = True
            if not rworld.listener_closed:
                # timed join()s return at once in the replay (as in the model), so "now" is the
                # moment the accept loop was left
                rworld.pending_at_exit = [c.n for c in rworld.accepted if c.n not in rworld.served]
                if rworld.pending_at_exit:
                    rworld.bad.append("idle-shutdown-with-connection-accepted")

        res = coop.replay_real(UNIT, [main], s.trace, s.seg_ends, dynamic=True, timeout_s=45.0)  # a timed acquire()/join() in the code really waits
        if res["diverged"] or not res["completed"] or any(res["exceptions"]) or res.get("harness_side"):
            return None

        class _S:
            deadlocked = False
            threads: list = []

        bad = [b for b in _problems(_S, rworld, prop) if not is_open(prop + ":" + b)]
        if bad:
            return f"real threads ({res['segments']} segments, {res['spawned']} threads started by the code): {bad}; accepted={len(rworld.accepted)} served={rworld.served} listener_closed={rworld.listener_closed}"
        return None

    return replay


def _cell(script: list[int], mc: int, pre, prop: str, hung=(False, False, False)) -> bool:  # type: ignore[no-untyped-def]
    e = (script + [0, 0, 0])[:3]
    s, world = _scenario(e[0], e[1], e[2], len(script), mc, 0, pre, hung)
    return _verdict(s, world, prop)


def _hung_of(a: dict) -> tuple:
    return (bool(a.get("h0", False)), bool(a.get("h1", False)), bool(a.get("h2", False)))


def _cell_sig(script: list[int], prop: str):  # type: ignore[no-untyped-def]
    def sig(a: dict, conc) -> str:  # type: ignore[no-untyped-def]
        e = (script + [0, 0, 0])[:3]
        pre = [(a["p1"], a["t1"])] + ([(a["p2"], a["t2"])] if "p2" in a else [])
        s, world = _scenario(e[0], e[1], e[2], len(script), a["mc"], 0, pre, _hung_of(a))
        bad = _problems(s, world, prop)
        return prop + ":" + (bad[0] if bad else "none")

    return sig


_CB = "accept results %s then listener closed; max_connections None/1/2; idle_timeout set; %d preemption(s) at any statement to any thread (accept loop, timers, connection threads)"


@cond(q=220, t=400, engine="coop", encoded=ENCODED, stubs=ASSUMPTIONS, bound=_CB % ("connection timeout", 1), signature=_cell_sig([1, 0], "C33"), replay=_real_replay([1, 0], "C33"))
def accept_ct_k1(mc: int, p1: int, t1: int) -> bool:
    """
    pre: 0 <= mc <= 2 and 0 <= p1 <= 110 and 0 <= t1 <= 4
    post: _
    """
    return _cell([1, 0], mc, [(p1, t1)], "C33")


@cond(q=220, t=400, engine="coop", encoded=ENCODED, stubs=ASSUMPTIONS, bound=_CB % ("connection connection timeout", 1), signature=_cell_sig([1, 1, 0], "C33"), replay=_real_replay([1, 1, 0], "C33"))
def accept_cct_k1(mc: int, p1: int, t1: int) -> bool:
    """
    pre: 0 <= mc <= 2 and 0 <= p1 <= 110 and 0 <= t1 <= 4
    post: _
    """
    return _cell([1, 1, 0], mc, [(p1, t1)], "C33")


@cond(q=220, t=400, engine="coop", encoded=ENCODED, stubs=ASSUMPTIONS, bound=_CB % ("timeout connection timeout", 1), signature=_cell_sig([0, 1, 0], "C33"), replay=_real_replay([0, 1, 0], "C33"))
def accept_tct_k1(mc: int, p1: int, t1: int) -> bool:
    """
    pre: 0 <= mc <= 2 and 0 <= p1 <= 110 and 0 <= t1 <= 4
    post: _
    """
    return _cell([0, 1, 0], mc, [(p1, t1)], "C33")


@cond(q=220, t=400, engine="coop", encoded=ENCODED, stubs=ASSUMPTIONS, bound=_CB % ("connection timeout connection", 1), signature=_cell_sig([1, 0, 1], "C33"), replay=_real_replay([1, 0, 1], "C33"))
def accept_ctc_k1(mc: int, p1: int, t1: int) -> bool:
    """
    pre: 0 <= mc <= 2 and 0 <= p1 <= 110 and 0 <= t1 <= 4
    post: _
    """
    return _cell([1, 0, 1], mc, [(p1, t1)], "C33")


@cond(q=220, t=400, tiers=("thorough",), engine="coop", encoded=ENCODED, stubs=ASSUMPTIONS, bound=_CB % ("connection", 1), signature=_cell_sig([1], "C33"), replay=_real_replay([1], "C33"))
def accept_c_k1(mc: int, p1: int, t1: int) -> bool:
    """
    pre: 0 <= mc <= 2 and 0 <= p1 <= 110 and 0 <= t1 <= 4
    post: _
    """
    return _cell([1], mc, [(p1, t1)], "C33")


@cond(q=220, t=400, tiers=("thorough",), engine="coop", encoded=ENCODED, stubs=ASSUMPTIONS, bound=_CB % ("timeout", 1), signature=_cell_sig([0], "C33"), replay=_real_replay([0], "C33"))
def accept_t_k1(mc: int, p1: int, t1: int) -> bool:
    """
    pre: 0 <= mc <= 2 and 0 <= p1 <= 110 and 0 <= t1 <= 4
    post: _
    """
    return _cell([0], mc, [(p1, t1)], "C33")


@cond(q=220, t=400, tiers=("thorough",), engine="coop", encoded=ENCODED, stubs=ASSUMPTIONS, bound=_CB % ("connection connection", 1), signature=_cell_sig([1, 1], "C33"), replay=_real_replay([1, 1], "C33"))
def accept_cc_k1(mc: int, p1: int, t1: int) -> bool:
    """
    pre: 0 <= mc <= 2 and 0 <= p1 <= 110 and 0 <= t1 <= 4
    post: _
    """
    return _cell([1, 1], mc, [(p1, t1)], "C33")


@cond(q=220, t=400, tiers=("thorough",), engine="coop", encoded=ENCODED, stubs=ASSUMPTIONS, bound=_CB % ("timeout timeout", 1), signature=_cell_sig([0, 0], "C33"), replay=_real_replay([0, 0], "C33"))
def accept_tt_k1(mc: int, p1: int, t1: int) -> bool:
    """
    pre: 0 <= mc <= 2 and 0 <= p1 <= 110 and 0 <= t1 <= 4
    post: _
    """
    return _cell([0, 0], mc, [(p1, t1)], "C33")


@cond(q=220, t=400, tiers=("thorough",), engine="coop", encoded=ENCODED, stubs=ASSUMPTIONS, bound=_CB % ("connection connection connection", 1), signature=_cell_sig([1, 1, 1], "C33"), replay=_real_replay([1, 1, 1], "C33"))
def accept_ccc_k1(mc: int, p1: int, t1: int) -> bool:
    """
    pre: 0 <= mc <= 2 and 0 <= p1 <= 110 and 0 <= t1 <= 4
    post: _
    """
    return _cell([1, 1, 1], mc, [(p1, t1)], "C33")


@cond(q=220, t=400, tiers=("thorough",), engine="coop", encoded=ENCODED, stubs=ASSUMPTIONS, bound=_CB % ("timeout timeout connection", 1), signature=_cell_sig([0, 0, 1], "C33"), replay=_real_replay([0, 0, 1], "C33"))
def accept_ttc_k1(mc: int, p1: int, t1: int) -> bool:
    """
    pre: 0 <= mc <= 2 and 0 <= p1 <= 110 and 0 <= t1 <= 4
    post: _
    """
    return _cell([0, 0, 1], mc, [(p1, t1)], "C33")


@cond(q=220, t=400, tiers=("thorough",), engine="coop", encoded=ENCODED, stubs=ASSUMPTIONS, bound=_CB % ("timeout connection connection", 1), signature=_cell_sig([0, 1, 1], "C33"), replay=_real_replay([0, 1, 1], "C33"))
def accept_tcc_k1(mc: int, p1: int, t1: int) -> bool:
    """
    pre: 0 <= mc <= 2 and 0 <= p1 <= 110 and 0 <= t1 <= 4
    post: _
    """
    return _cell([0, 1, 1], mc, [(p1, t1)], "C33")


@cond(q=220, t=400, tiers=("thorough",), engine="coop", encoded=ENCODED, stubs=ASSUMPTIONS, bound=_CB % ("connection timeout timeout", 1), signature=_cell_sig([1, 0, 0], "C33"), replay=_real_replay([1, 0, 0], "C33"))
def accept_ctt_k1(mc: int, p1: int, t1: int) -> bool:
    """
    pre: 0 <= mc <= 2 and 0 <= p1 <= 110 and 0 <= t1 <= 4
    post: _
    """
    return _cell([1, 0, 0], mc, [(p1, t1)], "C33")


@cond(q=150, t=6500, tiers=("thorough",), engine="coop", encoded=ENCODED, stubs=ASSUMPTIONS, bound=_CB % ("connection timeout", 2), signature=_cell_sig([1, 0], "C33"), replay=_real_replay([1, 0], "C33"))
def accept_ct_k2(mc: int, p1: int, t1: int, p2: int, t2: int) -> bool:
    """
    pre: 0 <= mc <= 2 and 0 <= p1 < p2 <= 130 and 0 <= t1 <= 4 and 0 <= t2 <= 4
    post: _
    """
    return _cell([1, 0], mc, [(p1, t1), (p2, t2)], "C33")


@cond(q=150, t=6500, tiers=("thorough",), engine="coop", encoded=ENCODED, stubs=ASSUMPTIONS, bound=_CB % ("connection connection timeout", 2), signature=_cell_sig([1, 1, 0], "C33"), replay=_real_replay([1, 1, 0], "C33"))
def accept_cct_k2(mc: int, p1: int, t1: int, p2: int, t2: int) -> bool:
    """
    pre: 0 <= mc <= 2 and 0 <= p1 < p2 <= 130 and 0 <= t1 <= 4 and 0 <= t2 <= 4
    post: _
    """
    return _cell([1, 1, 0], mc, [(p1, t1), (p2, t2)], "C33")


# =================================================================================================
# Launcher half: launch() and gc_state_dir() of vgi_rpc/launcher.py under every schedule.
# The real source of both functions is rewritten (coop); the environment is a small world model:
# FileLock := one mutex per lock path (Timeout when acquired with timeout 0 while held);
# _probe / _spawn_worker / socket and meta files := an in-memory directory with live workers.
# Added after a seeded change to gc_state_dir (probe before taking the entry's lock, no re-probe)
# showed that the "launch half" of C33 had no check at all.
# =================================================================================================

from vgi_rpc import launcher as ln  # noqa: E402


class _LWorld:
    def __init__(self) -> None:
        self.fs: dict[str, object] = {}  # path -> "meta" | "stale-socket" | worker id (int)
        self.workers: list[str] = []  # worker id -> socket path it was spawned on
        self.locks: dict[str, coop.CoopLock] = {}
        self.bad: list[str] = []
        self.returned: list[str] = []

    def reachable(self, path: str) -> bool:
        return isinstance(self.fs.get(path), int)


_LW: list[_LWorld] = []


class _FPath:
    """Just enough of pathlib.Path for launch()/gc_state_dir(), backed by the world's directory."""

    def __init__(self, s: str) -> None:
        self.s = s

    def __truediv__(self, name: str) -> "_FPath":
        return _FPath(self.s + "/" + name)

    def __str__(self) -> str:
        return self.s

    def __fspath__(self) -> str:
        return self.s

    def __lt__(self, other: "_FPath") -> bool:
        return self.s < other.s

    @property
    def stem(self) -> str:
        return self.s.rsplit("/", 1)[-1].rsplit(".", 1)[0]

    def mkdir(self, parents: bool = False, exist_ok: bool = False) -> None:
        return None

    def glob(self, pattern: str):  # type: ignore[no-untyped-def]
        suffix = pattern.lstrip("*")
        return [_FPath(p) for p in list(_LW[-1].fs) if p.startswith(self.s + "/") and p.endswith(suffix)]

    def __getattr__(self, name: str):  # type: ignore[no-untyped-def]
        raise HarnessModelError(f"the in-memory Path model has no .{name}: launch()/gc_state_dir() use more of pathlib than it covers")


class _FLock:
    def __init__(self, path: str, timeout: float = -1) -> None:
        self.path, self.timeout = path, timeout
        w = _LW[-1]
        self.lock = w.locks.setdefault(path, coop.CoopLock())

    def co_acquire(self):  # generator (cooperative)
        if self.timeout == 0.0:
            if self.lock.owner is not None:
                raise ln.Timeout(self.path)
            self.lock.owner = coop.sched().current
            return None
        yield from self.lock.co_acquire()
        return None

    def acquire(self) -> None:
        raise coop.HarnessModelError("FileLock.acquire reached outside the rewritten code")

    def release(self) -> None:
        self.lock.release()


coop._PRIMITIVE_METHODS[(_FLock, "acquire")] = "co_acquire"


def _l_probe(path, *a, **k) -> bool:  # type: ignore[no-untyped-def]
    return _LW[-1].reachable(str(path))


def _l_spawn(argv, sock_path, *a, **k):  # type: ignore[no-untyped-def]
    w = _LW[-1]
    # "at most one worker per command hash while one is alive": workers never exit in this model, so a
    # second spawn on the same path is a second live worker for the same hash
    if sock_path in w.workers:
        w.bad.append("second-worker-spawned-while-first-alive")
    w.workers.append(sock_path)
    w.fs[sock_path] = len(w.workers) - 1

    class _P:
        pid = 1000 + len(w.workers)

    return _P()


def _l_unlink_stale(path, *a, **k) -> None:  # type: ignore[no-untyped-def]
    _LW[-1].fs.pop(str(path), None)


def _l_write_meta(meta_path, *a, **k) -> None:  # type: ignore[no-untyped-def]
    _LW[-1].fs[str(meta_path)] = "meta"


class _OsShim:
    @staticmethod
    def unlink(p) -> None:  # type: ignore[no-untyped-def]
        w = _LW[-1]
        if str(p) not in w.fs:
            raise FileNotFoundError(str(p))
        del w.fs[str(p)]

    @staticmethod
    def getcwd() -> str:
        return "/cwd"

    def __getattr__(self, name: str):  # type: ignore[no-untyped-def]
        raise HarnessModelError(f"the in-memory os model has no .{name}")


class _SignalShim:
    """No SIGPIPE handling in the model (launch() only installs it from the main thread)."""

    def __getattr__(self, name: str):  # type: ignore[no-untyped-def]
        if name == "SIGPIPE":
            raise AttributeError(name)  # hasattr(signal, "SIGPIPE") is False: the branch is skipped, as in a worker thread
        raise HarnessModelError(f"signal.{name} is not modelled")


_L_OVR = {
    "FileLock": _FLock,
    "_probe": _l_probe,
    "_spawn_worker": _l_spawn,
    "_unlink_stale_socket": _l_unlink_stale,
    "_require_socket_or_absent": lambda *a, **k: None,
    "_write_meta": _l_write_meta,
    "compute_hash": lambda argv, *a, **k: str(argv[0]),
    "Path": _FPath,
    "os": _OsShim(),
    "signal": _SignalShim(),
}
L_UNIT = coop.Unit([ln.launch, ln.gc_state_dir], globals_overrides=_L_OVR)
_LAUNCH = L_UNIT.twin(ln.launch)


@coop._mark
def _t_launch(world, hash_id):  # type: ignore[no-untyped-def]
    cfg = ln.LaunchConfig(worker_argv=[hash_id], state_dir="/state")
    path = yield from coop._cc(_LAUNCH, cfg)
    world.returned.append(path)
    if not world.reachable(path):
        world.bad.append("launch-returned-unreachable-path")
    return path


def _l_scenario(hashes: list[str], stale_x: int, first: int, pre):  # type: ignore[no-untyped-def]
    s = coop.Scheduler(max_steps=900, untraced=True)
    world = _LWorld()
    _LW.append(world)
    try:
        sx = coop.Scheduler._concretize(stale_x, 0, 2)
        if sx >= 1:  # hash X has a left-over entry: meta (+ dead socket file)
            world.fs["/state/X.meta"] = "meta"
        if sx == 2:
            world.fs["/state/X.sock"] = "stale-socket"
        for h in hashes:
            s.spawn(_t_launch, world, h)
        s.run(first, pre)
        return s, world
    finally:
        s.close()
        _LW.pop()


def _l_problems(s, world) -> list[str]:  # type: ignore[no-untyped-def]
    bad = list(world.bad)
    if s.deadlocked:
        bad.append("deadlock")
    for t in s.threads:
        if t.exc is not None:
            why = harness_side(t.exc)
            if why:
                raise HarnessModelError("launcher thread: " + why)
            bad.append("exception:" + type(t.exc).__name__)
    # every path a launch returned still leads to a live worker when all launches are done
    for p in world.returned:
        if not world.reachable(p):
            bad.append("returned-worker-made-unreachable")
    return sorted(set(bad))


def _l_sig(hashes):  # type: ignore[no-untyped-def]
    def sig(a: dict, conc) -> str:  # type: ignore[no-untyped-def]
        f = a["first"]
        pre = [(a["p1"], a.get("t1", 1 - f))] + ([(a["p2"], a.get("t2", f))] if "p2" in a else [])
        s, w = _l_scenario(hashes, a["stale_x"], f, pre)
        bad = _l_problems(s, w)
        return "C33:launcher:" + (bad[0] if bad else "none")

    return sig


def _l_real_replay(hashes):  # type: ignore[no-untyped-def]
    """The counterexample schedule forced onto genuine threads running the UNMODIFIED launch() and
    gc_state_dir(): real pathlib on a scratch state directory, real filelock.FileLock, real _probe /
    _unlink_stale_socket / _write_meta / compute_hash.  Only _spawn_worker is replaced — by a "worker"
    that binds and listens on the socket path in this process and never exits (so a second spawn
    on one path is a second live worker for one command hash)."""

    def replay(a: dict) -> str | None:
        import collections
        import shutil
        import socket
        import tempfile
        import types
        from pathlib import Path

        f = a["first"]
        pre = [(a["p1"], a.get("t1", 1 - f))] + ([(a["p2"], a.get("t2", f))] if "p2" in a else [])
        s, w = _l_scenario(hashes, a["stale_x"], f, pre)
        if not [b for b in _l_problems(s, w) if not is_open("C33:launcher:" + b)]:
            return None
        return _l_run_real(hashes, int(a["stale_x"]), s)[0]

    return replay


def _l_run_real(hashes, sx: int, s):  # type: ignore[no-untyped-def]
    """(violation description | None, info) for the recorded schedule `s` on the real launcher code."""
    if True:
        import collections
        import shutil
        import socket
        import tempfile
        import types
        from pathlib import Path

        state = Path(tempfile.mkdtemp(prefix="c33l"))
        # the model names the command hashes X < Y and gc_state_dir visits entries in sorted order:
        # pick worker commands whose real hashes sort the same way
        argv = {"X": ["worker-X"], "Y": ["worker-Y"]}
        k = 0
        while not ln.compute_hash(argv["X"]) < ln.compute_hash(argv["Y"]):
            k += 1
            argv["Y"] = ["worker-Y", str(k)]
        listeners: list = []
        spawns: collections.Counter = collections.Counter()
        bad: list[str] = []
        returned: list[str] = []

        def spawn(argv_, sock_path, *_a, **_k):  # type: ignore[no-untyped-def]
            spawns[sock_path] += 1
            if spawns[sock_path] > 1:
                bad.append("second-worker-spawned-while-first-alive")
                return types.SimpleNamespace(pid=2000 + len(listeners))
            srv = socket.socket(socket.AF_UNIX, socket.SOCK_STREAM)
            srv.bind(sock_path)
            srv.listen(16)
            listeners.append(srv)
            return types.SimpleNamespace(pid=1000 + len(listeners))

        saved = ln._spawn_worker
        try:
            _lock_x, sock_x, meta_x = ln._socket_paths(state, ln.compute_hash(argv["X"]))
            if sx >= 1:
                ln._write_meta(meta_x, argv["X"], "/cwd", str(sock_x))
            if sx == 2:
                dead = socket.socket(socket.AF_UNIX, socket.SOCK_STREAM)
                dead.bind(str(sock_x))
                dead.close()  # the inode stays, nothing listens: a stale socket
            ln._spawn_worker = spawn  # type: ignore[assignment]

            def body(h: str):
                def run() -> None:
                    path = ln.launch(ln.LaunchConfig(worker_argv=argv[h], state_dir=str(state), connect_timeout=30.0))
                    returned.append(path)
                    if not ln._probe(path):
                        bad.append("launch-returned-unreachable-path")

                return run

            res = coop.replay_real(L_UNIT, [body(h) for h in hashes], s.trace, s.seg_ends, timeout_s=60.0, slack_s=0.3)
            info = {"res": res, "returned": list(returned), "spawns": dict(spawns)}
            if res["diverged"] or not res["completed"] or res.get("harness_side"):
                return None, info
            for e in res["exceptions"]:
                if e:
                    bad.append("exception:" + str(e)[:80])
            for p_ in returned:
                if not ln._probe(p_):
                    bad.append("returned-worker-made-unreachable")
            real_bad = sorted(set(b for b in bad if not is_open("C33:launcher:" + b)))
            if real_bad:
                return f"real launch()/gc_state_dir() with real file locks on real threads ({res['segments']} segments), hashes={hashes} stale_x={sx}: {real_bad}; spawns per socket={sorted(spawns.values())}", info
            return None, info
        finally:
            ln._spawn_worker = saved  # type: ignore[assignment]
            for srv in listeners:
                srv.close()
            shutil.rmtree(state, ignore_errors=True)


_LB = "launch() calls for command hashes %s with the opportunistic gc_state_dir pass of each; hash X initially absent / stale meta / stale meta+socket; symbolic start + %d preemption(s) at any statement"


@cond(q=150, t=400, engine="coop", encoded=[ln.launch, ln.gc_state_dir], stubs=["FileLock := one mutex per lock path", "_probe/_spawn_worker/state dir := in-memory world with live workers that never exit"],
      bound=_LB % ("X, X", 1), signature=_l_sig(['X', 'X']), replay=_l_real_replay(['X', 'X']))
def launchers_xx_k1(stale_x: int, first: int, p1: int) -> bool:
    """
    pre: 0 <= stale_x <= 2 and 0 <= first <= 1 and 0 <= p1 <= 90
    post: _
    """
    s, w = _l_scenario(['X', 'X'], stale_x, first, [(p1, 1 - first)])
    return not [b for b in _l_problems(s, w) if not is_open("C33:launcher:" + b)]


@cond(q=150, t=400, engine="coop", encoded=[ln.launch, ln.gc_state_dir], stubs=["FileLock := one mutex per lock path", "_probe/_spawn_worker/state dir := in-memory world with live workers that never exit"],
      bound=_LB % ("X, Y", 1), signature=_l_sig(['X', 'Y']), replay=_l_real_replay(['X', 'Y']))
def launchers_xy_k1(stale_x: int, first: int, p1: int) -> bool:
    """
    pre: 0 <= stale_x <= 2 and 0 <= first <= 1 and 0 <= p1 <= 90
    post: _
    """
    s, w = _l_scenario(['X', 'Y'], stale_x, first, [(p1, 1 - first)])
    return not [b for b in _l_problems(s, w) if not is_open("C33:launcher:" + b)]


@cond(q=150, t=400, engine="coop", encoded=[ln.launch, ln.gc_state_dir], stubs=["FileLock := one mutex per lock path", "_probe/_spawn_worker/state dir := in-memory world with live workers that never exit"],
      bound=_LB % ("Y, X", 1), signature=_l_sig(['Y', 'X']), replay=_l_real_replay(['Y', 'X']))
def launchers_yx_stale_k1(stale_x: int, first: int, p1: int) -> bool:
    """
    pre: 0 <= stale_x <= 2 and 0 <= first <= 1 and 0 <= p1 <= 90
    post: _
    """
    s, w = _l_scenario(['Y', 'X'], stale_x, first, [(p1, 1 - first)])
    return not [b for b in _l_problems(s, w) if not is_open("C33:launcher:" + b)]


@cond(q=150, t=1500, tiers=("thorough",), engine="coop", encoded=[ln.launch, ln.gc_state_dir], stubs=["FileLock := one mutex per lock path", "_probe/_spawn_worker/state dir := in-memory world with live workers that never exit"],
      bound=_LB % ("X, X, Y", 1), signature=_l_sig(["X", "X", "Y"]), replay=_l_real_replay(["X", "X", "Y"]))
def launchers_xxy_k1(stale_x: int, first: int, p1: int, t1: int) -> bool:
    """
    pre: 0 <= stale_x <= 2 and 0 <= first <= 2 and 0 <= t1 <= 2 and 0 <= p1 <= 110
    post: _
    """
    s, w = _l_scenario(["X", "X", "Y"], stale_x, first, [(p1, t1)])
    return not [b for b in _l_problems(s, w) if not is_open("C33:launcher:" + b)]


@cond(q=150, t=3000, tiers=("thorough",), engine="coop", encoded=[ln.launch, ln.gc_state_dir], stubs=["FileLock := one mutex per lock path", "_probe/_spawn_worker/state dir := in-memory world with live workers that never exit"],
      bound=_LB % ("X, Y", 2), signature=_l_sig(["X", "Y"]), replay=_l_real_replay(["X", "Y"]))
def launchers_xy_k2(stale_x: int, first: int, p1: int, p2: int) -> bool:
    """
    pre: 0 <= stale_x <= 2 and 0 <= first <= 1 and 0 <= p1 < p2 <= 90
    post: _
    """
    s, w = _l_scenario(["X", "Y"], stale_x, first, [(p1, 1 - first), (p2, first)])
    return not [b for b in _l_problems(s, w) if not is_open("C33:launcher:" + b)]
