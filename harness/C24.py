"""C24 — precondition gates compose with AND semantics.

Encoded (real bytecode): ``require_all`` + its ``authenticate`` closure, ``PreconditionGate``,
``chain_authenticate`` (construction guard), the ``gate`` closure built by ``proxy_proof_gate``.

(a) xh, ``verify_proof`` replaced by a contract stub ("returns verified claims carrying a symbolic
    label, or raises ProofError with one of the spec's reason codes"): for mode in {allow, require}
    x inner in {absent, accepts(ctx with symbolic authenticated/principal), raises ValueError,
    raises AuthFailure, raises PermissionError} x header in {absent, any string len<=2} x proof
    outcome in {ok, 6 failure codes}:
      * authenticated result  =>  (inner absent and the verifier said ok) or inner accepted as authenticated
      * allow mode, no valid proof, no inner  =>  the anonymous identity (authenticated/principal/domain of
        AuthContext.anonymous()); allow mode with no inner never raises
      * require mode and the verifier did not say ok  =>  refused with a non-ValueError exception (an OR chain
        swallows ValueError) and inner never called
      * with inner and a passing gate: inner is consulted, its refusal stays a refusal of the same family
        (ValueError vs. not), its domain/principal/authenticated and its own claims reach the caller, and the
        gate's claims - where merged - never say verified='true' for an unproven request.
    Not asserted (beyond the property): exception classes other than the ValueError/non-ValueError split, exact
    call counts, identity of propagated exceptions, number of claim keys, which header shapes the gate turns
    down before consulting the verifier.
(b) xh, nothing stubbed: the real gate + real ``verify_proof`` on every header string len<=3.
(c) xh, nothing stubbed: ``chain_authenticate`` with a gate at any position of a chain of 1..3 refuses at
    construction (any exception); without a gate, or with the gate wrapped by require_all, it constructs.
    A non-gate in require_all's gate position (refused at construction today) can never yield an authenticated
    context when the inner authenticator did not accept.
(d) xh, verifier replaced by a recorder: the gate hands one and the same replay cache to the verifier in both
    modes; replayed for real by presenting one valid proof twice.
"""

from __future__ import annotations

from engine.api import QUICK, REPO, HarnessModelError, cond, pick
from engine.reglob import reglobalize

from vgi_rpc.http import _bearer as br
from vgi_rpc.http import _proof as pf
from vgi_rpc.http._unauthorized import AuthFailure, AuthReason
from vgi_rpc.rpc import AuthContext

PROPERTY = "C24"
ENCODED = [br.require_all, br.PreconditionGate, br.chain_authenticate, pf.proxy_proof_gate]
BOUNDS = (
    "modes {allow, require} x inner {absent, accept(symbolic authenticated, principal len<=2), ValueError, "
    "AuthFailure, PermissionError} x header {absent, any str len<=2} x stubbed proof outcome {ok, no_proof.."
    "replayed}; un-stubbed: header any str len<=3; chains of 1..3 members; 5 non-gates in require_all's gate position; "
    "both modes x replay cache on/off x the same proof twice"
)
OUTSIDE = (
    "verify_proof itself (C22); HMAC; concurrency of the nonce cache (C23); make_wsgi_app wiring of the "
    "authenticate callback (C20); gates other than proxy_proof_gate"
)
ASSUMPTIONS = [
    "verify_proof stub: returns {'verified':'true','proxy':<symbolic label>,...} or raises ProofError(reason in the "
    "spec's closed set); which of the two is a free symbolic choice (C22 decides when each happens)",
    "falcon.Request is a fake exposing get_header(name[, required, default])/remote_addr only (anything else raises "
    "HarnessModelError => INCONCLUSIVE); logging is disabled; replays use real falcon requests",
]

_SECRET = b"\x11" * 32
_ORIGIN = "worker-a"
_KID = "k1"
_SECRETS = {_KID: (_SECRET, "proxy-one")}
_FAIL_REASONS = ("no_proof", "malformed", "unknown_kid", "expired", "not_yet_valid", "bad_mac", "replayed")

_HOLD: dict = {"outcome": 0, "label": "", "verify_calls": 0, "verified_ok": 0,
               "inner_kind": 0, "inner_calls": 0, "inner_ctx": None, "inner_exc": None}


def _stub_verify_proof(token, *a, **k):  # type: ignore[no-untyped-def]
    # tolerant signature: which keyword arguments the gate forwards is not this property's subject
    _HOLD["verify_calls"] += 1
    o = _HOLD["outcome"]
    if o == 0:
        _HOLD["verified_ok"] += 1
        return {"verified": "true", "proxy": _HOLD["label"], "kid": _KID, "origin_id": k.get("origin_id", _ORIGIN), "reason": "ok"}
    if 1 <= o <= len(_FAIL_REASONS):
        raise pf.ProofError(_FAIL_REASONS[o - 1], "stub detail")
    raise HarnessModelError("proof outcome outside the modelled set")


_gate_factory_stubbed = reglobalize(pf.proxy_proof_gate, verify_proof=_stub_verify_proof)


def _config(mode: str) -> pf.ProxyProofConfig:
    return pf.ProxyProofConfig(mode=mode, origin_id=_ORIGIN, secrets=_SECRETS)  # type: ignore[arg-type]


def _inner(req):  # type: ignore[no-untyped-def]
    """Inner authenticator stub: behaviour chosen by the symbolic inner_kind."""
    _HOLD["inner_calls"] += 1
    k = _HOLD["inner_kind"]
    if k == 1:
        return _HOLD["inner_ctx"]
    raise _HOLD["inner_exc"]


# everything that needs dict()/closures is built at import time (outside tracing)
_GATE_S = {False: _gate_factory_stubbed(_config("allow")), True: _gate_factory_stubbed(_config("require"))}
_GATE_R = {False: pf.proxy_proof_gate(_config("allow")), True: pf.proxy_proof_gate(_config("require"))}
_AUTH_S = {(rq, has): br.require_all(_GATE_S[rq], _inner if has else None) for rq in (False, True) for has in (False, True)}
_AUTH_R = {rq: br.require_all(_GATE_R[rq]) for rq in (False, True)}
_ANON = AuthContext.anonymous()
_VE = ValueError("inner: bad credential")
_AF = AuthFailure(AuthReason.INVALID_CREDENTIAL, "inner: rejected")
_PE = PermissionError("inner: forbidden")


class _Req:
    """The only parts of falcon.Request the gate touches."""

    def __init__(self, present: bool, raw: str) -> None:
        self._present = present
        self._raw = raw
        self.remote_addr = "192.0.2.7"

    def get_header(self, name: str, *a, **k):  # type: ignore[no-untyped-def]
        # falcon: get_header(name, required=False, default=None); a request that carries no other header
        default = a[1] if len(a) > 1 else k.get("default")
        if name.lower() == pf.PROOF_HEADER.lower() and self._present:
            return self._raw
        if (a and a[0]) or k.get("required"):
            raise HarnessModelError("get_header(required=True) on an absent header is not modelled")
        return default

    def __getattr__(self, name: str):  # type: ignore[no-untyped-def]
        if name.startswith("__"):  # protocol probes (hasattr(x, '__ch_realize__'), copy, pickle)
            raise AttributeError(name)
        raise HarnessModelError(f"falcon.Request.{name} is not modelled by the C24 request fake")


def _arm(outcome: int, label: str, inner_kind: int, inner_auth: bool, inner_principal: str) -> None:
    _HOLD["outcome"] = outcome
    _HOLD["label"] = label
    _HOLD["verify_calls"] = 0
    _HOLD["verified_ok"] = 0
    _HOLD["inner_calls"] = 0
    _HOLD["inner_kind"] = inner_kind
    _HOLD["inner_ctx"] = AuthContext(domain="inner-domain", authenticated=inner_auth, principal=inner_principal, claims={"scope": "rw"})
    _HOLD["inner_exc"] = _VE if inner_kind == 2 else _AF if inner_kind == 3 else _PE


# ---------------------------------------------------------------------------
# real replays (no stubs): a real falcon request, real verify_proof, real HMAC
# ---------------------------------------------------------------------------


def _real_header(present: bool, raw: str, outcome: int) -> tuple[dict, list[dict], str]:
    """Concrete request headers realising the abstract (present, raw, outcome) triple.

    Returns (headers, warm-up request headers to send first, description).
    """
    if not present:
        return {}, [], "no VGI-Proxy-Proof header at all"
    if raw == "":
        return {pf.PROOF_HEADER: ""}, [], "empty VGI-Proxy-Proof header"
    if "," in raw:
        t = pf.mint_proof(_SECRET, _KID, _ORIGIN)
        return {pf.PROOF_HEADER: t + ", " + t}, [], "two VGI-Proxy-Proof headers"
    import time as _time

    now = int(_time.time())
    good = pf.mint_proof(_SECRET, _KID, _ORIGIN)
    if outcome == 0:
        return {pf.PROOF_HEADER: good}, [], "valid proof"
    name = _FAIL_REASONS[outcome - 1]
    if name in ("no_proof", "malformed"):
        return {pf.PROOF_HEADER: "v1.only.three"}, [], "malformed proof"
    if name == "unknown_kid":
        return {pf.PROOF_HEADER: pf.mint_proof(_SECRET, "other", _ORIGIN)}, [], "proof under an unknown kid"
    if name == "expired":
        return {pf.PROOF_HEADER: pf.mint_proof(_SECRET, _KID, _ORIGIN, now=now - 3600)}, [], "expired proof"
    if name == "not_yet_valid":
        return {pf.PROOF_HEADER: pf.mint_proof(_SECRET, _KID, _ORIGIN, now=now + 3600)}, [], "far-future proof"
    if name == "bad_mac":
        return {pf.PROOF_HEADER: pf.mint_proof(b"\x22" * 32, _KID, _ORIGIN)}, [], "proof signed with the wrong secret"
    return {pf.PROOF_HEADER: good}, [{pf.PROOF_HEADER: good}], "replayed proof"


def _end_to_end(mode: str, headers: dict, warm: list[dict]) -> str | None:
    """Serve a method that calls ctx.auth.require_authenticated() behind require_all(gate); public API only."""
    from typing import Protocol

    from vgi_rpc.http import ProxyProofConfig, http_connect, proxy_proof_gate, require_all
    from vgi_rpc.http._testing import make_sync_client
    from vgi_rpc.rpc import CallContext, RpcServer

    class Svc(Protocol):
        def guarded(self) -> str: ...

    class Impl:
        def guarded(self, ctx: CallContext) -> str:
            ctx.auth.require_authenticated()
            return f"authenticated={ctx.auth.authenticated} domain={ctx.auth.domain!r} principal={ctx.auth.principal!r}"

    gate = proxy_proof_gate(ProxyProofConfig(mode=mode, origin_id=_ORIGIN, secrets=_SECRETS))  # type: ignore[arg-type]
    client = make_sync_client(RpcServer(Svc, Impl()), token_key=b"k" * 32, authenticate=require_all(gate), default_headers=headers or None)
    try:
        with http_connect(Svc, client=client) as proxy:
            return str(proxy.guarded())
    except Exception:  # noqa: BLE001
        return None
    finally:
        client.close()


def _independently_verified(headers: dict, warm: list[dict]) -> bool:
    """Does the real verify_proof accept the header value (after the warm-up requests)?"""
    from vgi_rpc.http._replay import NonceCache

    cache = NonceCache(ttl_seconds=30)
    for h in warm:
        pf.verify_proof(h[pf.PROOF_HEADER], secrets=_SECRETS, origin_id=_ORIGIN, nonce_cache=cache)
    raw = headers.get(pf.PROOF_HEADER)
    if not raw or "," in raw:
        return False
    try:
        pf.verify_proof(raw, secrets=_SECRETS, origin_id=_ORIGIN, nonce_cache=cache)
    except pf.ProofError:
        return False
    return True


def _real_scenario(args: dict) -> dict:
    """The counterexample's scenario on un-stubbed code: real gate, real verify_proof/HMAC, real falcon request."""
    import falcon.testing

    require = bool(args.get("require", False))
    mode = "require" if require else "allow"
    if "outcome" in args:  # stubbed condition: abstract outcome -> concrete token
        headers, warm, what = _real_header(bool(args["present"]), args["raw"], int(args["outcome"]))
    else:  # un-stubbed condition: the header string itself
        headers = {pf.PROOF_HEADER: args["raw"]} if args["present"] else {}
        warm, what = [], ("header " + repr(args["raw"]) if args["present"] else "no VGI-Proxy-Proof header at all")
    kind = int(args.get("inner_kind", 0))
    calls = {"n": 0}
    inner_ctx = AuthContext(domain="inner-domain", authenticated=bool(args.get("inner_auth", False)),
                            principal=args.get("inner_principal", ""), claims={"scope": "rw"})
    inner_exc = _VE if kind == 2 else _AF if kind == 3 else _PE

    def inner(req):  # type: ignore[no-untyped-def]
        calls["n"] += 1
        if kind == 1:
            return inner_ctx
        raise inner_exc

    verified = _independently_verified(headers, warm)
    gate = pf.proxy_proof_gate(_config(mode))
    auth = br.require_all(gate, inner if kind else None)
    # the first presentation of a to-be-replayed proof goes through the gate alone (same gate object, hence
    # same replay memory): the inner authenticator's behaviour must not decide whether the warm-up happens
    for h in warm:
        gate(falcon.testing.create_req(headers=h))
    ctx, exc = None, None
    try:
        ctx = auth(falcon.testing.create_req(headers=headers))
    except Exception as e:  # noqa: BLE001
        exc = e
    return {"mode": mode, "require": require, "headers": headers, "warm": warm, "what": what, "kind": kind, "verified": verified,
            "ctx": ctx, "exc": exc, "inner_calls": calls["n"], "inner_ctx": inner_ctx, "inner_exc": inner_exc}


def _replay_unproven(args: dict) -> str | None:
    """Item 1 / item (b): who is treated as authenticated, on real code."""
    r = _real_scenario(args)
    ctx, kind = r["ctx"], r["kind"]
    head = f"require_all(proxy_proof_gate(mode={r['mode']!r}){', inner' if kind else ''}) for a request carrying {r['what']}"
    if r["require"] and not r["verified"] and not _is_gate_refusal(r["exc"]):
        return f"{head}: require mode did not refuse (got {r['exc']!r} / {ctx!r}; a ValueError would be swallowed by an OR chain)"
    if ctx is None:
        if not r["require"] and kind == 0:
            return f"{head}: raised {r['exc']!r}; an allow-mode gate with no inner authenticator may not refuse anything"
        return None
    pc = ctx.claims.get(pf.CLAIMS_KEY, {})
    inner_accepted = kind == 1 and r["inner_calls"] == 1 and r["inner_ctx"].authenticated
    if ctx.authenticated and not ((kind == 0 and r["verified"]) or inner_accepted):
        e2e = _end_to_end(r["mode"], r["headers"], r["warm"]) if (kind == 0 and not r["warm"]) else None
        return (
            f"{head} returned {ctx!r}: authenticated=True although the proof did not verify (claims: verified={pc.get('verified')!r}, "
            f"reason={pc.get('reason')!r})" + (" and no inner authenticator accepted it" if kind else " and there is no inner authenticator")
            + (f"; end-to-end through make_wsgi_app, a method guarded by ctx.auth.require_authenticated() answered: {e2e}" if e2e else "")
        )
    anon = AuthContext.anonymous()
    if not r["require"] and not r["verified"] and kind == 0 and (ctx.authenticated, ctx.principal, ctx.domain) != (anon.authenticated, anon.principal, anon.domain):
        return f"{head} returned {ctx!r}, not the anonymous identity {anon!r}"
    return None


def _is_gate_refusal(exc: object) -> bool:
    """A gate failure refuses the request with something an OR chain does not swallow (chains swallow ValueError)."""
    return isinstance(exc, Exception) and not isinstance(exc, ValueError)


def _replay_composition(args: dict) -> str | None:
    """Item 2: order of gate and inner, propagation, merge — on real code."""
    r = _real_scenario(args)
    ctx, exc, kind = r["ctx"], r["exc"], r["kind"]
    head = f"require_all(proxy_proof_gate(mode={r['mode']!r}){', inner' if kind else ''}) for a request carrying {r['what']}"
    if r["require"] and not r["verified"]:
        if r["inner_calls"]:
            return f"{head}: the inner authenticator was consulted {r['inner_calls']}x although the gate had failed"
        if not _is_gate_refusal(exc):
            return f"{head}: expected a refusal that an OR chain does not swallow, got {exc!r} / {ctx!r}"
        return None
    if kind == 0:
        if ctx is None:
            return f"{head}: raised {exc!r} although nothing may refuse it"
        if r["verified"] and ctx.authenticated is not True:
            return f"{head}: verified proof but context is {ctx!r} / {dict(ctx.claims)!r}"
        return None
    if r["inner_calls"] == 0:
        return f"{head}: the gate passed but the inner authenticator was never consulted (got {exc!r} / {ctx!r})"
    if kind != 1:
        if exc is None:
            return f"{head}: inner refused with {r['inner_exc']!r} but the caller got {ctx!r}"
        if isinstance(exc, ValueError) != isinstance(r["inner_exc"], ValueError):
            return f"{head}: inner refused with {r['inner_exc']!r} but the caller saw {exc!r} (ValueError = 'try the next credential', anything else = 'stop')"
        return None
    want = r["inner_ctx"]
    if ctx is None:
        return f"{head}: raised {exc!r} although gate passed and inner accepted"
    pc = ctx.claims.get(pf.CLAIMS_KEY)
    if (ctx.domain, ctx.principal, ctx.authenticated) != (want.domain, want.principal, want.authenticated) or ctx.claims.get("scope") != "rw":
        return f"{head}: inner returned {want!r} claims={dict(want.claims)!r} but the caller got {ctx!r} claims={dict(ctx.claims)!r}"
    if pc is not None and pc.get("verified") == "true" and not r["verified"]:
        return f"{head}: the gate claims merged into the context say verified='true' but the proof did not verify"
    return None


_SIG = "C24:require_all:allow-mode-unproven-request-authenticated"


def _sig_unproven(args: dict, conc: object = None) -> str:
    """Allow-mode and require-mode findings are different defects: do not file one under the other's name."""
    if args.get("require"):
        return "C24:require_all:require-mode-unproven-request-not-refused"
    if int(args.get("inner_kind", 0) or 0) != 0:
        return "C24:require_all:allow-mode-unproven-request-identity-with-inner"
    return _SIG

_STUBS = ["verify_proof := verified claims with symbolic label | ProofError(reason in spec set)"]


# ---------------------------------------------------------------------------
# (a) stubbed verifier
# ---------------------------------------------------------------------------


@cond(q=40, t=120, stubs=_STUBS, encoded=[br.require_all, pf.proxy_proof_gate, br.PreconditionGate.__call__],
      bound="mode x inner{absent,accept,ValueError,AuthFailure,PermissionError} x header{absent, str len<=2} x outcome 0..7",
      replay=_replay_unproven, signature=_sig_unproven)
def authenticated_only_if_proven_or_inner_accepted(require: bool, present: bool, raw: str, outcome: int, label: str,
                                                   inner_kind: int, inner_auth: bool, inner_principal: str) -> bool:
    """
    pre: len(raw) <= 2 and 0 <= outcome <= 7 and len(label) <= 2 and 0 <= inner_kind <= 4 and len(inner_principal) <= 2
    post: _
    """
    _arm(outcome, label, inner_kind, inner_auth, inner_principal)
    auth = _AUTH_S[(require, inner_kind != 0)]
    try:
        ctx = auth(_Req(present, raw))
    except (ValueError, PermissionError):
        # refused the way authenticators refuse: nothing is treated as authenticated (the other item checks
        # *which* refusal).  Anything else (a harness fault, a TypeError in the code) escapes and is
        # judged by the replay on real code.
        return True
    proven = _HOLD["verified_ok"] >= 1
    inner_accepted = inner_kind == 1 and _HOLD["inner_calls"] >= 1 and inner_auth
    if ctx.authenticated and not ((inner_kind == 0 and proven) or inner_accepted):
        return False
    if require and not proven:
        return False  # require mode let a request through although the verifier never said ok
    if not require and not proven and inner_kind == 0:
        # allow mode, no valid proof, nothing else to identify the caller: exactly the anonymous request
        if ctx.authenticated is not False or ctx.principal is not None or ctx.domain is not None:
            return False
        if ctx.authenticated != _ANON.authenticated or ctx.principal != _ANON.principal or ctx.domain != _ANON.domain:
            return False
    return True


@cond(q=40, t=120, stubs=_STUBS, encoded=[br.require_all, pf.proxy_proof_gate, br.PreconditionGate.__call__],
      bound="mode x inner{absent,accept,ValueError,AuthFailure,PermissionError} x header{absent, str len<=2} x outcome 0..7",
      replay=_replay_composition, signature=lambda args, conc: "C24:require_all:composition-order-or-merge")
def gate_first_then_inner_unchanged(require: bool, present: bool, raw: str, outcome: int, label: str,
                                    inner_kind: int, inner_auth: bool, inner_principal: str) -> bool:
    """
    pre: len(raw) <= 2 and 0 <= outcome <= 7 and len(label) <= 2 and 0 <= inner_kind <= 4 and len(inner_principal) <= 2
    post: _
    """
    _arm(outcome, label, inner_kind, inner_auth, inner_principal)
    auth = _AUTH_S[(require, inner_kind != 0)]
    exc: Exception | None = None
    ctx = None
    try:
        ctx = auth(_Req(present, raw))
    except HarnessModelError:
        raise
    except Exception as e:  # noqa: BLE001
        exc = e
    # "the proof gate verified it" := the verifier was consulted and said ok.  Which header shapes the gate
    # turns down by itself before consulting the verifier (absent, multi-valued, ...) is C22's subject.
    gate_ok = _HOLD["verified_ok"] >= 1
    if require and not gate_ok:
        # gate failure in require mode: the inner authenticator is never consulted, and the request is refused
        # with something an OR chain does not swallow (chains swallow ValueError, so not a ValueError)
        if _HOLD["inner_calls"] != 0:
            return False
        return _is_gate_refusal(exc)
    if inner_kind == 0:
        if exc is not None or ctx is None:
            return False  # allow mode never refuses; a verified proof is not refused either
        if gate_ok:
            return ctx.authenticated is True
        return True  # allow-mode unproven/no-inner identity is the other item's subject
    if _HOLD["inner_calls"] == 0:
        return False  # the gate passed: the inner authenticator decides, so it must have been asked
    if inner_kind != 1:
        # inner's own refusal stays a refusal of the same family (ValueError = "try the next credential" for an
        # enclosing chain, anything else = "stop")
        return exc is not None and isinstance(exc, ValueError) == isinstance(_HOLD["inner_exc"], ValueError)
    if exc is not None or ctx is None:
        return False
    want = _HOLD["inner_ctx"]
    if ctx.domain != want.domain or ctx.principal != want.principal or ctx.authenticated != want.authenticated:
        return False
    if ctx.claims.get("scope") != "rw":
        return False  # the inner authenticator's own claims are what the method sees
    c = ctx.claims.get(pf.CLAIMS_KEY)
    # the gate's attestation, where present, never says "verified" for an unproven request
    return c is None or gate_ok or c.get("verified") != "true"


# ---------------------------------------------------------------------------
# (b) nothing stubbed: real gate + real verify_proof on short headers
# ---------------------------------------------------------------------------

_LR = pick(3, 4)


@cond(q=60, t=300, encoded=[br.require_all, pf.proxy_proof_gate, pf.verify_proof], bound="header absent or any str len<=%d, no inner" % _LR,
      replay=_replay_unproven, signature=_sig_unproven)
def real_gate_short_header_no_inner(require: bool, present: bool, raw: str) -> bool:
    """
    pre: len(raw) <= _LR
    post: _
    """
    # no string this short is a proof (a proof has 5 dot-separated fields and a 43-char MAC)
    try:
        ctx = _AUTH_R[require](_Req(present, raw))
    except HarnessModelError:
        raise
    except Exception as e:  # noqa: BLE001
        return require and _is_gate_refusal(e)  # allow mode refuses nothing; require refuses un-swallowably
    if require:
        return False
    return ctx.authenticated == _ANON.authenticated and ctx.principal == _ANON.principal and ctx.domain == _ANON.domain


# ---------------------------------------------------------------------------
# (c) construction guards
# ---------------------------------------------------------------------------


def _plain_a(req):  # type: ignore[no-untyped-def]
    raise ValueError("a")


def _plain_b(req):  # type: ignore[no-untyped-def]
    return _ANON


@cond(q=20, t=60, encoded=[br.chain_authenticate], bound="chains of 1..3 members, gate (allow or require) at any position or absent")
def chain_refuses_gate_anywhere(n: int, pos: int, require: bool, with_gate: bool, wrapped: bool) -> bool:
    """
    pre: 1 <= n <= 3 and 0 <= pos < n
    post: _
    """
    members = [_plain_a, _plain_b, _plain_a][:n]
    if with_gate:
        # a gate wrapped by require_all is a credential again and may be chained
        members[pos] = _AUTH_R[require] if wrapped else _GATE_R[require]
    try:
        chain = br.chain_authenticate(*members)
    except Exception:  # noqa: BLE001  (nothing is stubbed here; the property names no exception class)
        return with_gate and not wrapped
    return callable(chain) and not (with_gate and not wrapped)


def _claims_fn(req):  # type: ignore[no-untyped-def]
    """A plain function that answers like a gate but is not one."""
    return {"verified": "true", "proxy": "someone"}


_NON_GATES = [_plain_a, None, _claims_fn, _AUTH_R[True], _AUTH_R[False]]


@cond(q=20, t=60, encoded=[br.require_all], bound="5 non-gates in the gate position x header absent/any str len<=2; inner returns the anonymous context")
def non_gate_in_gate_position_cannot_authenticate(kind: int, present: bool, raw: str) -> bool:
    """
    pre: 0 <= kind <= 4 and len(raw) <= 2
    post: _
    """
    # Whether require_all turns a non-gate down at construction (it does today) or accepts it duck-typed is not
    # the property's business.  What is: with an inner authenticator that does not accept the request
    # as authenticated and no proof gate that verified anything, the result is never authenticated.
    try:
        auth = br.require_all(_NON_GATES[kind], _plain_b)  # type: ignore[arg-type]
    except Exception:  # noqa: BLE001
        return True
    try:
        ctx = auth(_Req(present, raw))  # type: ignore[arg-type]
    except HarnessModelError:
        raise
    except Exception:  # noqa: BLE001
        return True
    return not ctx.authenticated


# ---------------------------------------------------------------------------
# replay memory is part of "the proof gate verified it": the gate must hand its nonce cache to
# the verifier in BOTH modes, and keep using the same one (added after a seeded change that
# built the cache only in require mode went unnoticed: an allow-mode replay then came back
# verified and require_all authenticated it).
# ---------------------------------------------------------------------------

_SEEN_CACHES: list = []


def _recording_verify_proof(token, *, secrets, origin_id, skew_seconds=30, nonce_cache=None, now=None):  # type: ignore[no-untyped-def]
    _SEEN_CACHES.append(nonce_cache)
    return {"verified": "true", "proxy": "p", "kid": _KID, "origin_id": origin_id, "reason": "ok"}


_gate_factory_recording = reglobalize(pf.proxy_proof_gate, verify_proof=_recording_verify_proof)
_GATE_REC = {
    (rq, rc): _gate_factory_recording(pf.ProxyProofConfig(mode="require" if rq else "allow", origin_id=_ORIGIN, secrets=_SECRETS, enable_replay_cache=rc))  # type: ignore[arg-type]
    for rq in (False, True)
    for rc in (False, True)
}


def _replay_twice(a: dict) -> str | None:
    """Real gate, real verify_proof, real HMAC: the same valid proof presented twice."""
    mode = "require" if a["required"] else "allow"
    gate = pf.proxy_proof_gate(pf.ProxyProofConfig(mode=mode, origin_id=_ORIGIN, secrets=_SECRETS))  # type: ignore[arg-type]
    auth = br.require_all(gate)
    good = pf.mint_proof(_SECRET, _KID, _ORIGIN)
    import falcon.testing

    first = auth(falcon.testing.create_req(headers={pf.PROOF_HEADER: good}))
    try:
        second = auth(falcon.testing.create_req(headers={pf.PROOF_HEADER: good}))
    except Exception:  # noqa: BLE001  (refused: not authenticated twice)
        return None
    if first.authenticated and second.authenticated:
        return f"mode={mode}: the same proof presented twice was authenticated twice (second: domain={second.domain!r}, claims={dict(second.claims)})"
    return None


@cond(q=20, t=40, stubs=["verify_proof := recorder of the nonce_cache argument"], encoded=[pf.proxy_proof_gate], bound="both modes x replay cache enabled/disabled x 2 requests",
      replay=_replay_twice, signature=lambda a, c: "C24:gate:replay-cache-not-handed-to-verifier")
def gate_hands_its_replay_cache_to_the_verifier(required: bool, replay_cache: bool) -> bool:
    """
    post: _
    """
    del _SEEN_CACHES[:]
    gate = _GATE_REC[(True if required else False, True if replay_cache else False)]
    gate(_Req(True, "x"))  # type: ignore[arg-type]
    gate(_Req(True, "y"))  # type: ignore[arg-type]
    if len(_SEEN_CACHES) != 2:
        return False
    if replay_cache:
        return _SEEN_CACHES[0] is not None and _SEEN_CACHES[0] is _SEEN_CACHES[1]
    return _SEEN_CACHES[0] is None and _SEEN_CACHES[1] is None
