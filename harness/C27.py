"""C27 — sticky lifecycle: opt-in, drain, and client token tracking.

xh: one HTTP request is played through the REAL code on both sides —
server: _StickyMiddleware.process_request -> method script using the real
CallContext.open_session / close_session (-> _StickySink -> _open_session / _close_session
-> _SessionRegistry.open / close) -> process_response;
client: _SessionTrackingClient._merge_headers / _capture on the produced headers —
for a symbolic method script (<= 3 actions from {open, close, nothing}), symbolic opt-in header,
resume/no-resume and draining flag.  Token sealing/opening is an ideal stub (C25 decides it).
"""

from __future__ import annotations

import types
from typing import Protocol

from engine.api import HarnessModelError, cond, pick
from engine.reglob import reglobalize

from vgi_rpc.http import _client as cl
from vgi_rpc.http.server import _sticky as st
from vgi_rpc.rpc import _common as rc

PROPERTY = "C27"
ENCODED = [
    rc.CallContext.open_session,
    rc.CallContext.close_session,
    st._StickySink.open,
    st._StickySink.close,
    st._StickyMiddleware.process_request,
    st._StickyMiddleware._open_session,
    st._StickyMiddleware._close_session,
    st._StickyMiddleware.process_response,
    st._SessionRegistry.open,
    st._SessionRegistry.close,
    cl._SessionTrackingClient._merge_headers,
    cl._SessionTrackingClient._capture,
]
BOUNDS = "one request with a method script of <= 3 actions over {open, close, nothing}; opt-in header absent / 'true' in 4 spellings / 'false' / any string <= %d chars; resumed or fresh; draining or not; then one follow-up request that resumes whatever the client holds" % pick(2, 3)
OUTSIDE = "token sealing/opening and identity binding (C25), concurrency (C26), TTL expiry; the Falcon/httpx plumbing between the header maps is exercised only by the real-HTTP replay of a counterexample, not by the solver"
ASSUMPTIONS = [
    "_seal_session_token/_open_session_token := ideal: a token opens to exactly the (server id, session id) it was sealed for",
    "identity is anonymous and the worker id constant (C25 covers mismatches)",
    "the method body is played as a script of real CallContext.open_session/close_session calls between process_request and process_response",
    "oracle (_judge): an open MUST succeed only for the spec's literal header value 'true' on a serving worker with no active session; for other spellings of true either answer is accepted; an open while draining with no active session MUST be answered server_draining",
    "a counterexample is reported only if it reproduces through the un-stubbed HTTP stack (make_sync_client + http_connect + with_session_token)",
]

# ---- environment stubs installed in the (process-local) module globals --------------------

_TOKENS: dict[str, tuple[str, bytes, int]] = {}


def _seal(*, server_id, session_id, expires_at, token_key, aad):  # type: ignore[no-untyped-def]
    tok = "tok-" + session_id.hex()
    _TOKENS[tok] = (server_id, session_id, expires_at)
    return tok


def _open(token, key, aad):  # type: ignore[no-untyped-def]
    hit = _TOKENS.get(token)
    if hit is None:
        raise st.SessionLostError("unknown token")
    return hit


def _err(resp, exc, status_code=None, **kw):  # type: ignore[no-untyped-def]
    resp.error = type(exc).__name__
    resp.status = status_code


st._seal_session_token = _seal  # type: ignore[assignment]
st._open_session_token = _open  # type: ignore[assignment]
st._get_auth_and_metadata = lambda: (None, None)  # type: ignore[assignment]
st._compute_aad = lambda auth: b"aad"  # type: ignore[assignment]
st._expected_server_id = lambda req: "srv"  # type: ignore[assignment]
st._set_error_response = _err  # type: ignore[assignment]
st.time = types.SimpleNamespace(time=lambda: 1000)  # type: ignore[assignment]  # no TTL expiry inside one scenario (outside the claim)


class _Req:
    def __init__(self, headers: dict) -> None:
        self.path = "/vgi/method"
        self.headers = headers
        self.context = types.SimpleNamespace()

    def get_header(self, name, default=None):  # type: ignore[no-untyped-def]
        return self.headers.get(name, default)


class _Resp:
    def __init__(self) -> None:
        self.complete = False
        self.status = None
        self.headers: dict = {}
        self.error = None

    def set_header(self, k, v) -> None:  # type: ignore[no-untyped-def]
        self.headers[k] = v


class _State:
    def __init__(self, tag: int) -> None:
        self.tag = tag
        self.closed = 0

    def close(self) -> None:
        self.closed += 1


def _mk():  # type: ignore[no-untyped-def]
    _TOKENS.clear()
    # a path abandoned by the engine mid-request must not leak request context into the next one
    for var in (st._current_session_context, st._current_session_id, st._current_sticky_action, st._current_sticky_sink):
        var.set(None)
    registry = st._SessionRegistry(100.0)
    mw = st._StickyMiddleware(registry, b"k" * 32)
    mw._reaper = object()  # type: ignore[assignment]  # no reaper thread in this single-request kernel
    return registry, mw


_CTX = object.__new__(rc.CallContext)  # open_session/close_session only use contextvars


def _serve(mw, headers: dict, script: list[int], states: list) -> tuple[_Resp, list[str]]:  # type: ignore[no-untyped-def]
    """One request through the real middleware + a method script; returns (response, outcomes)."""
    req, resp = _Req(headers), _Resp()
    outcomes: list[str] = []
    mw.process_request(req, resp)
    if not resp.complete:
        try:
            for a in script:
                if a == 1:
                    s = _State(len(states))
                    try:
                        rc.CallContext.open_session(_CTX, s)
                        states.append(s)
                        outcomes.append("opened")
                    except rc.ServerDrainingError:
                        outcomes.append("draining")
                    except RuntimeError:
                        outcomes.append("refused")
                elif a == 2:
                    rc.CallContext.close_session(_CTX)
                    outcomes.append("closed")
        finally:
            mw.process_response(req, resp, None, True)
    else:
        outcomes.append("lost")
    return resp, outcomes


class _Outer:
    _client = None
    _protocol = None


def _client_view(initial):  # type: ignore[no-untyped-def]
    view = object.__new__(cl._SessionView)
    view._token = initial
    view._closed = False
    view._echo_headers = {}
    tc = cl._SessionTrackingClient(None, view)  # type: ignore[arg-type]
    return view, tc


def _accept_value(kind: int, free: str):  # type: ignore[no-untyped-def]
    # 0 absent, 1..4 spellings of true, 5 "false", 6 any short string
    return [None, "true", "TRUE", " true ", "True\t", "false", free][kind]


def _play(resume: bool, accept_kind: int, free: str, draining: bool, a1: int, a2: int, a3: int, client_side: bool) -> str:
    registry, mw = _mk()
    states: list = []
    # a session the client already holds (opened by an earlier request of this client)
    held = None
    if resume:
        s0 = _State(-1)
        sid, exp = registry.open(s0, None, "\x00anonymous")
        held = _seal(server_id="srv", session_id=sid, expires_at=int(exp), token_key=b"", aad=b"")
        states.append(s0)
    registry.set_draining(draining)
    view, tc = _client_view(held)
    if client_side:
        headers = tc._merge_headers(None)  # the real client: always opts in
        opted_in = exact = True
    else:
        headers = {}
        av = _accept_value(accept_kind, free)
        if av is not None:
            headers[st.SESSION_ACCEPT_HEADER] = av
        if held is not None:
            headers[st.SESSION_HEADER] = held
        opted_in = av is not None and av.strip().lower() == "true"  # every spelling a lenient server may take for true
        exact = av == "true"  # the spec's literal: here an open must succeed
    live_before = len(registry)
    resp, outcomes = _serve(mw, headers, [a1, a2, a3], states)
    # ---- server-side rules ------------------------------------------------------------------
    bad = _judge(opted_in, draining, resume, [a1, a2, a3], outcomes, exact)
    if bad:
        return bad
    live = [sid for sid in registry]
    if len(live) > max(live_before, 1) and not any(o == "opened" for o in outcomes):
        return "registry grew without an accepted open"
    if not client_side:
        return ""
    # ---- client view after capturing this response -----------------------------------------
    tc._capture(resp)
    live_tokens = sorted("tok-" + sid.hex() for sid in live)
    if len(live_tokens) > 1:
        return "more than one live session for one client"
    want = live_tokens[0] if live_tokens else None
    if view._token != want:
        return "client holds %r but the server keeps %r live" % (view._token, want)
    # the follow-up request resumes exactly that session (or none)
    resp2, out2 = _serve(mw, tc._merge_headers(None), [0, 0, 0], states)
    if "lost" in out2:
        return "follow-up request with the client's token was refused"
    return ""


_VIEW_SLOT: list = [None]
_RAW_EXIT = getattr(cl._open_session_view, "__wrapped__", None)
# re-bound once at import (outside the tracer): the real generator body with _SessionView(...) := the scenario's view
_LEAVE = reglobalize(_RAW_EXIT, _SessionView=lambda outer, initial_token: _VIEW_SLOT[0]) if _RAW_EXIT is not None else None


def _leave_block(view) -> list:  # type: ignore[no-untyped-def]
    """Run the REAL exit logic of with_session_token() (the body of _open_session_view after its
    yield) on this view; returns the tokens it asked the server to release."""
    released: list = []

    class _Outer2:
        def _delete_session_best_effort(self, token) -> None:  # type: ignore[no-untyped-def]
            released.append(token)

        def __getattr__(self, name: str):  # type: ignore[no-untyped-def]
            raise HarnessModelError(f"block exit uses proxy.{name}: not modelled")

    if _LEAVE is None:
        raise HarnessModelError("_open_session_view is no longer a contextmanager-wrapped generator function")
    _VIEW_SLOT[0] = view
    gen = _LEAVE(_Outer2(), None)
    next(gen)
    try:
        next(gen)
    except StopIteration:
        pass
    return released


def _play_block(resume: bool, first: list[int], second: list[int]) -> str:
    """Two requests inside one with_session_token() block, then the block is left: whatever session
    the server still keeps live for this client must have been handed to the release call."""
    registry, mw = _mk()
    states: list = []
    held = None
    if resume:
        s0 = _State(-1)
        sid, exp = registry.open(s0, None, "\x00anonymous")
        held = _seal(server_id="srv", session_id=sid, expires_at=int(exp), token_key=b"", aad=b"")
        states.append(s0)
    view, tc = _client_view(held)
    for script in (first, second):
        resp, outcomes = _serve(mw, tc._merge_headers(None), script, states)
        if "lost" in outcomes:
            return "request with the client's own token was refused as session-lost"
        tc._capture(resp)
        live_tokens = sorted("tok-" + sid.hex() for sid in registry)
        if len(live_tokens) > 1:
            return "more than one live session for one client"
        want = live_tokens[0] if live_tokens else None
        if view._token != want:
            return "client holds %r but the server keeps %r live" % (view._token, want)
    released = _leave_block(view)
    for sid in registry:
        if "tok-" + sid.hex() not in released:
            return "a live session was left behind when the client left the block (no release)"
    return ""


def _judge(opted_in: bool, draining: bool, resume: bool, script: list[int], outcomes: list[str], exact: bool = True) -> str:
    """The property's server-side rules on one request, stated over what the method saw
    (shared by the kernel and the real-HTTP replay; nothing here reads the implementation).
    opted_in: the header value is some spelling of true (an open MAY succeed); exact: it is the
    literal ``true`` of the spec (an open MUST then succeed when nothing else forbids it)."""
    if "lost" in outcomes:
        return "existing session not served (drain or no-op must not lose it)" if resume else "request without a session token answered as session-lost"
    active = resume  # does this request currently have a live session?
    it = iter(outcomes)
    for a in script:
        if a == 0:
            continue
        o = next(it, None)
        if o is None:
            return "the method script did not run to its end"
        if a == 2:
            active = False
            continue
        if o == "opened":
            if not opted_in:
                return "session opened for a request that did not carry VGI-Session-Accept: true"
            if draining:
                return "session opened while the worker is draining"
            active = True
        elif o == "draining":
            if not draining:
                return "open answered server_draining on a worker that is not draining"
        elif o == "refused":
            if opted_in and exact and draining and not active:
                return "open while draining was refused with something other than server_draining"
            if opted_in and exact and not draining and not active:
                return "opted-in open on a serving worker with no active session was refused"
        else:
            return "unexpected outcome %r" % (o,)
    return ""


# ---- real replay: the same scenario through the real HTTP stack (nothing stubbed) -----------


class _RSvc(Protocol):
    def act(self, a1: int, a2: int, a3: int) -> str: ...


class _RState:
    def close(self) -> None:
        pass


class _RImpl:
    def act(self, a1: int, a2: int, a3: int, ctx: rc.CallContext) -> str:
        out: list[str] = []
        for a in (a1, a2, a3):
            if a == 1:
                try:
                    ctx.open_session(_RState())
                    out.append("opened")
                except rc.ServerDrainingError:
                    out.append("draining")
                except RuntimeError:
                    out.append("refused")
            elif a == 2:
                ctx.close_session()
                out.append("closed")
        return ",".join(out)


class _HdrClient:
    """The in-process test client with fixed extra request headers (a client that is not ours)."""

    def __init__(self, inner, extra: dict) -> None:  # type: ignore[no-untyped-def]
        self._inner, self._extra = inner, extra

    def post(self, url, *, content, headers):  # type: ignore[no-untyped-def]
        return self._inner.post(url, content=content, headers={**headers, **self._extra})

    def __getattr__(self, name):  # type: ignore[no-untyped-def]
        return getattr(self._inner, name)


def _call(proxy, a1: int, a2: int, a3: int) -> list[str]:  # type: ignore[no-untyped-def]
    try:
        r = proxy.act(a1=a1, a2=a2, a3=a3)
    except Exception as e:  # noqa: BLE001
        kind = getattr(e, "error_type", type(e).__name__)
        if "SessionLost" in str(kind):
            return ["lost"]
        raise
    return [x for x in r.split(",") if x]


def _replay_block(resume: bool, first: list[int], second: list[int]) -> str | None:
    """Two real calls inside a real with_session_token() block on the un-stubbed HTTP stack, then the
    block is left: the server must keep no session of this client."""
    import warnings

    from vgi_rpc import RpcServer
    from vgi_rpc.http import drain_handle, http_connect
    from vgi_rpc.http._testing import make_sync_client

    with warnings.catch_warnings():
        warnings.simplefilter("ignore")
        client = make_sync_client(RpcServer(_RSvc, _RImpl()), enable_sticky=True, token_key=b"k" * 32)
    try:
        registry = drain_handle(client._client.app).shutdown.__self__  # type: ignore[union-attr]
        with http_connect(_RSvc, client=client) as proxy:
            with proxy.with_session_token() as sess:  # type: ignore[attr-defined]
                if resume and _call(sess, 1, 0, 0) != ["opened"]:
                    return None
                for script in (first, second):
                    if _call(sess, *script) == ["lost"]:
                        return "real HTTP stack: request with the client's own token was refused as session-lost"
                    live, tok = len(list(registry)), sess.current_session_token()
                    if live > 1 or (tok is None) != (live == 0):
                        return "real HTTP stack: after script %r the client view holds %s while the server keeps %d session(s) live" % (script, "a token" if tok else "no token", live)
            left = len(list(registry))
            if left:
                return "real HTTP stack: %d live session(s) left behind after the client left its with_session_token() block (scripts %r then %r)" % (left, first, second)
        return None
    finally:
        client.close()


def _replay(a: dict) -> str | None:
    """The counterexample's scenario on the un-stubbed stack: real RpcServer + make_wsgi_app with
    sticky sessions, real token sealing, the real http_connect client (with_session_token for the
    client-view item, a plain proxy with hand-set headers otherwise).  Judged by the property
    rules (_judge) and by what a user can observe: the view's token vs the registry's live
    sessions, and whether the follow-up request is served."""
    import warnings

    from vgi_rpc import RpcServer
    from vgi_rpc.http import drain_handle, http_connect
    from vgi_rpc.http._testing import make_sync_client

    client_side = "accept_kind" not in a and "free" not in a
    script = [a.get("a1", 1), a.get("a2", 0), a.get("a3", 0)]
    resume, draining = bool(a["resume"]), bool(a.get("draining", False))
    if "b1" in a:
        return _replay_block(resume, script, [a["b1"], a["b2"], a["b3"]])
    with warnings.catch_warnings():
        warnings.simplefilter("ignore")
        client = make_sync_client(RpcServer(_RSvc, _RImpl()), enable_sticky=True, token_key=b"k" * 32)
    try:
        handle = drain_handle(client._client.app)
        registry = handle.shutdown.__self__  # type: ignore[union-attr]
        with http_connect(_RSvc, client=client) as proxy, proxy.with_session_token() as sess:  # type: ignore[attr-defined]
            if resume and _call(sess, 1, 0, 0) != ["opened"]:
                return None  # could not set the scene: says nothing
            if draining:
                handle.drain()  # type: ignore[union-attr]
            if client_side:
                outcomes = _call(sess, *script)
                bad = _judge(True, draining, resume, script, outcomes, True)
                if bad:
                    return "real HTTP stack: " + bad
                live = len(list(registry))
                tok = sess.current_session_token()
                if live > 1:
                    return "real HTTP stack: more than one live session for one client"
                if (tok is None) != (live == 0):
                    return "real HTTP stack: after script %r the client view holds %s while the server keeps %d session(s) live" % (script, "a token" if tok else "no token", live)
                if _call(sess, 0, 0, 0) == ["lost"]:
                    return "real HTTP stack: follow-up request with the client's token was refused as session-lost"
                return None
            av = _accept_value(a.get("accept_kind", 6 if "free" in a else 1), a.get("free", ""))
            extra: dict = {}
            if av is not None:
                try:
                    av.encode("latin-1")
                except UnicodeEncodeError:
                    return None  # not a header value a WSGI server can deliver
                extra[st.SESSION_ACCEPT_HEADER] = av
            tok = sess.current_session_token() if resume else None
            if tok is not None:
                extra[st.SESSION_HEADER] = tok
            opted_in = av is not None and av.strip().lower() == "true"
            with http_connect(_RSvc, client=_HdrClient(client, extra)) as raw:  # type: ignore[arg-type]
                outcomes = _call(raw, *script)
            bad = _judge(opted_in, draining, resume, script, outcomes, av == "true")
            return ("real HTTP stack: " + bad) if bad else None
    finally:
        client.close()


def _sig(a: dict, conc) -> str:  # type: ignore[no-untyped-def]
    r = _replay(a) or ""
    if "left behind" in r:
        return "C27:client-view:live-session-left-behind-on-block-exit"
    if "client holds" in r or "client view holds" in r:
        seq = [x for x in (a.get("a1", 0), a.get("a2", 0), a.get("a3", 0)) if x]
        return "C27:client-view:" + "-".join({1: "open", 2: "close"}[x] for x in seq)
    return "C27:" + r.replace("real HTTP stack: ", "")[:40]


_L = pick(2, 3)


@cond(q=90, t=240, encoded=ENCODED, stubs=ASSUMPTIONS[:2], bound="script <=3 actions; accept header absent / 4 spellings of true / false", replay=_replay, signature=_sig)
def opens_only_with_opt_in_and_not_draining(resume: bool, accept_kind: int, draining: bool, a1: int, a2: int, a3: int) -> bool:
    """
    pre: 0 <= accept_kind <= 5 and 0 <= a1 <= 2 and 0 <= a2 <= 2 and 0 <= a3 <= 2
    post: _
    """
    return _play(resume, accept_kind, "", draining, a1, a2, a3, False) == ""


@cond(q=60, t=240, encoded=ENCODED, stubs=ASSUMPTIONS[:2], bound="one open attempt; accept header any string <=%d chars" % _L, replay=_replay, signature=_sig)
def opt_in_header_any_short_string(resume: bool, free: str, draining: bool) -> bool:
    """
    pre: len(free) <= _L
    post: _
    """
    return _play(resume, 6, free, draining, 1, 0, 0, False) == ""


@cond(q=60, t=120, encoded=ENCODED, stubs=ASSUMPTIONS[:2], bound="script <=3 actions; real client headers; then one follow-up request", replay=_replay, signature=_sig)
def client_view_tracks_the_live_session(resume: bool, draining: bool, a1: int, a2: int, a3: int) -> bool:
    """
    pre: 0 <= a1 <= 2 and 0 <= a2 <= 2 and 0 <= a3 <= 2
    post: _
    """
    return _play(resume, 1, "", draining, a1, a2, a3, True) == ""


@cond(q=150, t=400, encoded=ENCODED + [cl._open_session_view], stubs=ASSUMPTIONS[:2], bound="two requests with scripts of <=3 actions each inside one with_session_token() block, then the block is left", replay=_replay, signature=_sig)
def leaving_the_block_releases_the_live_session(resume: bool, a1: int, a2: int, a3: int, b1: int, b2: int, b3: int) -> bool:
    """
    pre: 0 <= a1 <= 2 and 0 <= a2 <= 2 and 0 <= a3 <= 2 and 0 <= b1 <= 2 and 0 <= b2 <= 2 and 0 <= b3 <= 2
    post: _
    """
    return _play_block(resume, [a1, a2, a3], [b1, b2, b3]) == ""
