"""C29 — shared-memory transfer releases every region (release kernel only).

Real bytecode of the four places that own the *release* of a region received through the
shared-memory side channel:

* ``_read_unary_response`` (+ ``_read_batch_with_log_check``, ``_dispatch_log_or_error``,
  ``_drain_stream``, ``_validate_result``, ``AnnotatedBatch.release`` un-stubbed),
* the shm branch of ``_read_request``,
* ``_read_batch_with_log_check`` -> ``AnnotatedBatch`` handed to a stream caller,
* ``resolve_shm_batch`` and the ``release_fn`` closure it returns,
* the server's stream loop ``RpcServer._serve_stream`` (input regions: released when the next
  input arrives, and in any case before the output EOS — on return, error, cancel),

over a fake reader (scripted batches, a symbolic read that raises), a fake segment that logs
``read_buffer`` / ``free`` / ``close`` events, and ``_deserialize_from_shm`` := fake batch |
raises.  Asserted on every path (return or any exception): a region that was handed out is freed
exactly once, with the offset it was read from, not before its values were copied out, and
nothing else is freed.  Transparency (identity with inline transfer) is Arrow + POSIX shm and is
outside this claim.
"""

from __future__ import annotations

from typing import Optional

import pyarrow as pa

from engine.api import HarnessModelError, cond
from engine.reglob import reglobalize

from vgi_rpc import metadata as md
from vgi_rpc.log import Level
from vgi_rpc import shm as shm_mod
from vgi_rpc.rpc import _server as srv_mod
from vgi_rpc.rpc import _types as types_mod
from vgi_rpc.rpc import _wire as wire
from vgi_rpc.rpc._common import RpcError

PROPERTY = "C29"
ENCODED = [srv_mod.RpcServer._serve_stream, wire._coerce_input_batch, wire._read_unary_response, wire._read_batch_with_log_check, wire._read_request, shm_mod.resolve_shm_batch, types_mod.AnnotatedBatch.release, wire._drain_stream]
BOUNDS = (
    "one call: 0..2 log batches (last one possibly EXCEPTION) then one data batch (inline or shm pointer), one symbolic read index 1..4 that raises, "
    "result column present/absent, value None/non-None, declared type optional/non-optional/void, value deserialisation ok/raises, "
    "offset/length any ints, segment present/absent; request path: resolved row count 0..3, 0..2 columns, static or per-request (owned) segment; "
    "server stream loop: exchange stream with 0..2 inputs (thorough 0..3), each inline or shm pointer, each step emit | process raises | emits nothing | "
    "region undecodable | region of another field set | region of an uncastable type, ended by close or cancel (finite grid: the solver does the case split)"
)
OUTSIDE = (
    "identity with inline transfer, dictionary-encoded / zero-column batches, segment exhaustion, maybe_write_to_shm (all Arrow + POSIX shm); "
    "_serve_stream: producer streams (no input regions), headers, external-location inputs, output batches routed through shm (small outputs stay inline), "
    "more than 2 (quick) / 3 (thorough) inputs per call; client StreamSession release policy; double release() by API users (the handle is not idempotent); "
    "whether a region the receiver never read (an EXCEPTION log or a failing read came first) is handed back; which layer frees a region that was read but "
    "does not decode (judged at the end of the receiving call); whether / how often a per-request attached segment is closed (only: not before its region is released)"
)
ASSUMPTIONS = [
    "int(<offset/length bytes>) := the peer's make_shm_pointer_batch wrote decimal ints: returns that int",
    "_deserialize_from_shm := returns a batch or raises (Arrow reader); _deserialize_value := returns or raises",
    "the fake segment's free() succeeds (allocator behaviour is C28)",
]

_LVL_EXC = Level.EXCEPTION.value.encode()  # live enum values, not copies
_LVL_INFO = Level.INFO.value.encode()

_EV: list = []
_H: dict = {}


class _Num:
    def __init__(self, value: int) -> None:
        self.value = value


def _int_contract(x: object = 0, *a: object) -> int:
    if isinstance(x, _Num):
        return x.value
    if isinstance(x, int) and not a:
        return x
    raise HarnessModelError("int() of a value the contract stub does not model")


class _MD:
    def __init__(self, entries: list[tuple[bytes, object]]) -> None:
        self._entries = entries

    def get(self, key: bytes, default: object = None) -> object:
        for k, v in self._entries:
            if k == key:
                return v
        return default

    def __bool__(self) -> bool:
        return bool(self._entries)

    def __getattr__(self, name: str) -> object:
        raise HarnessModelError(f"metadata mapping used through .{name}")


class _Scalar:
    def __init__(self, v: object) -> None:
        self.v = v

    def as_py(self) -> object:
        _EV.append(("as_py",))
        return self.v


class _Field:
    def __init__(self, name: str) -> None:
        self.name = name
        self.type = "int64"


class _Batch:
    def __init__(self, cols: list[str], nrows: int, value: object = 7, tag: str = "inline") -> None:
        self.schema = [_Field(c) for c in cols]
        self.num_rows = nrows
        self._value = value
        self.tag = tag

    def column(self, key: object) -> list[_Scalar]:
        if isinstance(key, str) and key not in [f.name for f in self.schema]:
            raise KeyError(key)
        if self.num_rows < 1:
            raise IndexError("index out of bounds")
        return [_Scalar(self._value)]

    def __getattr__(self, name: str) -> object:
        raise HarnessModelError(f"batch used through .{name}")


class _Boom(Exception):
    """The symbolic raising step (stands for ArrowInvalid / OSError / anything the environment raises)."""


class _Reader:
    """Scripted reader: items then StopIteration; the k-th read (1-based, any kind) raises _Boom."""

    ipc_validation = None

    def __init__(self, items: list, fail_at: int) -> None:
        self.items = items
        self.pos = 0
        self.reads = 0
        self.fail_at = fail_at

    def _next(self) -> tuple:
        self.reads += 1
        if self.reads == self.fail_at:
            raise _Boom("read failed")
        if self.pos >= len(self.items):
            raise StopIteration
        it = self.items[self.pos]
        self.pos += 1
        return it

    def read_next_batch_with_custom_metadata(self) -> tuple:
        return self._next()

    def read_next_batch(self) -> object:
        return self._next()[0]


class _Seg:
    name = "seg"

    def read_buffer(self, offset: int, length: int) -> tuple:
        _EV.append(("read", offset, length))
        return ("region", offset, length)

    def free(self, offset: int) -> None:
        _EV.append(("free", offset))

    def close(self) -> None:
        _EV.append(("close",))

    def __getattr__(self, name: str) -> object:
        raise HarnessModelError(f"segment used through .{name}")


def _deser_stub(buf: object, schema: object) -> _Batch:
    if not _H["decode_ok"]:
        raise _Boom("undecodable region")
    _EV.append(("decoded",))
    return _Batch([f.name for f in schema], _H["resolved_rows"], _H.get("value", 7), tag="shm")  # type: ignore[attr-defined]


def _deser_value_stub(value: object, hint: object, validation: object = None) -> object:
    if _H.get("value_raises"):
        raise _Boom("nested value does not deserialise")
    return value


_resolve = reglobalize(shm_mod.resolve_shm_batch, int=_int_contract, _deserialize_from_shm=_deser_stub, strip_keys=lambda m, *k: m, merge_metadata=lambda *m: m[0])
_read_batch = reglobalize(wire._read_batch_with_log_check, resolve_shm_batch=_resolve)
_read_unary = reglobalize(wire._read_unary_response, _read_batch_with_log_check=_read_batch, _deserialize_value=_deser_value_stub)


class _IpcNS:
    @staticmethod
    def open_stream(src: object) -> object:
        return src


_read_request = reglobalize(wire._read_request, ValidatedReader=lambda raw, v: raw, ipc=_IpcNS(), resolve_shm_batch=_resolve)

_STUBS = [
    "reader := scripted (log batches, data/pointer batch, StopIteration) with one symbolic raising read",
    "segment := event recorder (read_buffer / free / close)",
    "_deserialize_from_shm := fake batch | raises; strip_keys / merge_metadata := opaque; int := offset/length as written by the peer",
    "_deserialize_value := value | raises",
]


class _Info:
    def __init__(self, has_return: bool, optional: bool) -> None:
        self.name = "m"
        self.has_return = has_return
        self.result_type = Optional[int] if optional else int


def _log_md(exc: bool) -> _MD:
    return _MD([(md.LOG_LEVEL_KEY, _LVL_EXC if exc else _LVL_INFO), (md.LOG_MESSAGE_KEY, b"m")])


def _ptr_md(off: int, length: int) -> _MD:
    return _MD([(md.SHM_OFFSET_KEY, _Num(off)), (md.SHM_LENGTH_KEY, _Num(length))])


def _accounting(off: int, region: bool = True) -> bool:
    """Every region handed out (read + decoded) is freed exactly once, after the last value copy; nothing else is freed.

    *region*: the peer did place a region at *off* (a pointer batch is in the stream and a segment is attached)."""
    reads = [e for e in _EV if e[0] == "read"]
    decoded = [e for e in _EV if e[0] == "decoded"]
    frees = [e for e in _EV if e[0] == "free"]
    if len(reads) > 1:
        return False
    if not decoded:
        # the call ended before the region was consumed (an EXCEPTION log / a failing read came first).
        # Whether the receiver then hands the region back (e.g. while draining) or leaves it to the
        # peer is not what this property fixes: at most one free, and only of that region.
        if not region:
            return len(frees) == 0
        return len(frees) <= 1 and all(f[1] == off for f in frees)
    if len(frees) != 1 or frees[0][1] != off or reads[0][1] != off:
        return False
    # not released while its values are still being read
    last_copy = max([i for i, e in enumerate(_EV) if e[0] == "as_py"], default=-1)
    return _EV.index(frees[0]) > last_copy


def _reset() -> None:
    _EV.clear()
    _H.clear()
    wire._current_request_batch.set(None)
    wire._current_request_metadata.set(None)


# ---------------------------------------------------------------------------
# real replays (real pyarrow, real POSIX segment, un-stubbed functions)
# ---------------------------------------------------------------------------


import enum as _enum  # noqa: E402


class _Colour(_enum.Enum):
    """Result type whose wire value (a member NAME) can fail to deserialise: the real 'value_raises'."""

    RED = "red"


class _FailingReader:
    """The real ValidatedReader with one environment fault: its k-th read (1-based, any kind) raises OSError
    (a pipe that breaks mid-response).  Everything else is forwarded to the real reader."""

    def __init__(self, inner: object, fail_at: int) -> None:
        self._inner, self._fail_at, self._reads = inner, fail_at, 0

    def _tick(self) -> None:
        self._reads += 1
        if self._reads == self._fail_at:
            raise OSError("read failed")

    def read_next_batch_with_custom_metadata(self) -> tuple:
        self._tick()
        return self._inner.read_next_batch_with_custom_metadata()  # type: ignore[attr-defined]

    def read_next_batch(self) -> object:
        self._tick()
        return self._inner.read_next_batch()  # type: ignore[attr-defined]

    def __getattr__(self, name: str) -> object:
        return getattr(self._inner, name)


class _SpySeg:
    """The REAL segment behind a transparent proxy that only notes which regions the receiver read."""

    def __init__(self, seg: object) -> None:
        self._seg = seg
        self.consumed: list = []

    def read_buffer(self, offset: int, length: int) -> object:
        self.consumed.append(offset)
        return self._seg.read_buffer(offset, length)  # type: ignore[attr-defined]

    def __getattr__(self, name: str) -> object:
        return getattr(self._seg, name)


def _real_infos() -> dict:
    from typing import Protocol

    from vgi_rpc.rpc import RpcServer

    class Svc(Protocol):
        def plain(self) -> int: ...

        def maybe(self) -> Optional[int]: ...

        def void(self) -> None: ...

        def colour(self) -> _Colour: ...

        def maybe_colour(self) -> Optional[_Colour]: ...

    class Impl:
        def plain(self) -> int:
            return 1

        def maybe(self) -> Optional[int]:
            return None

        def void(self) -> None:
            return None

        def colour(self) -> _Colour:
            return _Colour.RED

        def maybe_colour(self) -> Optional[_Colour]:
            return None

    return dict(RpcServer(Svc, Impl())._methods)


def _stream_bytes(schema: pa.Schema, items: list[tuple[pa.RecordBatch, dict | None]], trailer: bytes = b"") -> bytes:
    from vgi_rpc.utils import new_ipc_stream

    sink = pa.BufferOutputStream()
    with new_ipc_stream(sink, schema) as w:
        for b, cm in items:
            if cm:
                w.write_batch(b, custom_metadata=pa.KeyValueMetadata(cm))
            else:
                w.write_batch(b)
    return sink.getvalue().to_pybytes() + trailer


def _replay_unary(a: dict) -> str | None:
    from io import BytesIO

    from pyarrow import ipc

    from vgi_rpc.utils import IpcValidation, ValidatedReader, empty_batch

    if not a.get("shm_present", True) or not a.get("is_pointer", True):
        return None
    infos = _real_infos()
    # value_raises on real code: an Enum-typed result whose wire value names no member (KeyError in _deserialize_value)
    bad_value = bool(a.get("value_raises")) and a["has_return"] and not a["value_none"]
    if bad_value:
        info = infos["maybe_colour"] if a["optional"] else infos["colour"]
    else:
        info = infos["void"] if not a["has_return"] else (infos["maybe"] if a["optional"] else infos["plain"])
    col = "result" if a.get("has_col", True) else "other"
    schema = pa.schema([pa.field(col, pa.string() if bad_value else pa.int64())])
    data = pa.RecordBatch.from_pydict({col: [None if a["value_none"] else ("NO_SUCH_MEMBER" if bad_value else 7)]}, schema=schema)
    seg = shm_mod.ShmSegment.create(shm_mod.HEADER_SIZE + 262144)
    try:
        res = seg.allocate_and_write(data)
        assert res is not None
        ptr, ptr_md = shm_mod.make_shm_pointer_batch(schema, res[0], res[1])
        items: list = []
        for i in range(a["n_logs"]):
            exc = a["exc_log"] and i == a["n_logs"] - 1
            items.append((empty_batch(schema), {md.LOG_LEVEL_KEY: _LVL_EXC if exc else _LVL_INFO, md.LOG_MESSAGE_KEY: b"m"}))
        items.append((ptr, dict(ptr_md.items())))
        raw = _stream_bytes(schema, items)
        reader: object = ValidatedReader(ipc.open_stream(BytesIO(raw)), IpcValidation.NONE)
        if a.get("fail_at", 0) > 0:
            reader = _FailingReader(reader, a["fail_at"])
        # spy (not a stub): did the receiver read the region, i.e. did it consume what the peer allocated?
        spy = _SpySeg(seg)
        consumed = spy.consumed
        outcome = "returned"
        try:
            wire._read_unary_response(reader, info, None, shm=spy)  # type: ignore[arg-type]
        except Exception as e:  # noqa: BLE001
            outcome = f"raised {type(e).__name__}"
            if isinstance(e, ValueError) and "No allocation at offset" in str(e):
                return f"_read_unary_response freed the response region at offset {res[0]} twice (second free: {e})"
        live = seg.allocator.num_allocs
        if consumed and live != 0:
            return f"_read_unary_response {outcome}; the response region at offset {res[0]} was read by the receiver and is still allocated ({live} live allocations): leaked"
        # not consumed (an EXCEPTION log or a failing read came first): freeing it or not is both fine
        return None
    finally:
        seg.close()
        seg.unlink()


def _replay_request(a: dict) -> str | None:
    from io import BytesIO

    ncols = a.get("ncols", 2)
    fields = [pa.field("a", pa.int64()), pa.field("b", pa.int64())][:ncols]
    schema = pa.schema(fields)
    rows = a.get("resolved_rows", 1)
    data = pa.RecordBatch.from_arrays([pa.array([1] * rows, type=pa.int64()) for _ in fields], schema=schema) if fields else pa.RecordBatch.from_pylist([{}] * rows, schema=schema)
    seg = shm_mod.ShmSegment.create(shm_mod.HEADER_SIZE + 262144)
    try:
        res = seg.allocate_and_write(data)
        if res is None:
            return None
        ptr, ptr_md = shm_mod.make_shm_pointer_batch(schema, res[0], res[1])
        cm = dict(ptr_md.items())
        cm[md.RPC_METHOD_KEY] = b"m"
        cm[md.REQUEST_VERSION_KEY] = md.REQUEST_VERSION
        raw = _stream_bytes(schema, [(ptr, cm)])
        outcome = "returned"
        try:
            if a.get("owned"):
                # the dynamic path: the server attaches the client-owned segment for this one request
                # (a second real mapping of the same POSIX segment); the creator's view judges the leak
                wire._read_request(BytesIO(raw), attach_shm=lambda _m: shm_mod.ShmSegment.attach(seg.name, seg.size, track=False))
            else:
                wire._read_request(BytesIO(raw), shm=seg)
        except RpcError:
            outcome = "raised RpcError"
        except Exception as e:  # noqa: BLE001
            outcome = f"raised {type(e).__name__}"
            if isinstance(e, ValueError) and "No allocation at offset" in str(e):
                return f"_read_request freed the request region at offset {res[0]} twice (second free: {e})"
        live = seg.allocator.num_allocs
        if live != 0:
            return f"_read_request {outcome}; the request region at offset {res[0]} is still allocated ({live} live allocations): leaked"
        return None
    finally:
        seg.close()
        seg.unlink()


def _replay_stream_handle(a: dict) -> str | None:
    from io import BytesIO

    from pyarrow import ipc

    from vgi_rpc.utils import IpcValidation, ValidatedReader

    schema = pa.schema([pa.field("x", pa.int64())])
    data = pa.RecordBatch.from_pydict({"x": [1, 2, 3]}, schema=schema)
    seg = shm_mod.ShmSegment.create(shm_mod.HEADER_SIZE + 262144)
    try:
        res = seg.allocate_and_write(data)
        assert res is not None
        ptr, ptr_md = shm_mod.make_shm_pointer_batch(schema, res[0], res[1])
        raw = _stream_bytes(schema, [(ptr, dict(ptr_md.items()))])
        reader = ValidatedReader(ipc.open_stream(BytesIO(raw)), IpcValidation.NONE)
        ab = wire._read_batch_with_log_check(reader, None, shm=seg)
        before = seg.allocator.num_allocs
        same = ab.batch.equals(data)
        try:
            ab.release()
        except Exception as e:  # noqa: BLE001
            return f"AnnotatedBatch.release() raised {type(e).__name__}: {e}; live allocations now {seg.allocator.num_allocs}"
        after = seg.allocator.num_allocs
        del ab
        if before != 1:
            return f"the region was already freed ({before} live allocations) while the stream batch was still held unreleased"
        if not same:
            return "resolved stream batch differs from what was written"
        if after != 0:
            return f"release() left {after} live allocations: the region was not freed"
        return None
    finally:
        seg.close()
        seg.unlink()


def _replay_resolve_failure(a: dict) -> str | None:
    if a.get("decode_ok"):
        via = a.get("via", 0)
        if via == 1:
            return _replay_request({})
        if via == 2:
            return _replay_unary(dict(has_return=True, optional=False, value_none=False, n_logs=0, exc_log=False))
        return _replay_stream_handle(a)
    schema = pa.schema([pa.field("x", pa.int64())])
    seg = shm_mod.ShmSegment.create(shm_mod.HEADER_SIZE + 262144)
    try:
        off = seg.allocator.allocate(512)  # a region the peer allocated whose bytes do not decode
        assert off is not None
        seg.buf[off : off + 512] = b"\x07" * 512
        ptr, ptr_md = shm_mod.make_shm_pointer_batch(schema, off, 512)
        # judged where a receiver's call ENDS (whichever layer does the freeing): the three receiving
        # entry points, each reading a pointer batch whose region does not decode
        from io import BytesIO

        from pyarrow import ipc as _ipc

        from vgi_rpc.utils import IpcValidation, ValidatedReader

        via = a.get("via", 0)
        cm = dict(ptr_md.items())
        if via == 1:
            cm[md.RPC_METHOD_KEY] = b"m"
            cm[md.REQUEST_VERSION_KEY] = md.REQUEST_VERSION
        raw = _stream_bytes(schema, [(ptr, cm)])
        spy = _SpySeg(seg)
        who = ("_read_batch_with_log_check", "_read_request", "_read_unary_response")[via]
        try:
            if via == 1:
                wire._read_request(BytesIO(raw), shm=spy)  # type: ignore[arg-type]
            elif via == 2:
                rd = ValidatedReader(_ipc.open_stream(BytesIO(raw)), IpcValidation.NONE)
                wire._read_unary_response(rd, _real_infos()["plain"], None, shm=spy)  # type: ignore[arg-type]
            else:
                rd = ValidatedReader(_ipc.open_stream(BytesIO(raw)), IpcValidation.NONE)
                ab = wire._read_batch_with_log_check(rd, None, shm=spy)  # type: ignore[arg-type]
                ab.release()
        except Exception as e:  # noqa: BLE001
            live = seg.allocator.num_allocs
            if spy.consumed and live != 0:
                return (
                    f"{who} raised {type(e).__name__} after reading the undecodable region at offset {off}; no release handle reached the caller "
                    f"and the region stays allocated ({live} live): nobody can free it any more"
                )
            return None
        return None if seg.allocator.num_allocs == 0 else f"{who} returned on an undecodable region and left it allocated"
    finally:
        seg.close()
        seg.unlink()


# ---------------------------------------------------------------------------
# conditions
# ---------------------------------------------------------------------------


@cond(q=60, t=240, stubs=_STUBS, encoded=[wire._read_unary_response, wire._read_batch_with_log_check, shm_mod.resolve_shm_batch, types_mod.AnnotatedBatch.release],
      replay=_replay_unary, bound="see BOUNDS; raising read index 0(none)..4", signature=lambda args, conc: "C29:unary-response:region-not-freed-exactly-once")
def unary_response_releases_once(n_logs: int, exc_log: bool, is_pointer: bool, shm_present: bool, off: int, length: int, fail_at: int,
                                 has_return: bool, optional: bool, value_none: bool, has_col: bool, value_raises: bool) -> bool:
    """
    pre: 0 <= n_logs <= 2 and 0 <= fail_at <= 4
    post: _
    """
    _reset()
    _H["decode_ok"] = True
    _H["resolved_rows"] = 1
    _H["value"] = None if value_none else 7
    _H["value_raises"] = value_raises
    cols = ["result"] if has_col else ["other"]
    items: list = []
    for i in range(n_logs):
        items.append((_Batch(cols, 0), _log_md(exc_log and i == n_logs - 1)))
    if is_pointer:
        items.append((_Batch(cols, 0), _ptr_md(off, length)))
    else:
        items.append((_Batch(cols, 1, _H["value"]), None))
    reader = _Reader(items, fail_at)
    seg = _Seg() if shm_present else None
    try:
        _read_unary(reader, _Info(has_return, optional), None, shm=seg)
    except HarnessModelError:
        raise
    except Exception:  # noqa: BLE001
        pass  # any exit: the accounting below must hold
    return _accounting(off, is_pointer and shm_present)


@cond(q=60, t=240, stubs=_STUBS, encoded=[wire._read_request, shm_mod.resolve_shm_batch], replay=_replay_request,
      bound="pointer request, resolved rows 0..3, 0..2 columns, static | owned segment, offset/length any ints",
      signature=lambda args, conc: "C29:request:region-not-freed-exactly-once")
def request_releases_once(off: int, length: int, resolved_rows: int, ncols: int, owned: bool) -> bool:
    """
    pre: 0 <= resolved_rows <= 3 and 0 <= ncols <= 2
    post: _
    """
    _reset()
    _H["decode_ok"] = True
    _H["resolved_rows"] = resolved_rows
    cols = ["a", "b"][:ncols]
    m = _MD([(md.RPC_METHOD_KEY, b"m"), (md.REQUEST_VERSION_KEY, md.REQUEST_VERSION), (md.SHM_OFFSET_KEY, _Num(off)), (md.SHM_LENGTH_KEY, _Num(length))])
    reader = _Reader([(_Batch(cols, 0), m)], 0)
    seg = _Seg()
    try:
        if owned:
            _read_request(reader, attach_shm=lambda _m: seg)
        else:
            _read_request(reader, shm=seg)
    except HarnessModelError:
        raise
    except RpcError:
        pass
    except Exception:  # noqa: BLE001
        return False
    if not _accounting(off):
        return False
    closes = [i for i, e in enumerate(_EV) if e[0] == "close"]
    if not owned:
        return not closes  # the transport's segment is not ours to close
    frees = [i for i, e in enumerate(_EV) if e[0] == "free"]
    # a segment attached for this request must not be detached before its region was released (a free
    # through a closed mapping cannot reach the header: the region would stay allocated for the peer).
    # Whether / how often the attachment itself is closed is resource hygiene outside this property.
    return not closes or not frees or closes[0] > frees[0]


@cond(q=60, t=240, stubs=_STUBS, encoded=[wire._read_batch_with_log_check, shm_mod.resolve_shm_batch, types_mod.AnnotatedBatch.release], replay=_replay_stream_handle,
      bound="0..2 log batches then a pointer or inline batch; offset/length any ints; segment present/absent",
      signature=lambda args, conc: "C29:stream-batch:release-handle")
def stream_batch_release_handle(n_logs: int, is_pointer: bool, shm_present: bool, off: int, length: int) -> bool:
    """
    pre: 0 <= n_logs <= 2
    post: _
    """
    _reset()
    _H["decode_ok"] = True
    _H["resolved_rows"] = 3
    items: list = [(_Batch(["x"], 0), _log_md(False)) for _ in range(n_logs)]
    items.append((_Batch(["x"], 0), _ptr_md(off, length)) if is_pointer else (_Batch(["x"], 3), None))
    seg = _Seg() if shm_present else None
    try:
        ab = _read_batch(_Reader(items, 0), None, shm=seg)
    except HarnessModelError:
        raise
    except Exception:  # noqa: BLE001
        return False
    from_shm = is_pointer and shm_present
    # handed to the caller unreleased: the region must still be allocated (the batch references it)
    if any(e[0] == "free" for e in _EV):
        return False
    if (ab.batch.tag == "shm") != from_shm:
        return False
    try:
        ab.release()
    except HarnessModelError:
        raise
    except Exception:  # noqa: BLE001
        return False
    frees = [e for e in _EV if e[0] == "free"]
    return frees == ([("free", off)] if from_shm else [])


def _handed_back(off: int) -> bool:
    """The call (or the release handle) is over: a region the receiver READ has been freed exactly once, with
    its own offset; a region it never read may or may not have been handed back (at most once)."""
    frees = [e for e in _EV if e[0] == "free"]
    if not any(e[0] == "read" for e in _EV):
        return len(frees) <= 1 and all(f[1] == off for f in frees)
    return frees == [("free", off)]


@cond(q=45, t=120, stubs=_STUBS, encoded=[shm_mod.resolve_shm_batch, wire._read_batch_with_log_check, wire._read_request, wire._read_unary_response], replay=_replay_resolve_failure,
      bound="pointer batch read through one of the three receiving entry points (stream batch | request | unary response), offset/length any ints, region decode ok | raises",
      signature=lambda args, conc: "C29:resolve-failure:region-leaked")
def resolve_failure_releases_region(off: int, length: int, decode_ok: bool, via: int) -> bool:
    """
    pre: 0 <= via <= 2
    post: _
    """
    # Judged where the receiver's call ends, not inside resolve_shm_batch: which layer frees a region
    # that was read but cannot be decoded is the implementation's choice.
    _reset()
    _H["decode_ok"] = decode_ok
    _H["resolved_rows"] = 1
    seg = _Seg()
    if via == 1:
        m = _MD([(md.RPC_METHOD_KEY, b"m"), (md.REQUEST_VERSION_KEY, md.REQUEST_VERSION), (md.SHM_OFFSET_KEY, _Num(off)), (md.SHM_LENGTH_KEY, _Num(length))])
        try:
            _read_request(_Reader([(_Batch(["a"], 0), m)], 0), shm=seg)
        except HarnessModelError:
            raise
        except Exception:  # noqa: BLE001
            pass
        return _handed_back(off)
    if via == 2:
        try:
            _read_unary(_Reader([(_Batch(["result"], 0), _ptr_md(off, length))], 0), _Info(True, False), None, shm=seg)
        except HarnessModelError:
            raise
        except Exception:  # noqa: BLE001
            pass
        return _handed_back(off)
    try:
        ab = _read_batch(_Reader([(_Batch(["x"], 0), _ptr_md(off, length))], 0), None, shm=seg)
    except HarnessModelError:
        raise
    except Exception:  # noqa: BLE001
        # the receiver read the region and no handle reached the caller: it must have been handed back
        return _handed_back(off)
    if any(e[0] == "free" for e in _EV):
        return False  # freed while the batch is still held unreleased
    ab.release()
    return _handed_back(off)


# ---------------------------------------------------------------------------
# (e) the server's stream loop: every input region it resolved is released (before output EOS)
# ---------------------------------------------------------------------------
#
# Real bytecode of RpcServer._serve_stream (re-globalised: time := counter, resolve_shm_batch :=
# the real function with only _deserialize_from_shm stubbed) with real pyarrow running concretely
# on in-memory transports.  The solver's part is the case split over the step script.

from dataclasses import dataclass  # noqa: E402
from io import BytesIO  # noqa: E402
from typing import Protocol  # noqa: E402

from pyarrow import ipc  # noqa: E402

from engine.api import pick  # noqa: E402
from vgi_rpc.rpc import ExchangeState, Stream  # noqa: E402
from vgi_rpc.rpc import _server as srv  # noqa: E402
from vgi_rpc.utils import IpcValidation  # noqa: E402

_S_IN = pa.schema([pa.field("x", pa.int64())])
_S_OUT = pa.schema([pa.field("y", pa.int64())])
_NS = 3  # inputs per call (bound)
_S_BATCHES = tuple(pa.RecordBatch.from_pydict({"x": [i]}, schema=_S_IN) for i in range(_NS))
_S_WRONG_FIELDS = pa.RecordBatch.from_pydict({"z": ["a"]})
_S_WRONG_TYPE = pa.RecordBatch.from_pydict({"x": ["abc"]})
_S_OUT_BATCH = pa.RecordBatch.from_pydict({"y": [1]}, schema=_S_OUT)
_S_LEN = 512
# step kinds
_K_EMIT, _K_RAISE, _K_NOTHING, _K_FIELDS, _K_TYPE, _K_UNDECODABLE = 0, 1, 2, 3, 4, 5


def _s_off(i: int) -> int:
    return shm_mod.HEADER_SIZE + 1024 * i


def _s_request(t: int, mask: int, cancel: bool, offsets: tuple | None = None) -> bytes:
    """Input IPC stream: t inputs, input i a shm pointer iff bit i of mask, optionally a cancel batch."""
    b = BytesIO()
    with ipc.new_stream(b, _S_IN) as w:
        for i in range(t):
            if (mask >> i) & 1:
                off, ln = (offsets[i] if offsets is not None else (_s_off(i), _S_LEN))
                ptr, cm = shm_mod.make_shm_pointer_batch(_S_IN, off, ln)
                w.write_batch(ptr, custom_metadata=cm)
            else:
                w.write_batch(_S_BATCHES[i])
        if cancel:
            w.write_batch(_S_BATCHES[0].slice(0, 0), custom_metadata=pa.KeyValueMetadata({md.CANCEL_KEY: b"1"}))
    return b.getvalue()


def _s_tree(t: int, cancel: bool, depth: int = 0, mask: int = 0):  # type: ignore[no-untyped-def]
    if depth == t:
        return _s_request(t, mask, cancel)
    return (_s_tree(t, cancel, depth + 1, mask), _s_tree(t, cancel, depth + 1, mask | (1 << depth)))


# concrete request bytes for every (cancel, t, carrier bits of the first t inputs): the symbolic
# choice only selects, and only the bits of inputs that exist are looked at
_S_REQ = tuple(tuple(_s_tree(t, c) for t in range(_NS + 1)) for c in (False, True))


def _s_pick_request(t: int, mask: int, cancel: bool) -> bytes:
    node = _S_REQ[1 if cancel else 0][t]
    for i in range(t):
        node = node[(mask >> i) % 2]
    return node


class _SClock:
    def __init__(self) -> None:
        self.now = 0

    def monotonic(self) -> int:
        self.now += 1
        return self.now

    def __getattr__(self, name: str) -> object:
        raise HarnessModelError("clock stub touched through " + name)


class _STransport:
    def __init__(self, request: bytes) -> None:
        self.reader = BytesIO(request)
        self.writer = BytesIO()


class _SSeg:
    """Fake segment for the stream loop: events carry the output length at the time of the free."""

    name = "seg"

    def read_buffer(self, offset: int, length: int) -> tuple:
        _EV.append(("read", offset))
        return ("region", offset, length)

    def free(self, offset: int) -> None:
        _EV.append(("free", offset, len(_H["tr"].writer.getvalue())))

    def __getattr__(self, name: str) -> object:
        raise HarnessModelError(f"segment used through .{name}")


def _s_deser(buf: tuple, schema: object) -> pa.RecordBatch:
    i = (buf[1] - shm_mod.HEADER_SIZE) // 1024
    k = _H["script"][i]
    if k == _K_UNDECODABLE:
        raise pa.ArrowInvalid("Invalid IPC stream")
    _EV.append(("decoded", buf[1]))
    if k == _K_FIELDS:
        return _S_WRONG_FIELDS
    if k == _K_TYPE:
        return _S_WRONG_TYPE
    return _S_BATCHES[i]


@dataclass
class _SState(ExchangeState):
    def exchange(self, input, out, ctx) -> None:  # type: ignore[no-untyped-def]
        i = _H["i"]
        _H["i"] = i + 1
        _EV.append(("proc_start", i))
        try:
            k = _H["script"][i]
            if k == _K_RAISE:
                raise ValueError("boom")
            if k == _K_NOTHING:
                return
            out.emit(_S_OUT_BATCH)
            _H["emitted"] = _H.get("emitted", ()) + (i,)
        finally:
            _EV.append(("proc_end", i))
            _H["out_len_at_end_%d" % i] = len(_H["tr"].writer.getvalue())


class _SProto(Protocol):
    def exch(self) -> Stream[ExchangeState]: ...


class _SImpl:
    def exch(self) -> Stream[_SState]:
        return Stream(output_schema=_S_OUT, state=_SState(), input_schema=_S_IN)


_S_SERVER = srv.RpcServer(_SProto, _SImpl(), server_id="srv", ipc_validation=IpcValidation.FULL)
_s_resolve = reglobalize(shm_mod.resolve_shm_batch, _deserialize_from_shm=_s_deser)
_s_serve_stream = reglobalize(srv.RpcServer._serve_stream, time=_SClock(), resolve_shm_batch=_s_resolve)
_S_STUBS = [
    "time.monotonic := concrete counter (access-log duration only)",
    "_deserialize_from_shm := the batch the script says the region holds (right schema | other field set | uncastable type) | pa.ArrowInvalid",
    "segment := event recorder (read_buffer / free with the output length at that moment)",
    "transport := in-memory BytesIO pair; pyarrow runs concretely",
]


def _s_terminating(t: int, mask: int, script: tuple) -> int:
    """Index of the first input that ends the stream with an error (t if none does)."""
    for i in range(t):
        k = script[i]
        ptr = (mask >> i) & 1
        if k in (_K_RAISE, _K_NOTHING) or (ptr and k in (_K_FIELDS, _K_TYPE, _K_UNDECODABLE)):
            return i
    return t


class _LoggingSeg:
    """The REAL segment behind a transparent proxy that logs read_buffer / free into _EV (with the output length at
    that moment), so the replay can judge WHEN the un-stubbed server released a region."""

    def __init__(self, seg: object) -> None:
        self._seg = seg

    def read_buffer(self, offset: int, length: int) -> object:
        _EV.append(("read", offset))
        return self._seg.read_buffer(offset, length)  # type: ignore[attr-defined]

    def free(self, offset: int) -> None:
        _EV.append(("free", offset, len(_H["tr"].writer.getvalue())))
        self._seg.free(offset)  # type: ignore[attr-defined]

    def __getattr__(self, name: str) -> object:
        return getattr(self._seg, name)


def _replay_serve_stream(a: dict) -> str | None:
    """Un-stubbed RpcServer._serve_stream, real pyarrow, real POSIX segment holding real regions."""
    t, mask, cancel = a["t"], a["mask"], a["cancel"]
    script = (a["k0"], a["k1"], a["k2"])
    if a.get("__kinds__") is not None:
        script = tuple(a["__kinds__"][k] for k in script)
    seg = shm_mod.ShmSegment.create(shm_mod.HEADER_SIZE + 1024 * 1024)
    try:
        offsets: list = []
        for i in range(_NS):
            k = script[i]
            if not ((mask >> i) & 1) or i >= t:
                offsets.append((0, 0))
                continue
            if k == _K_UNDECODABLE:
                off = seg.allocator.allocate(_S_LEN)
                assert off is not None
                seg.buf[off : off + _S_LEN] = b"\x07" * _S_LEN
                offsets.append((off, _S_LEN))
            else:
                held = _S_WRONG_FIELDS if k == _K_FIELDS else (_S_WRONG_TYPE if k == _K_TYPE else _S_BATCHES[i])
                res = seg.allocate_and_write(held)
                assert res is not None
                offsets.append(res)
        tr = _STransport(_s_request(t, mask, cancel, tuple(offsets)))
        _H.clear()
        _EV.clear()
        _H.update(script=script, i=0, tr=tr)
        raised = None
        try:
            _S_SERVER._serve_stream(tr, _S_SERVER._methods["exch"], {}, shm=_LoggingSeg(seg))  # type: ignore[arg-type]
        except Exception as e:  # noqa: BLE001
            raised = e  # not this property by itself; the regions the server read still have to come back
        # (1) timing/exactly-once, judged on the events the REAL server produced on the REAL segment
        idx = {offsets[i][0]: i for i in range(_NS) if (mask >> i) & 1 and i < t}
        why_ev = _stream_events_problem(len(tr.writer.getvalue()), lambda off: idx.get(off, -1), raised is not None)
        if why_ev and "still allocated" not in why_ev:
            return f"un-stubbed _serve_stream over a real segment: {why_ev}" + (f" (the call raised {type(raised).__name__})" if raised else "")
        # (2) leaks, judged on the real allocation table
        last = _s_terminating(t, mask, script)
        consumed = [e[1] for e in _EV if e[0] == "read"]  # what the real server actually read
        live = [o for o, _ln in seg.allocator._read_allocs()]
        leaked = [o for o in consumed if o in live]
        if leaked:
            if last >= t:
                why = f"all {t} inputs were processed and the client {'cancelled' if cancel else 'closed'}"
            elif script[last] in (_K_RAISE, _K_NOTHING):
                why = f"input {last} ended the stream because its processing raised"
            else:
                why = f"input {last} ended the stream because its region could not be coerced/decoded"
            return (
                f"after the stream call ended (output EOS written) {len(leaked)} input region(s) the server had resolved are still allocated at {leaked} "
                f"({why}); live table {seg.allocator._read_allocs()}"
            )
        return None
    finally:
        seg.close()
        seg.unlink()


def _replay_zero_copy_view() -> str | None:
    """Un-stubbed _serve_stream over a real segment: a state that emits a zero-copy view of its (shm-carried)
    input with another column layout; the answer through shm must equal the answer of inline transfer."""
    from vgi_rpc.utils import ValidatedReader

    rows = max(shm_mod.SHM_MIN_BATCH_BYTES // 8 + 1024, 4096)
    s_in = pa.schema([pa.field("a", pa.int64()), pa.field("b", pa.float64())])
    s_out = pa.schema([pa.field("b", pa.float64()), pa.field("a", pa.int64())])

    @dataclass
    class Swap(ExchangeState):
        def exchange(self, input, out, ctx) -> None:  # type: ignore[no-untyped-def]
            b = input.batch
            out.emit(pa.RecordBatch.from_arrays([b.column("b"), b.column("a")], schema=s_out))

    class P(Protocol):
        def swap(self) -> Stream[ExchangeState]: ...

    class Impl:
        def swap(self) -> Stream[Swap]:
            return Stream(output_schema=s_out, state=Swap(), input_schema=s_in)

    server = srv.RpcServer(P, Impl(), server_id="srv")
    data = pa.RecordBatch.from_pydict({"a": list(range(rows)), "b": [float(-i) for i in range(rows)]}, schema=s_in)
    want = pa.RecordBatch.from_arrays([data.column("b"), data.column("a")], schema=s_out)

    def run(through_shm: bool) -> tuple:
        seg = shm_mod.ShmSegment.create(shm_mod.HEADER_SIZE + 16 * 1024 * 1024) if through_shm else None
        try:
            b = BytesIO()
            with ipc.new_stream(b, s_in) as w:
                if seg is not None:
                    res = seg.allocate_and_write(data)
                    assert res is not None
                    ptr, cm = shm_mod.make_shm_pointer_batch(s_in, res[0], res[1])
                    w.write_batch(ptr, custom_metadata=cm)
                else:
                    w.write_batch(data)
            tr = _STransport(b.getvalue())
            server._serve_stream(tr, server._methods["swap"], {}, shm=seg)
            rd = ValidatedReader(ipc.open_stream(BytesIO(tr.writer.getvalue())), IpcValidation.NONE)
            try:
                ab = wire._read_batch_with_log_check(rd, None, shm=seg)
            except Exception as e:  # noqa: BLE001
                return ("error", f"{type(e).__name__}: {e}"[:160], through_shm)
            ok = ab.batch.equals(want)
            first_bad = None
            if not ok and ab.batch.num_rows == want.num_rows:
                for name in ("b", "a"):
                    got_col, want_col = ab.batch.column(name).to_pylist(), want.column(name).to_pylist()
                    for j in range(rows):
                        if got_col[j] != want_col[j]:
                            first_bad = (name, j, got_col[j], want_col[j])
                            break
                    if first_bad:
                        break
            routed = ab.custom_metadata is not None and ab.custom_metadata.get(md.SHM_SOURCE_KEY) is not None
            return ("ok" if ok else "differs", first_bad, routed)
        finally:
            if seg is not None:
                seg.close()
                seg.unlink()

    inline = run(False)
    shared = run(True)
    if inline[0] != "ok":
        return None  # the scenario itself does not work on this tree: not this defect
    if shared[0] != "ok":
        return (
            f"exchange answer differs between transports: inline transfer returns the swapped columns intact, through shared memory the answer "
            f"is {shared[0]} (first difference column/row/got/want: {shared[1]}); the input region was handed back while the output still referenced it"
        )
    return None


def _replay_serve_stream_full(a: dict) -> str | None:
    return _replay_serve_stream(a) or _replay_zero_copy_view()


_T_MAX = pick(2, 3)
_KINDS_A = (_K_EMIT, _K_RAISE, _K_NOTHING, _K_UNDECODABLE)


class _LazyScript:
    """script[i] maps the symbolic index through the kind table only when input i is actually reached."""

    def __init__(self, idx: tuple, table: tuple) -> None:
        self.idx, self.table = idx, table

    def __getitem__(self, i: int) -> int:
        return self.table[self.idx[i]]


def _serve_stream_accounting(t: int, mask: int, cancel: bool, script: tuple) -> bool:
    _EV.clear()
    _H.clear()
    tr = _STransport(_s_pick_request(t, mask, cancel))
    _H.update(script=script, i=0, tr=tr)
    raised = False
    try:
        _s_serve_stream(_S_SERVER, tr, _S_SERVER._methods["exch"], {}, shm=_SSeg())
    except HarnessModelError:
        raise
    except Exception:  # noqa: BLE001
        raised = True  # whatever made the loop raise is not this property; the regions it read still are
    return _stream_events_problem(len(tr.writer.getvalue()), lambda off: (off - shm_mod.HEADER_SIZE) // 1024, raised) is None


def _stream_events_problem(final_len: int, index_of, raised: bool) -> str | None:  # type: ignore[no-untyped-def]
    """Judge the event log (_EV: read / free(off, output length then) / proc_start / proc_end) of ONE stream call.

    The same judgement is applied to the model run and, in the replay, to the events observed on the
    un-stubbed server over a real segment (a logging proxy in front of it)."""
    eos = len(shm_mod._IPC_EOS)
    reads = [e[1] for e in _EV if e[0] == "read"]
    frees = [e for e in _EV if e[0] == "free"]
    # every region the server read is freed exactly once, nothing else is freed
    if sorted(f[1] for f in frees) != sorted(reads) or len(set(reads)) != len(reads):
        left = [o for o in reads if o not in [f[1] for f in frees]]
        return f"regions read {reads}, regions freed {[f[1] for f in frees]}" + (f": {left} still allocated after the stream call ended" if left else "")
    for f in frees:
        fi = _EV.index(f)
        if fi < _EV.index(("read", f[1])):
            return f"region {f[1]} freed before it was read"
        # ... before the output stream's EOS marker is written: EOS tells the client every region is back
        if not raised and f[2] > final_len - eos:
            return f"region {f[1]} freed only after the output EOS was written (output length at the free {f[2]}, final {final_len})"
        # ... and not while process() on that input is still running
        i = index_of(f[1])
        if ("proc_start", i) in _EV and fi < _EV.index(("proc_end", i)):
            return f"region {f[1]} of input {i} freed while process() on that input was still running"
        # ... and not before the output produced from that input has been written: the collector may
        # hold zero-copy views of the input, and a freed region is what first-fit hands the output
        if i in _H.get("emitted", ()) and f[2] <= _H["out_len_at_end_%d" % i]:
            return f"region {f[1]} of input {i} freed before the output emitted from it was written"
    return None


@cond(q=90, t=300, stubs=_S_STUBS, encoded=[srv.RpcServer._serve_stream, shm_mod.resolve_shm_batch, types_mod.AnnotatedBatch.release],
      replay=lambda a: _replay_serve_stream_full(dict(a, __kinds__=_KINDS_A)),
      bound="exchange stream, 0..%d inputs each inline or shm pointer, per input {emit, process raises, emits nothing (validate raises), region undecodable}, close or cancel" % _T_MAX,
      signature=lambda args, conc: "C29:serve-stream:input-region-not-released")
def serve_stream_releases_inputs(t: int, mask: int, cancel: bool, k0: int, k1: int, k2: int) -> bool:
    """
    pre: 0 <= t <= _T_MAX and 0 <= mask < 8 and 0 <= k0 <= 3 and 0 <= k1 <= 3 and 0 <= k2 <= 3
    post: _
    """
    return _serve_stream_accounting(t, mask, cancel, _LazyScript((k0, k1, k2), _KINDS_A))


@cond(q=60, t=200, stubs=_S_STUBS, encoded=[srv.RpcServer._serve_stream, wire._coerce_input_batch, shm_mod.resolve_shm_batch],
      replay=_replay_serve_stream_full,
      bound="exchange stream, 1..%d inputs each inline or shm pointer, all echoed except the last: a shm region holding a batch of another field set | an uncastable column type" % _T_MAX,
      signature=lambda args, conc: "C29:serve-stream:uncoercible-input-region-leaked")
def serve_stream_releases_uncoercible_input(t: int, mask: int, cancel: bool, k0: int, k1: int, k2: int) -> bool:
    """
    pre: 1 <= t <= _T_MAX and 0 <= mask < 8 and (mask >> (t - 1)) % 2 == 1
    pre: (k0, k1, k2)[t - 1] in (_K_FIELDS, _K_TYPE)
    pre: all(k == _K_EMIT for k in (k0, k1, k2)[: t - 1])
    pre: 0 <= k0 <= 5 and 0 <= k1 <= 5 and 0 <= k2 <= 5
    post: _
    """
    return _serve_stream_accounting(t, mask, cancel, (k0, k1, k2))
